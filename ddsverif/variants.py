"""
Variant corpus: self-validation of the checker (thorough tier).

A variant is a source-to-source edit of the *current* tree, applied in memory (nothing is written
under /repo, nothing is executed): a list of (file, old text, new text) replacements, each of which
must match exactly once.  `expect` names the rule that must report a violation ("breaking"), or is
None for a behaviour-preserving twin that must leave the property's verdict clean.

A breaking variant that is not flagged, or a twin that is flagged, means the *checker* is broken:
ANALYSIS-ERROR checker-regression (exit 2), never a VIOLATION.  A variant whose old text no longer
occurs is counted as inapplicable.
"""
from __future__ import annotations

import importlib
import os
import random
import sys
from concurrent.futures import ProcessPoolExecutor
from typing import Any, Dict, List, Optional, Tuple

from .model import Program, AnalysisError
from .report import Report, VIOLATED, UNDECIDED


def load_variants(prop: str) -> List[Dict[str, Any]]:
    try:
        mod = importlib.import_module(f"variants.{prop.lower()}")
    except ModuleNotFoundError:
        return []
    return list(getattr(mod, "VARIANTS", []))


def apply_variant(sources: Dict[str, Tuple[str, str, bool]], v: Dict[str, Any]) -> Optional[Dict[str, Tuple[str, str, bool]]]:
    out = dict(sources)
    byrel = {rel: name for name, (rel, _, _) in sources.items()}
    for ed in v["edits"]:
        rel, old, new = ed["file"], ed["old"], ed["new"]
        name = byrel.get(rel)
        if name is None:
            return None
        r, text, pkg = out[name]
        if text.count(old) != 1:
            return None
        out[name] = (r, text.replace(old, new), pkg)
    return out


def _run_one(args: Tuple[str, str, int, Dict[str, Any]]) -> Dict[str, Any]:
    prop, repo, seed, v = args
    from .cli import analyse

    try:
        base = Program.read_sources(repo)
        srcs = _patched_sources(repo, v["patch"]) if "patch" in v else apply_variant(base, v)
        if srcs is None:
            return {"name": v["name"], "status": "inapplicable"}
        try:
            Program(srcs, repo)
        except AnalysisError as e:
            return {"name": v["name"], "status": "inapplicable", "detail": f"does not parse: {e}"}
        rep = analyse(prop, repo, "quick", seed, sources=srcs, quiet=True)
        rep.apply_known()
        viol = [o for o in rep.obligations if o.verdict == VIOLATED and not o.known]
        und = [o for o in rep.obligations if o.verdict == UNDECIDED]
        exp = v.get("expect")
        got_rules = sorted({o.rule for o in viol})
        if exp is None:
            ok = not viol and not und and not rep.errors
        else:
            ok = any(o.rule == exp or o.rule.startswith(exp) for o in viol)
        status = "ok" if ok else "FAILED"
        if exp is None and not ok and not viol:
            # a twin on which the analysis says "I do not recognise this code" (undecided obligations / floors, never a violation): expected when the twin is listed, with
            # the reason, in refactorings/UNDECIDED.json (DESIGN.md 9.16, 9.17) - recorded as such, not as a regression of the checker
            if prop in documented_undecided().get(v["name"].split("/")[-1], {}).get("properties", []):
                status = "undecided-documented"
        return {
            "name": v["name"], "status": status, "expect": exp, "violated_rules": got_rules,
            "undecided": [o.rule for o in und], "errors": rep.errors[:3],
            "first": (viol[0].desc + " @ " + viol[0].where) if viol else "",
        }
    except BaseException as e:  # noqa
        return {"name": v.get("name", "?"), "status": "FAILED", "detail": f"{type(e).__name__}: {e}"}


def documented_undecided() -> Dict[str, Any]:
    import json
    p = os.path.join(os.path.dirname(os.path.dirname(os.path.abspath(__file__))), "refactorings", "UNDECIDED.json")
    try:
        with open(p) as f:
            return json.load(f)
    except (OSError, ValueError):
        return {}


def seeded_for(prop: str) -> List[Dict[str, Any]]:
    """the independently seeded, confirmed property-breaking changes kept under /verif/seeded (patch files)"""
    import json
    base = os.path.join(os.path.dirname(os.path.dirname(os.path.abspath(__file__))), "seeded")
    out = []
    if not os.path.isdir(base):
        return out
    for name in sorted(os.listdir(base)):
        meta = os.path.join(base, name, "meta.json")
        patch = os.path.join(base, name, "patch.diff")
        if os.path.isfile(meta) and os.path.isfile(patch):
            try:
                m = json.load(open(meta))
            except Exception:
                continue
            if m.get("property") == prop:
                out.append({"name": f"seeded/{name}", "expect": prop, "patch": patch})
    return out


def refactorings() -> List[Dict[str, Any]]:
    """behaviour-preserving refactorings written by independent sub-agents (each verified against the suite and a
    behaviour trace): every check must stay silent on each of them"""
    base = os.path.join(os.path.dirname(os.path.dirname(os.path.abspath(__file__))), "refactorings")
    out = []
    if os.path.isdir(base):
        for name in sorted(os.listdir(base)):
            patch = os.path.join(base, name, "patch.diff")
            if os.path.isfile(patch):
                out.append({"name": f"refactoring/{name}", "expect": None, "patch": patch})
    return out


def _patched_sources(repo: str, patch: str) -> Optional[Dict[str, Tuple[str, str, bool]]]:
    """apply a patch file to a scratch copy of the package (removed at once) and read the sources back"""
    import shutil
    import subprocess
    import tempfile

    tmp = tempfile.mkdtemp(prefix="ddsverif-")
    try:
        shutil.copytree(os.path.join(repo, "dds"), os.path.join(tmp, "dds"), ignore=shutil.ignore_patterns("__pycache__"))
        r = subprocess.run(["git", "apply", "-p1", patch], cwd=tmp, capture_output=True, text=True)
        if r.returncode != 0:
            return None
        return Program.read_sources(tmp)
    finally:
        shutil.rmtree(tmp, ignore_errors=True)


def selftest(prop: str, repo: str, seed: int, rep: Report) -> None:
    vs = load_variants(prop) + seeded_for(prop) + refactorings()
    rnd = random.Random(seed)
    rnd.shuffle(vs)
    if len(vs) > 200:
        vs = vs[:200]
    results: List[Dict[str, Any]] = []
    if vs:
        workers = min(16, len(vs), os.cpu_count() or 4)
        with ProcessPoolExecutor(max_workers=workers) as ex:
            results = list(ex.map(_run_one, [(prop, repo, seed, v) for v in vs]))
    failed = [r for r in results if r["status"] == "FAILED"]
    rep.selftest = {
        "variants": len(results),
        "breaking_flagged": sum(1 for r in results if r["status"] == "ok" and r.get("expect")),
        "twins_silent": sum(1 for r in results if r["status"] == "ok" and not r.get("expect")),
        "twins_undecided_documented": [r["name"] for r in results if r["status"] == "undecided-documented"],
        "inapplicable": [r["name"] for r in results if r["status"] == "inapplicable"],
        "failed": failed,
        "results": [{k: r.get(k) for k in ("name", "status", "expect", "violated_rules")} for r in results],
    }
    for r in failed:
        rep.error(f"checker-regression variant={r['name']} expect={r.get('expect')} got={r.get('violated_rules')} "
                  f"undecided={r.get('undecided')} {r.get('detail', '')} {r.get('errors', '')}")


def main() -> int:
    """python -m ddsverif.variants <PROP> [name-substring]   - run the corpus and print each result"""
    prop = sys.argv[1].upper()
    pat = sys.argv[2] if len(sys.argv) > 2 else ""
    repo = os.environ.get("VERIF_REPO", "/repo")
    own_only = bool(os.environ.get("VARIANTS_OWN"))  # the hand-written variants only (the kept patches are run by tools/matrix_par.sh)
    vs = [v for v in load_variants(prop) + ([] if own_only else seeded_for(prop) + refactorings()) if pat in v["name"]]
    with ProcessPoolExecutor(max_workers=min(16, max(1, len(vs)))) as ex:
        res = list(ex.map(_run_one, [(prop, repo, 0, v) for v in vs]))
    bad = 0
    for r in res:
        print(r["status"], r["name"], "expect=", r.get("expect"), "got=", r.get("violated_rules"),
              r.get("undecided") or "", r.get("detail", ""), r.get("errors") or "", "|", r.get("first", ""))
        bad += r["status"] == "FAILED"
    return 1 if bad else 0


if __name__ == "__main__":
    c = main()
    sys.stdout.flush()
    os._exit(c)
