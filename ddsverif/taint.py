"""
Forward explicit-flow propagation from source expressions to sinks (interprocedural, field-sensitive for
the package's record classes, field-based for other instance attributes, container-collapsing).

An occurrence (function, expression) is *derived from a source* when the source's value can flow into it by
assignment, argument passing (resolved package callees), return, record construction / field load, attribute
store / load, container insertion / iteration, or as an operand of a value-building expression.  Comparisons,
truth tests, subscript *lookup keys* and the listed sanitiser calls end a flow.  Every derived occurrence keeps a
parent link, so a hit comes with its def-use chain as the witness.
"""
from __future__ import annotations

import ast
from collections import deque
from typing import Any, Callable, Dict, Iterable, List, Optional, Set, Tuple

from .flow import flow_of, heap_of, MUTATORS, bind_arg
from .model import Program, Func, unparse, f_cls

SANITIZER_CALLS = {
    "len", "isinstance", "issubclass", "bool", "type", "callable", "hasattr", "any", "all", "min", "max", "sum",
}
LOGGING = ("debug", "info", "warning", "error", "warn", "exception")
# name / object -> object dereferences: the result is the *content* of what the name designates, not the name
DEREF_CALLS = {"importlib.import_module", "inspect.getmodule", "inspect.getsource", "inspect.signature", "inspect.unwrap", "ast.parse",
               "getattr", "dataclasses.fields", "inspect.getmembers", "sys.modules.get", "linecache.getlines", "inspect.linecache.getlines"}
DEREF_ATTRS = {"__dict__", "__wrapped__", "__code__", "__globals__", "user_ns"}


class Occ:
    __slots__ = ("func", "node", "parent", "why", "aspect")

    def __init__(self, func: Func, node: ast.AST, parent: Optional["Occ"], why: str, aspect: Optional[str] = None):
        self.func, self.node, self.parent, self.why = func, node, parent, why
        self.aspect = aspect  # None: the value itself; "key" / "val": only the keys / values of a mapping (or pair) derive

    def chain(self, limit: int = 25) -> List[str]:
        out: List[str] = []
        cur: Optional[Occ] = self
        while cur is not None:
            asp = f" <{cur.aspect}s only>" if cur.aspect else ""
            out.append(f"{cur.func.module.relpath}:{getattr(cur.node, 'lineno', '?')}: {unparse(cur.node, 70)}  [{cur.why}]{asp}")
            cur = cur.parent
        out = list(reversed(out))
        if len(out) > limit:
            out = out[: limit // 2] + [f"... {len(out) - limit} steps ..."] + out[-limit // 2:]
        return out


class Forward:
    def __init__(self, prog: Program, types: Any = None, is_sink: Optional[Callable[[Func, ast.Call, int, Optional[str]], Optional[str]]] = None,
                 stop_call: Optional[Callable[[Func, ast.Call], bool]] = None, max_items: int = 40000,
                 modules: Optional[Iterable[str]] = None, funcs: Optional[Iterable[str]] = None):
        self.prog = prog
        self.types = types
        self.heap = heap_of(prog)
        self.is_sink = is_sink
        self.stop_call = stop_call
        self.max_items = max_items
        self.modules = set(modules) if modules is not None else None
        self.funcs = set(funcs) if funcs is not None else None
        self.escaped: List[Occ] = []
        self._attr_loads: Optional[Dict[str, List[Tuple[Func, ast.Attribute]]]] = None
        self._uses_cache: Dict[Tuple[int, str], List[ast.Name]] = {}

    # ------------------------------------------------------------------ indexes
    def attr_loads(self, attr: str) -> List[Tuple[Func, ast.Attribute]]:
        if self._attr_loads is None:
            idx: Dict[str, List[Tuple[Func, ast.Attribute]]] = {}
            for f in self.prog.funcs.values():
                for n in f.own_nodes():
                    if isinstance(n, ast.Attribute) and isinstance(n.ctx, ast.Load):
                        idx.setdefault(n.attr, []).append((f, n))
            self._attr_loads = idx
        return self._attr_loads.get(attr, [])

    def _recv_class(self, f: Func, recv: ast.AST) -> Optional[str]:
        if isinstance(recv, ast.Name) and recv.id in ("self", "cls"):
            c = f_cls(f)
            return c.qname if c is not None else None
        if self.types is not None:
            return self.types.receiver_class(f.module.name, recv)
        return None

    def attr_loads_for(self, f: Func, store_recv: Optional[ast.AST], attr: str) -> List[Tuple[Func, ast.Attribute]]:
        """loads of .attr whose receiver can be the object stored into (by static type when known)"""
        sc = self._recv_class(f, store_recv) if store_recv is not None else None
        out = []
        for g, n in self.attr_loads(attr):
            lc = self._recv_class(g, n.value)
            if sc is not None and lc is not None:
                rel = sc == lc or lc in self.prog.all_bases(sc) or sc in self.prog.all_bases(lc)
                if not rel:
                    continue
            elif lc is not None and lc not in self.prog.classes and sc is None:
                # the load is on a known external type (ast node, pathlib, ...): package stores do not reach it
                if store_recv is not None:
                    continue
            elif sc is not None and lc is None:
                pass
            out.append((g, n))
        return out

    def name_loads(self, f: Func, name: str) -> List[Tuple[Func, ast.Name]]:
        """loads of a local variable of f: in f and in its nested functions (closures)"""
        out: List[Tuple[Func, ast.Name]] = []
        stack = [f]
        first = True
        while stack:
            g = stack.pop()
            if not first and name in self.prog.local_names(g):
                continue  # shadowed
            first = False
            for n in g.own_nodes():
                if isinstance(n, ast.Name) and n.id == name and isinstance(n.ctx, ast.Load):
                    out.append((g, n))
            stack.extend(g.nested.values())
        return out

    def uses_of_def(self, f: Func, name: str, stmt: ast.AST) -> List[Tuple[Func, ast.Name]]:
        fl = flow_of(self.prog, f)
        res = []
        for g, n in self.name_loads(f, name):
            if g is f:
                defs = fl.defs_of_use(n, name)
                if any(d.stmt is stmt for d in defs) or not defs:
                    res.append((g, n))
            else:
                res.append((g, n))
        return res

    # ------------------------------------------------------------------ run
    def run(self, sources: Iterable[Tuple[Func, ast.AST, str]]) -> List[Tuple[str, Occ]]:
        hits: List[Tuple[str, Occ]] = []
        seen: Set[Tuple[int, Optional[str]]] = set()
        work: deque = deque()

        def push(f: Func, node: ast.AST, parent: Optional[Occ], why: str, aspect: Any = "inherit") -> None:
            asp = (parent.aspect if parent is not None else None) if aspect == "inherit" else aspect
            if self.modules is not None and f.module.name not in self.modules:
                return
            if self.funcs is not None and f.qname not in self.funcs:
                self.escaped.append(Occ(f, node, parent, why, asp))
                return
            if (id(node), asp) in seen or (id(node), None) in seen:
                return
            seen.add((id(node), asp))
            work.append(Occ(f, node, parent, why, asp))

        for f, e, label in sources:
            push(f, e, None, f"source: {label}")
        n = 0
        while work:
            n += 1
            if n > self.max_items:
                break
            o = work.popleft()
            self._step(o, push, hits)
        self.visited = n
        return hits

    def _taint_var(self, f: Func, name: str, stmt: ast.AST, o: Occ, push, why: str, aspect: Any = "inherit") -> None:
        if not self.prog.is_local(f, name):
            # module-level / global variable: every load in the module's functions
            for g in self.prog.funcs.values():
                if g.module is f.module and not self.prog.is_local(g, name):
                    for n in g.own_nodes():
                        if isinstance(n, ast.Name) and n.id == name and isinstance(n.ctx, ast.Load):
                            push(g, n, o, why, aspect)
            return
        owner: Optional[Func] = f
        while owner is not None and name not in self.prog.local_names(owner):
            owner = owner.parent
        owner = owner or f
        uses = self.uses_of_def(owner, name, stmt) if owner is f else self.name_loads(owner, name)
        for g, n in uses:
            push(g, n, o, why, aspect)

    def _taint_target(self, f: Func, tg: ast.AST, stmt: ast.AST, o: Occ, push, why: str, aspect: Any = "inherit") -> None:
        asp = o.aspect if aspect == "inherit" else aspect
        if isinstance(tg, ast.Name):
            self._taint_var(f, tg.id, stmt, o, push, f"{tg.id} {why}", asp)
        elif isinstance(tg, (ast.Tuple, ast.List)):
            if len(tg.elts) == 2 and asp in ("key", "val"):
                e = tg.elts[0 if asp == "key" else 1]
                self._taint_target(f, e, stmt, o, push, why + f" ({asp} component)", None)
                return
            for e in tg.elts:
                self._taint_target(f, e.value if isinstance(e, ast.Starred) else e, stmt, o, push, why, asp)
        elif isinstance(tg, ast.Attribute):
            for g, n in self.attr_loads_for(f, tg.value, tg.attr):
                push(g, n, o, f"attribute .{tg.attr} {why}", asp)
        elif isinstance(tg, ast.Subscript):
            self._taint_container(f, tg.value, stmt, o, push, "element stored", "val" if asp is None else asp)

    def _taint_container(self, f: Func, c: ast.AST, stmt: ast.AST, o: Occ, push, why: str, aspect: Any = "inherit") -> None:
        if isinstance(c, ast.Name):
            if self.prog.is_local(f, c.id):
                owner: Optional[Func] = f
                while owner is not None and c.id not in self.prog.local_names(owner):
                    owner = owner.parent
                for g, n in self.name_loads(owner or f, c.id):
                    push(g, n, o, f"{c.id}: {why}", aspect)
            else:
                self._taint_var(f, c.id, stmt, o, push, why, aspect)
        elif isinstance(c, ast.Attribute):
            for g, n in self.attr_loads_for(f, c.value, c.attr):
                push(g, n, o, f"attribute .{c.attr}: {why}", aspect)
        elif isinstance(c, ast.Subscript):
            self._taint_container(f, c.value, stmt, o, push, why, aspect)

    def _is_mapping(self, f: Func, e: ast.AST) -> Optional[bool]:
        if self.types is None:
            return None
        fns = self.types.fullnames(f.module.name, e)
        if not fns:
            return None
        return any(x in ("builtins.dict", "collections.OrderedDict", "typing.Dict", "typing.OrderedDict", "typing.Mapping", "typing.MutableMapping") for x in fns)

    def _step(self, o: Occ, push, hits: List[Tuple[str, Occ]]) -> None:
        f, e, asp = o.func, o.node, o.aspect
        m = f.module
        par = m.parent.get(e)
        if par is None:
            return
        prog = self.prog
        # ---- statements -----------------------------------------------------------------------
        if isinstance(par, ast.Assign) and e is par.value:
            for tg in par.targets:
                self._taint_target(f, tg, par, o, push, "assigned")
            return
        if isinstance(par, ast.AnnAssign) and e is par.value:
            self._taint_target(f, par.target, par, o, push, "assigned")
            return
        if isinstance(par, ast.AugAssign) and e is par.value:
            self._taint_target(f, par.target, par, o, push, "augmented")
            return
        if isinstance(par, ast.NamedExpr) and e is par.value:
            self._taint_target(f, par.target, par, o, push, "assigned")
            push(f, par, o, "walrus value")
            return
        if isinstance(par, ast.Return):
            sites = self.heap.call_sites.get(f.qname, [])
            if f.cls is not None and f.name == "__init__":
                sites = []
            for cf, call in sites:
                push(cf, call, o, f"returned by {f.qname}")
            return
        if (isinstance(par, (ast.For, ast.AsyncFor)) and e is par.iter) or (isinstance(par, ast.comprehension) and e is par.iter):
            target = par.target
            eff_asp = asp
            if isinstance(target, ast.Name) and asp is not None:
                mp = self._is_mapping(f, e)
                if mp is True:
                    if asp != "key":
                        return  # iterating a mapping yields its keys only
                    eff_asp = None
            if isinstance(par, ast.comprehension):
                comp = m.parent.get(par)
                tnames: Dict[str, Optional[str]] = {}
                if isinstance(target, (ast.Tuple, ast.List)) and len(target.elts) == 2 and eff_asp in ("key", "val"):
                    sel = target.elts[0 if eff_asp == "key" else 1]
                    for t in ast.walk(sel):
                        if isinstance(t, ast.Name):
                            tnames[t.id] = None
                else:
                    for t in ast.walk(target):
                        if isinstance(t, ast.Name):
                            tnames[t.id] = eff_asp
                if comp is not None:
                    for n in ast.walk(comp):
                        if isinstance(n, ast.Name) and n.id in tnames and isinstance(n.ctx, ast.Load):
                            push(f, n, o, "comprehension variable", tnames[n.id])
            else:
                self._taint_target(f, target, par, o, push, "iterates over it", eff_asp)
            return
        if isinstance(par, ast.withitem) and e is par.context_expr and par.optional_vars is not None:
            st = m.parent.get(par)
            self._taint_target(f, par.optional_vars, st or par, o, push, "bound by with")
            return
        if isinstance(par, (ast.If, ast.While, ast.Assert, ast.Expr, ast.Raise, ast.Delete)):
            return
        # ---- expressions ------------------------------------------------------------------------
        if isinstance(par, ast.Compare):
            return
        if isinstance(par, ast.UnaryOp) and isinstance(par.op, ast.Not):
            return
        if isinstance(par, ast.IfExp):
            if e is par.test:
                return
            push(f, par, o, "conditional value")
            return
        if isinstance(par, ast.Subscript):
            if e is par.value:
                if isinstance(par.ctx, ast.Load):
                    sl = par.slice
                    if asp is not None and isinstance(sl, ast.Constant) and sl.value in (0, 1) and self._is_mapping(f, e) is not True:
                        if (sl.value == 0) == (asp == "key"):
                            push(f, par, o, f"component {sl.value} of the pair", None)
                        return
                    if asp == "key":
                        return  # a lookup returns a value, never a key
                    push(f, par, o, "element of it", None if asp == "val" else asp)
                return
            # e is the index / key
            if isinstance(par.ctx, ast.Store):
                st = prog.enclosing_stmt(m, par)
                self._taint_container(f, par.value, st, o, push, "used as key of a stored entry", "key")
            return
        if isinstance(par, ast.Slice):
            return  # a slice bound selects content, it is not part of the value
        if isinstance(par, ast.Attribute):
            grand = m.parent.get(par)
            if isinstance(grand, ast.Call) and grand.func is par:
                a = par.attr
                if a in ("startswith", "endswith", "__contains__", "isdigit", "index", "find", "count") or a in MUTATORS:
                    return
                if a == "keys":
                    if asp in (None, "key"):
                        push(f, grand, o, "keys of it", None)
                    return
                if a == "values":
                    if asp in (None, "val"):
                        push(f, grand, o, "values of it", None)
                    return
                if a in ("get", "pop", "setdefault"):
                    if asp in (None, "val"):
                        push(f, grand, o, f".{a}() on it", None)
                    return
                if a in ("items", "copy"):
                    push(f, grand, o, f".{a}() of it", asp)
                    return
                callees, _d = prog.callees(f, grand, self.types)
                if callees:
                    return
                push(f, grand, o, f"result of .{a}() on it", None)
                return
            if par.attr in DEREF_ATTRS:
                return
            push(f, par, o, f".{par.attr} of it", None)
            return
        if isinstance(par, ast.keyword):
            call = m.parent.get(par)
            if isinstance(call, ast.Call):
                self._arg(f, call, e, None, par.arg, o, push, hits)
            return
        if isinstance(par, ast.Starred):
            push(f, par, o, "unpacked")
            return
        if isinstance(par, ast.Call):
            if e is par.func:
                return
            if e in par.args:
                self._arg(f, par, e, par.args.index(e), None, o, push, hits)
            return
        if isinstance(par, ast.Tuple) and len(par.elts) == 2 and asp is None and isinstance(par.ctx, ast.Load):
            push(f, par, o, "component of a pair", "key" if e is par.elts[0] else "val")
            return
        if isinstance(par, ast.Dict):
            push(f, par, o, "entry of a dict literal", ("key" if e in par.keys else "val") if asp is None else asp)
            return
        if isinstance(par, ast.DictComp):
            if e is par.key or e is par.value:
                push(f, par, o, "entry of a dict comprehension", ("key" if e is par.key else "val") if asp is None else asp)
            return
        if isinstance(par, (ast.List, ast.Set, ast.ListComp, ast.SetComp, ast.GeneratorExp, ast.Tuple)):
            push(f, par, o, "element of it", asp)
            return
        if isinstance(par, (ast.BinOp, ast.BoolOp)):
            if isinstance(par, ast.BinOp) and isinstance(par.op, ast.Add):
                push(f, par, o, "part of it", asp)
            else:
                push(f, par, o, "part of it", None)
            return
        if isinstance(par, (ast.JoinedStr, ast.FormattedValue, ast.Lambda, ast.Await, ast.UnaryOp)):
            push(f, par, o, "part of it", None)
            return

    PRESERVING = {"dict", "collections.OrderedDict", "list", "tuple", "sorted", "reversed", "set", "frozenset", "iter", "next", "typing.cast"}

    def _arg(self, f: Func, call: ast.Call, e: ast.AST, pos: Optional[int], kw: Optional[str], o: Occ, push, hits) -> None:
        prog = self.prog
        m = f.module
        asp = o.aspect
        callees, d = prog.callees(f, call, self.types)
        if self.is_sink is not None:
            label = self.is_sink(f, call, pos if pos is not None else -1, kw)
            if label:
                hits.append((label, Occ(f, call, o, f"reaches sink {label}")))
                return
        if self.stop_call is not None and self.stop_call(f, call):
            return
        if isinstance(call.func, ast.Attribute) and pos == 0 and call.func.attr in ("get", "pop", "setdefault", "index", "count", "remove", "discard", "move_to_end", "has_key"):
            if call.func.attr == "setdefault":
                st = prog.enclosing_stmt(m, call)
                self._taint_container(f, call.func.value, st, o, push, "key of .setdefault()", "key")
            return  # a lookup key selects an entry, it is not part of the result
        if d in DEREF_CALLS or (d or "").endswith(("getsource_class", "extract_symbols")):
            return
        if d in SANITIZER_CALLS or (isinstance(call.func, ast.Attribute) and call.func.attr in LOGGING and "log" in unparse(call.func.value).lower()):
            return
        if d in self.PRESERVING and (pos == 0 or (d == "typing.cast" and pos == 1)):
            push(f, call, o, f"{d}(...) of it", asp)
            return
        if d in ("enumerate",) and pos == 0:
            push(f, call, o, "enumerate(...) of it", "val" if asp is None else None)
            return
        if d in ("zip",):
            push(f, call, o, "zip(...) of it", ("key" if pos == 0 else "val") if asp is None and len(call.args) == 2 else None)
            return
        # record construction: field-sensitive
        if d is not None and d in self.heap.record_fields and len(self.heap.record_fields[d]) > 1:
            fields = self.heap.record_fields[d]
            fld = kw if kw is not None else (fields[pos] if pos is not None and pos < len(fields) else None)
            if fld:
                for g, n in self.attr_loads(fld):
                    lc = self._recv_class(g, n.value)
                    if lc is not None and lc != d and lc not in self.prog.all_bases(d) and d not in self.prog.all_bases(lc):
                        continue
                    push(g, n, o, f"field {d.split('.')[-1]}.{fld}", asp)
            return
        if isinstance(call.func, ast.Attribute) and call.func.attr == "_replace" and kw is not None:
            for g, n in self.attr_loads(kw):
                push(g, n, o, f"field {kw} (_replace)", asp)
            return
        # container mutation through a method
        if isinstance(call.func, ast.Attribute) and call.func.attr in MUTATORS and not callees:
            st = prog.enclosing_stmt(m, call)
            self._taint_container(f, call.func.value, st, o, push, f"added by .{call.func.attr}()", asp)
            return
        if callees:
            for cal in callees:
                ps = cal.positional_params()
                pname = kw if kw is not None else (ps[pos] if pos is not None and pos < len(ps) else (cal.node.args.vararg.arg if cal.node.args.vararg else None))
                if pname is None:
                    continue
                for g, n in self.name_loads(cal, pname):
                    push(g, n, o, f"parameter {pname} of {cal.qname}", asp)
            return
        # external / unresolved call: the result derives from the argument
        push(f, call, o, f"result of {unparse(call.func, 40)}(...)", None)
