"""
Finite-domain abstract evaluator for small *decoder* functions (option decoding, type
classification, boundary values of the value hasher, argument normalisers).

It interprets the AST of the function over abstract values that each stand for a whole class of
inputs (a constant, a symbolic input with known None-ness / truthiness / sign, an enum member, a
type tag, an opaque object built by a constructor call, TOP).  Branches whose condition is unknown
fork the path; every path ends in a Return or a Raise outcome together with the log of calls that
could not be interpreted (constructor calls, store calls ...).  No dds code object is created or
called: this is constant propagation with a sign / type-tag lattice and path enumeration.
Anything outside the supported syntax evaluates to TOP; callers treat a decision that depends on
TOP as *undecided*.
"""
from __future__ import annotations

import ast
import collections
import dataclasses
import datetime
import pathlib
import struct
from typing import Any, Callable, Dict, Iterable, List, Optional, Tuple, Union

from .inline import InlineBlock, InlineJump

from .model import Program, Func, Module, unparse


class _Top:
    def __repr__(self) -> str:
        return "TOP"


TOP = _Top()


class Sym:
    """A symbolic input standing for a class of values."""

    def __init__(self, name: str, none: Optional[bool] = None, truthy: Optional[bool] = None,
                 sign: Optional[str] = None, pytype: Optional[type] = None):
        self.name, self.none, self.truthy, self.sign, self.pytype = name, none, truthy, sign, pytype

    def __repr__(self) -> str:
        return f"Sym({self.name})"


class Const:
    def __init__(self, v: Any):
        self.v = v

    def __repr__(self) -> str:
        return f"Const({self.v!r})"

    def __eq__(self, o: Any) -> bool:
        return isinstance(o, Const) and type(o.v) is type(self.v) and o.v == self.v

    def __hash__(self) -> int:
        return hash(repr(self.v))


class EnumClass:
    def __init__(self, qname: str, members: "collections.OrderedDict[str, Any]", others: List[str]):
        self.qname, self.members, self.others = qname, members, others

    def __repr__(self) -> str:
        return f"EnumClass({self.qname})"


class EnumMember:
    def __init__(self, cls: EnumClass, name: str):
        self.cls, self.name = cls, name

    @property
    def value(self) -> Any:
        return self.cls.members[self.name]

    def __repr__(self) -> str:
        return f"{self.cls.qname.split('.')[-1]}.{self.name}"

    def __eq__(self, o: Any) -> bool:
        return isinstance(o, EnumMember) and o.cls.qname == self.cls.qname and o.name == self.name

    def __hash__(self) -> int:
        return hash((self.cls.qname, self.name))


class TypeV:
    def __init__(self, py: Optional[type], name: str):
        self.py, self.name = py, name

    def __repr__(self) -> str:
        return f"Type({self.name})"


class Obj:
    """Result of a call that is not interpreted (constructor, store call...)."""

    def __init__(self, callee: str, args: List[Any], kwargs: Dict[str, Any]):
        self.callee, self.args, self.kwargs = callee, args, kwargs
        # an interpreted instance of a project class (see Evaluator.instance_modules): its attributes are the ones its
        # constructor assigned (kept in kwargs); `open` while the constructor runs
        self.instance = False
        self.open = False

    def __repr__(self) -> str:
        return f"Obj({self.callee})"


class Digest:
    def __init__(self, pre: Any):
        self.pre = pre  # Const(bytes) or TOP

    def __repr__(self) -> str:
        return f"Digest({self.pre!r})"


class Closure:
    def __init__(self, func: Func, env: "Env", self_obj: Any = None):
        self.func, self.env, self.self_obj = func, env, self_obj


class LambdaV:
    """a lambda expression with the environment and the scope it was written in"""

    def __init__(self, node: ast.Lambda, env: "Env", scope: Any):
        self.node, self.env, self.scope = node, env, scope

    def __repr__(self) -> str:
        return "Lambda"


class NewTypeV:
    def __init__(self, name: str):
        self.name = name

    def __repr__(self) -> str:
        return f"NewType({self.name})"


class ModRef:
    def __init__(self, dotted: str):
        self.dotted = dotted

    def __repr__(self) -> str:
        return f"Mod({self.dotted})"


class AbsRaise(Exception):
    def __init__(self, exc_type: str, detail: str = "", obj: Any = None):
        super().__init__(f"{exc_type}: {detail}")
        self.exc_type, self.detail, self.obj = exc_type, detail, obj


_MUTATORS = {"append", "extend", "insert", "pop", "remove", "clear", "sort", "reverse", "add", "discard", "update",
             "setdefault", "popitem"}


class Unsupported(Exception):
    pass


class Env:
    def __init__(self, parent: Optional["Env"] = None):
        self.vars: Dict[str, Any] = {}
        self.parent = parent

    def get(self, k: str) -> Any:
        e: Optional[Env] = self
        while e is not None:
            if k in e.vars:
                return e.vars[k]
            e = e.parent
        raise KeyError(k)

    def has(self, k: str) -> bool:
        try:
            self.get(k)
            return True
        except KeyError:
            return False

    def copy(self) -> "Env":
        n = Env(self.parent)
        n.vars = dict(self.vars)
        return n


class Outcome:
    def __init__(self, kind: str, value: Any = None, exc: Optional[AbsRaise] = None, events: Optional[List[Obj]] = None,
                 env: Optional[Env] = None, conds: Optional[List[str]] = None):
        self.kind, self.value, self.exc, self.events, self.env = kind, value, exc, events or [], env
        self.conds = conds or []

    def __repr__(self) -> str:
        if self.kind == "return":
            return f"<return {self.value!r} events={[e.callee for e in self.events]}>"
        return f"<raise {self.exc}>"


PYTYPES: Dict[str, type] = {
    "int": int, "float": float, "str": str, "bytes": bytes, "bool": bool, "list": list, "tuple": tuple, "dict": dict,
    "set": set, "frozenset": frozenset, "object": object, "type": type, "bytearray": bytearray,
    "collections.OrderedDict": collections.OrderedDict, "pathlib.PurePosixPath": pathlib.PurePosixPath,
    "pathlib.PurePath": pathlib.PurePath, "pathlib.Path": pathlib.Path, "pathlib.PosixPath": pathlib.PosixPath,
    "datetime.datetime": datetime.datetime, "datetime.date": datetime.date, "datetime.time": datetime.time,
    "datetime.timedelta": datetime.timedelta, "datetime.timezone": datetime.timezone, "datetime.tzinfo": datetime.tzinfo,
    "types.FunctionType": type(lambda: 0), "types.ModuleType": type(ast), "typing.OrderedDict": collections.OrderedDict,
}

Oracle = Callable[[str, List[Any], Dict[str, Any], ast.Call], Any]
NOT_HANDLED = object()


class Evaluator:
    def __init__(self, prog: Program, oracle: Optional[Oracle] = None, max_paths: int = 512, max_depth: int = 12,
                 instance_modules: Iterable[str] = ()):
        self.prog = prog
        # modules whose plain classes are instantiated abstractly: the constructor is interpreted (straight-line attribute
        # assignments only), methods are interpreted with the instance as `self`, the attributes never change afterwards
        self.instance_modules = set(instance_modules)
        self.oracle = oracle
        self.max_paths = max_paths
        self.max_depth = max_depth
        self.events: List[Obj] = []
        self.conds: List[str] = []
        self.depth = 0
        self.paths = 0
        self.saw_top_decision = False

    # ------------------------------------------------------------------ enum / type lookup
    def enum_class(self, qname: str) -> Optional[EnumClass]:
        c = self.prog.classes.get(qname)
        if c is None or not any(b.endswith("Enum") for b in c.bases + self.prog.all_bases(qname)):
            return None
        members: "collections.OrderedDict[str, Any]" = collections.OrderedDict()
        for st in c.node.body:
            if isinstance(st, ast.Assign) and len(st.targets) == 1 and isinstance(st.targets[0], ast.Name):
                try:
                    members[st.targets[0].id] = ast.literal_eval(st.value)
                except Exception:
                    members[st.targets[0].id] = TOP
        others = list(c.methods.keys()) + ["__class__", "__doc__", "__members__", "__module__", "__name__", "__qualname__"]
        return EnumClass(qname, members, others)

    def global_value(self, scope: Union[Func, Module], name: str) -> Any:
        d = self.prog.resolve_name(scope, name)
        if d is None:
            if name in PYTYPES:
                return TypeV(PYTYPES[name], name)
            if name in ("True", "False", "None"):
                return Const({"True": True, "False": False, "None": None}[name])
            return ModRef(name)  # builtin function name etc.
        return self.dotted_value(d)

    def dotted_value(self, d: str) -> Any:
        if d in self.prog.classes:
            ec = self.enum_class(d)
            return ec if ec is not None else TypeV(None, d)
        if d in self.prog.funcs:
            return Closure(self.prog.funcs[d], Env())
        if d in PYTYPES:
            return TypeV(PYTYPES[d], d)
        mod, _, nm = d.rpartition(".")
        if mod in self.prog.modules and nm in self.prog.modules[mod].assigns:
            sts = self.prog.modules[mod].assigns[nm]
            if len(sts) == 1 and getattr(sts[0], "value", None) is not None:
                v0 = sts[0].value
                if isinstance(v0, ast.Call) and unparse(v0.func).split(".")[-1] == "NewType":
                    return NewTypeV(d)  # `X = NewType("X", T)`: calling X returns its argument
                try:
                    return Const(ast.literal_eval(sts[0].value))
                except Exception:
                    pass
                try:
                    return self.eval(sts[0].value, Env(), self.prog.modules[mod])
                except (Unsupported, AbsRaise, RecursionError):
                    return TOP
            return TOP
        return ModRef(d)

    # ------------------------------------------------------------------ truthiness etc.
    def truth(self, v: Any) -> Optional[bool]:
        if isinstance(v, Const):
            try:
                return bool(v.v)
            except Exception:
                return None
        if isinstance(v, Sym):
            if v.none:
                return False
            return v.truthy
        if isinstance(v, (EnumMember,)):
            try:
                return bool(v.value) if not isinstance(v.value, _Top) else True
            except Exception:
                return True
        if isinstance(v, (Obj, TypeV, EnumClass, Closure, Digest, ModRef)):
            return True if not isinstance(v, Obj) else (None if v.callee in ("?",) else True)
        return None

    def is_none(self, v: Any) -> Optional[bool]:
        if isinstance(v, Const):
            return v.v is None
        if isinstance(v, Sym):
            return v.none
        if v is TOP:
            return None
        return False

    # ------------------------------------------------------------------ function calls
    def call_function(self, f: Func, args: List[Any], kwargs: Dict[str, Any], closure_env: Optional[Env] = None) -> List[Outcome]:
        if self.depth >= self.max_depth:
            raise Unsupported("call depth")
        env = Env(closure_env)
        a = f.node.args
        pos = [x.arg for x in a.posonlyargs + a.args]
        if f.cls is not None and not f.is_static and pos and pos[0] in ("self", "cls"):
            if len(args) < len(pos) and pos[0] == "cls":
                args = [TypeV(None, f.cls.qname)] + list(args)
        defaults = a.defaults
        off = len(pos) - len(defaults)
        for i, p in enumerate(pos):
            if i < len(args):
                env.vars[p] = args[i]
            elif p in kwargs:
                env.vars[p] = kwargs[p]
            elif i >= off:
                env.vars[p] = self.eval(defaults[i - off], Env(), f.module)
            else:
                env.vars[p] = TOP
        if a.vararg is not None:
            env.vars[a.vararg.arg] = list(args[len(pos):])
        if a.kwarg is not None:
            env.vars[a.kwarg.arg] = {k: v for k, v in kwargs.items() if k not in pos}
        for i, p in enumerate(a.kwonlyargs):
            if p.arg in kwargs:
                env.vars[p.arg] = kwargs[p.arg]
            elif a.kw_defaults[i] is not None:
                env.vars[p.arg] = self.eval(a.kw_defaults[i], Env(), f.module)  # type: ignore
        for nf in f.nested.values():
            env.vars[nf.name] = Closure(nf, env)
        self.depth += 1
        try:
            outs = self.exec_block(f.node.body, env, f)
        finally:
            self.depth -= 1
        res = []
        for o in outs:
            if o.kind == "fall":
                res.append(Outcome("return", Const(None), None, o.events, o.env, o.conds))
            else:
                res.append(o)
        return res

    def run(self, f: Func, args: List[Any], kwargs: Optional[Dict[str, Any]] = None, closure_env: Optional[Env] = None) -> List[Outcome]:
        self.events, self.conds, self.paths = [], [], 0
        return self.call_function(f, args, kwargs or {}, closure_env)

    # ------------------------------------------------------------------ statements
    def exec_block(self, stmts: List[ast.stmt], env: Env, scope: Union[Func, Module]) -> List[Outcome]:
        """Executes statements; returns outcomes: return / raise / fall (normal completion)."""
        if not stmts:
            return [Outcome("fall", None, None, list(self.events), env, list(self.conds))]
        st, rest = stmts[0], stmts[1:]
        saved_events, saved_conds = list(self.events), list(self.conds)
        try:
            results = self.exec_stmt(st, env, scope)
        except AbsRaise as e:
            return [Outcome("raise", None, e, list(self.events), env, list(self.conds))]
        out: List[Outcome] = []
        for r in results:
            if r.kind == "fall":
                self.events, self.conds = list(r.events), list(r.conds)
                out += self.exec_block(rest, r.env if r.env is not None else env, scope)
            else:
                out.append(r)
        self.events, self.conds = saved_events, saved_conds
        return out

    def _fall(self, env: Env) -> List[Outcome]:
        return [Outcome("fall", None, None, list(self.events), env, list(self.conds))]

    def exec_stmt(self, st: ast.stmt, env: Env, scope: Union[Func, Module]) -> List[Outcome]:
        self.paths += 1
        if self.paths > self.max_paths * 50:
            raise Unsupported("too many paths")
        if isinstance(st, InlineJump):
            # end of an expanded helper (a former `return`): leaves the enclosing InlineBlock
            return [Outcome("jump", None, None, list(self.events), env, list(self.conds))]
        if isinstance(st, (ast.Break, ast.Continue)):
            return [Outcome("break" if isinstance(st, ast.Break) else "continue", None, None, list(self.events), env, list(self.conds))]
        if isinstance(st, ast.Return):
            v = self.eval(st.value, env, scope) if st.value is not None else Const(None)
            return [Outcome("return", v, None, list(self.events), env, list(self.conds))]
        if isinstance(st, ast.Raise):
            v = self.eval(st.exc, env, scope) if st.exc is not None else TOP
            name = v.callee.split(".")[-1] if isinstance(v, Obj) else (v.name.split(".")[-1] if isinstance(v, TypeV) else "Exception")
            raise AbsRaise(name, unparse(st.exc, 60), v)
        if isinstance(st, (ast.Assign, ast.AnnAssign)):
            if isinstance(st, ast.AnnAssign) and st.value is None:
                return self._fall(env)
            v = self.eval(st.value, env, scope)  # type: ignore
            targets = st.targets if isinstance(st, ast.Assign) else [st.target]
            for t in targets:
                self.assign(t, v, env, scope)
            return self._fall(env)
        if isinstance(st, ast.AugAssign):
            cur = self.eval(ast.Name(id=st.target.id, ctx=ast.Load()), env, scope) if isinstance(st.target, ast.Name) else TOP
            v = self.binop(st.op, cur, self.eval(st.value, env, scope))
            self.assign(st.target, v, env, scope)
            return self._fall(env)
        if isinstance(st, ast.Expr):
            self.eval(st.value, env, scope)
            return self._fall(env)
        if isinstance(st, ast.If):
            c = self.eval(st.test, env, scope)
            t = self.truth(c)
            if t is True:
                return self.exec_block(st.body, env, scope)
            if t is False:
                return self.exec_block(st.orelse, env, scope)
            # fork
            outs: List[Outcome] = []
            saved_e, saved_c = list(self.events), list(self.conds)
            for branch, lab in ((st.body, "T"), (st.orelse, "F")):
                e2 = self._deep_env(env)
                self.events, self.conds = list(saved_e), saved_c + [f"{lab}:{unparse(st.test, 50)}"]
                outs += self.exec_block(branch, e2, scope)
            self.events, self.conds = saved_e, saved_c
            return outs
        if isinstance(st, (ast.Pass, ast.Global, ast.Nonlocal, ast.Import, ast.ImportFrom)):
            if isinstance(st, (ast.Import, ast.ImportFrom)):
                for a in st.names:
                    nm = a.asname or a.name.split(".")[0]
                    if isinstance(scope, Func) and nm in scope.local_imports:
                        env.vars[nm] = self.dotted_value(self.prog._canon(scope.local_imports[nm]))
            return self._fall(env)
        if isinstance(st, (ast.FunctionDef,)):
            if isinstance(scope, Func) and st.name in scope.nested:
                env.vars[st.name] = Closure(scope.nested[st.name], env)
            return self._fall(env)
        if isinstance(st, ast.Assert):
            c = self.eval(st.test, env, scope)
            if self.truth(c) is False:
                raise AbsRaise("AssertionError", unparse(st.test, 60))
            return self._fall(env)
        if isinstance(st, ast.For):
            it = self.eval(st.iter, env, scope)
            if isinstance(it, Const) and isinstance(it.v, (list, tuple, dict, set, frozenset, str)) or isinstance(it, (list, tuple)):
                seq = list(it.v) if isinstance(it, Const) else list(it)
                cur_envs = [(env, list(self.events), list(self.conds))]
                final: List[Outcome] = []
                for item in seq:
                    nxt = []
                    for (e_, ev_, cd_) in cur_envs:
                        self.events, self.conds = ev_, cd_
                        self.assign(st.target, item if not isinstance(it, Const) else Const(item), e_, scope)
                        for o in self.exec_block(st.body, e_, scope):
                            if o.kind in ("fall", "continue"):
                                nxt.append((o.env or e_, o.events, o.conds))
                            elif o.kind == "break":
                                final.append(Outcome("fall", None, None, o.events, o.env or e_, o.conds))
                            else:
                                final.append(o)
                    cur_envs = nxt
                for (e_, ev_, cd_) in cur_envs:
                    final.append(Outcome("fall", None, None, ev_, e_, cd_))
                return final
            raise Unsupported("for over unknown iterable")
        if isinstance(st, ast.Delete):
            # `del xs[a:]` / `del xs[i]` on a known local list: a rebinding, like the other container mutations
            for t in st.targets:
                if not (isinstance(t, ast.Subscript) and isinstance(t.value, ast.Name) and env.has(t.value.id)):
                    raise Unsupported(f"statement {unparse(st, 40)}")
                base = env.get(t.value.id)
                if isinstance(base, Const) and isinstance(base.v, list):
                    elems = [Const(x) for x in base.v]
                elif isinstance(base, list):
                    elems = list(base)
                else:
                    raise Unsupported(f"statement {unparse(st, 40)}")
                if isinstance(t.slice, ast.Slice):
                    lo = self.eval(t.slice.lower, env, scope) if t.slice.lower is not None else Const(None)
                    hi = self.eval(t.slice.upper, env, scope) if t.slice.upper is not None else Const(None)
                    if not (isinstance(lo, Const) and isinstance(hi, Const)) or t.slice.step is not None:
                        raise Unsupported(f"statement {unparse(st, 40)}")
                    del elems[slice(lo.v, hi.v)]
                else:
                    ix = self.eval(t.slice, env, scope)
                    if not isinstance(ix, Const) or not isinstance(ix.v, int):
                        raise Unsupported(f"statement {unparse(st, 40)}")
                    try:
                        del elems[ix.v]
                    except IndexError as ex:
                        raise AbsRaise("IndexError", str(ex))
                new = Const([x.v for x in elems]) if all(isinstance(x, Const) for x in elems) else elems
                cur: Optional[Env] = env
                while cur is not None and t.value.id not in cur.vars:
                    cur = cur.parent
                (cur or env).vars[t.value.id] = new
            return self._fall(env)
        if isinstance(st, ast.While):
            raise Unsupported("while")
        if isinstance(st, InlineBlock):
            res_b: List[Outcome] = []
            for o in self.exec_block(st.body, env, scope):
                res_b.append(Outcome("fall", None, None, o.events, o.env if o.env is not None else env, o.conds) if o.kind == "jump" else o)
            return res_b
        if isinstance(st, ast.With):
            for it_ in st.items:
                v = self.eval(it_.context_expr, env, scope)
                if it_.optional_vars is not None:
                    self.assign(it_.optional_vars, v, env, scope)
            return self.exec_block(st.body, env, scope)
        if isinstance(st, ast.Try):
            outs = self.exec_block(st.body, env, scope)
            res: List[Outcome] = []
            for o in outs:
                if o.kind == "raise" and o.exc is not None:
                    handled = False
                    for h in st.handlers:
                        names = [unparse(h.type)] if h.type is not None and not isinstance(h.type, ast.Tuple) else (
                            [unparse(x) for x in h.type.elts] if h.type is not None else ["BaseException"])
                        if _exc_matches(o.exc.exc_type, [n.split(".")[-1] for n in names]):
                            handled = True
                            self.events, self.conds = list(o.events), list(o.conds)
                            e2 = o.env or env
                            if h.name:
                                e2.vars[h.name] = o.exc.obj if o.exc.obj is not None else TOP
                            res += self.exec_block(h.body, e2, scope)
                            break
                    if not handled:
                        res.append(o)
                else:
                    res.append(o)
            if st.finalbody:
                res2: List[Outcome] = []
                for o in res:
                    self.events, self.conds = list(o.events), list(o.conds)
                    for fo in self.exec_block(st.finalbody, o.env or env, scope):
                        res2.append(o if fo.kind == "fall" else fo)
                return res2
            return res
        raise Unsupported(f"statement {type(st).__name__}")

    def _deep_env(self, env: Env) -> Env:
        # copy the chain so that forks do not share assignments
        chain = []
        e: Optional[Env] = env
        while e is not None:
            chain.append(e)
            e = e.parent
        new_parent: Optional[Env] = None
        for e in reversed(chain):
            n = Env(new_parent)
            n.vars = dict(e.vars)
            new_parent = n
        assert new_parent is not None
        return new_parent

    def assign(self, t: ast.AST, v: Any, env: Env, scope: Union[Func, Module]) -> None:
        if isinstance(t, ast.Name):
            # assignment to an enclosing variable declared global / nonlocal is kept local (enough for decoders)
            env.vars[t.id] = v
        elif isinstance(t, (ast.Tuple, ast.List)):
            items: Optional[List[Any]] = None
            if isinstance(v, Const) and isinstance(v.v, (tuple, list)) and len(v.v) == len(t.elts):
                items = [Const(x) for x in v.v]
            elif isinstance(v, (list, tuple)) and len(v) == len(t.elts):
                items = list(v)
            for i, e in enumerate(t.elts):
                self.assign(e, items[i] if items is not None else TOP, env, scope)
        elif isinstance(t, ast.Subscript):
            base = self.eval(t.value, env, scope)
            key = self.eval(t.slice, env, scope)
            if isinstance(base, dict) and isinstance(key, (Const, EnumMember)):
                base[key] = v
        elif isinstance(t, ast.Attribute):
            base = self.eval(t.value, env, scope)
            if isinstance(base, Obj) and base.instance:
                if not base.open:
                    raise Unsupported(f"attribute store on a constructed instance: {unparse(t, 40)}")
                base.kwargs[t.attr] = v
        # other attribute stores are ignored

    # ------------------------------------------------------------------ expressions
    def eval(self, e: Optional[ast.AST], env: Env, scope: Union[Func, Module]) -> Any:
        if e is None:
            return Const(None)
        if isinstance(e, ast.Constant):
            return Const(e.value)
        if isinstance(e, ast.Name):
            if env.has(e.id):
                return env.get(e.id)
            return self.global_value(scope, e.id)
        if isinstance(e, ast.Attribute):
            base = self.eval(e.value, env, scope)
            return self.getattr(base, e.attr, e, scope)
        if isinstance(e, ast.BoolOp):
            vals = e.values
            cur = self.eval(vals[0], env, scope)
            for nxt in vals[1:]:
                t = self.truth(cur)
                if isinstance(e.op, ast.Or):
                    if t is True:
                        return cur
                    if t is False:
                        cur = self.eval(nxt, env, scope)
                    else:
                        return TOP
                else:
                    if t is False:
                        return cur
                    if t is True:
                        cur = self.eval(nxt, env, scope)
                    else:
                        other = self.eval(nxt, env, scope)
                        if self.truth(other) is False:
                            return Const(False) if isinstance(other, Const) and other.v is False else TOP
                        return TOP
            return cur
        if isinstance(e, ast.UnaryOp):
            v = self.eval(e.operand, env, scope)
            if isinstance(e.op, ast.Not):
                t = self.truth(v)
                return Const(not t) if t is not None else TOP
            if isinstance(e.op, ast.USub) and isinstance(v, Const) and isinstance(v.v, (int, float)):
                return Const(-v.v)
            return TOP
        if isinstance(e, ast.Compare):
            left = self.eval(e.left, env, scope)
            res: Optional[bool] = True
            for op, rc in zip(e.ops, e.comparators):
                right = self.eval(rc, env, scope)
                r = self.compare(op, left, right)
                if r is False:
                    return Const(False)
                if r is None:
                    res = None
                left = right
            return Const(True) if res is True else TOP
        if isinstance(e, ast.IfExp):
            t = self.truth(self.eval(e.test, env, scope))
            if t is True:
                return self.eval(e.body, env, scope)
            if t is False:
                return self.eval(e.orelse, env, scope)
            a, b = self.eval(e.body, env, scope), self.eval(e.orelse, env, scope)
            return a if _same(a, b) else TOP
        if isinstance(e, ast.Call):
            return self.call(e, env, scope)
        if isinstance(e, (ast.Tuple, ast.List)):
            items = [self.eval(x, env, scope) for x in e.elts]
            if all(isinstance(i, Const) for i in items):
                vals_ = [i.v for i in items]
                return Const(tuple(vals_) if isinstance(e, ast.Tuple) else vals_)
            return tuple(items) if isinstance(e, ast.Tuple) else list(items)
        if isinstance(e, ast.Dict):
            d: Dict[Any, Any] = {}
            for k, v in zip(e.keys, e.values):
                if k is None:
                    return TOP
                kk = self.eval(k, env, scope)
                if not isinstance(kk, (Const, EnumMember)):
                    return TOP
                d[kk] = self.eval(v, env, scope)
            return d
        if isinstance(e, ast.Subscript):
            base = self.eval(e.value, env, scope)
            if isinstance(e.slice, ast.Slice):
                parts_ = [self.eval(x, env, scope) if x is not None else Const(None) for x in (e.slice.lower, e.slice.upper, e.slice.step)]
                if all(isinstance(x, Const) and (x.v is None or isinstance(x.v, int)) for x in parts_):
                    sl = slice(*[x.v for x in parts_])
                    if isinstance(base, Const) and isinstance(base.v, (str, bytes, list, tuple)):
                        return Const(base.v[sl])
                    if isinstance(base, (list, tuple)):
                        return list(base)[sl]
                return TOP
            key = self.eval(e.slice, env, scope)
            return self.subscript(base, key, e)
        if isinstance(e, ast.JoinedStr):
            parts = []
            for v in e.values:
                if isinstance(v, ast.Constant):
                    parts.append(str(v.value))
                else:
                    fv = self.eval(v.value, env, scope)  # type: ignore
                    if isinstance(fv, Const) and getattr(v, "format_spec", None) is None:
                        parts.append(str(fv.v))
                    else:
                        return Sym("fstring", none=False, pytype=str)
            return Const("".join(parts))
        if isinstance(e, ast.BinOp):
            return self.binop(e.op, self.eval(e.left, env, scope), self.eval(e.right, env, scope))
        if isinstance(e, (ast.ListComp, ast.GeneratorExp)):
            return self.comprehension(e, env, scope)
        if isinstance(e, ast.Lambda):
            return LambdaV(e, env, scope)
        if isinstance(e, ast.Starred):
            return TOP
        return TOP

    def comprehension(self, e: Any, env: Env, scope: Union[Func, Module]) -> Any:
        if len(e.generators) != 1:
            return TOP
        g = e.generators[0]
        it = self.eval(g.iter, env, scope)
        seq: Optional[List[Any]] = None
        if isinstance(it, Const) and isinstance(it.v, (list, tuple, dict, str, set, frozenset)):
            seq = [Const(x) for x in it.v]
        elif isinstance(it, (list, tuple)):
            seq = list(it)
        if seq is None:
            return TOP
        out = []
        for item in seq:
            e2 = Env(env)
            self.assign(g.target, item, e2, scope)
            keep = True
            for c in g.ifs:
                t = self.truth(self.eval(c, e2, scope))
                if t is None:
                    return TOP
                keep = keep and t
            if keep:
                out.append(self.eval(e.elt, e2, scope))
        if all(isinstance(x, Const) for x in out):
            return Const([x.v for x in out])
        return out

    def getattr(self, base: Any, attr: str, node: ast.AST, scope: Union[Func, Module]) -> Any:
        if isinstance(base, EnumClass):
            if attr in base.members:
                return EnumMember(base, attr)
            c = self.prog.classes.get(base.qname)
            if c is not None and attr in c.methods:
                return Closure(c.methods[attr], Env())
            if attr == "__members__":
                return {Const(k): EnumMember(base, k) for k in base.members}
            return TOP
        if isinstance(base, EnumMember):
            if attr == "name":
                return Const(base.name)
            if attr == "value":
                v = base.value
                return Const(v) if not isinstance(v, _Top) else TOP
            # a member of a `class E(str, Enum)` has the str methods of its value
            c = self.prog.classes.get(base.cls.qname)
            v = base.value
            if c is not None and any(PYTYPES.get(b) is str for b in c.bases) and isinstance(v, str) and hasattr(str, attr):
                return ("bound", Const(v), attr)
            return TOP
        if isinstance(base, ModRef):
            d = self.prog._canon(f"{base.dotted}.{attr}")
            return self.dotted_value(d)
        if isinstance(base, TypeV):
            if base.py is None:
                c = self.prog.classes.get(base.name)
                if c is not None:
                    m = self.prog.find_method(base.name, attr)
                    if m is not None:
                        return Closure(m, Env())
                return ModRef(f"{base.name}.{attr}")
            if attr == "__name__":
                return Const(base.py.__name__)
            if attr == "__module__":
                return Const(base.py.__module__)
            return ModRef(f"{base.name}.{attr}")
        if isinstance(base, Const):
            return ("bound", base, attr)
        if isinstance(base, Sym):
            return ("bound", base, attr)
        if isinstance(base, Obj):
            if attr in base.kwargs:
                return base.kwargs[attr]
            if base.instance:
                m = self.prog.find_method(base.callee, attr)
                if m is not None:
                    return Closure(m, Env(), None if (m.is_static or m.is_classmethod) else base)
                for cq in [base.callee] + self.prog.all_bases(base.callee):
                    c = self.prog.classes.get(cq)
                    for st in (c.node.body if c is not None else []):
                        if isinstance(st, ast.Assign) and any(isinstance(x, ast.Name) and x.id == attr for x in st.targets):
                            return self.eval(st.value, Env(), c.module)
                        if isinstance(st, ast.AnnAssign) and isinstance(st.target, ast.Name) and st.target.id == attr and st.value is not None:
                            return self.eval(st.value, Env(), c.module)
                raise Unsupported(f"attribute {attr} of an instance of {base.callee} is not set by its constructor")
            return ("bound", base, attr)
        if isinstance(base, (list, dict, tuple)):
            return ("bound", base, attr)
        return TOP

    def subscript(self, base: Any, key: Any, node: ast.AST) -> Any:
        if isinstance(base, EnumClass):
            if isinstance(key, Const) and isinstance(key.v, str):
                if key.v in base.members:
                    return EnumMember(base, key.v)
                raise AbsRaise("KeyError", f"{base.qname.split('.')[-1]}[{key.v!r}]")
            return TOP
        if isinstance(base, dict):
            if isinstance(key, (Const, EnumMember)):
                if key in base:
                    return base[key]
                raise AbsRaise("KeyError", repr(key))
            return TOP
        if isinstance(base, Const) and isinstance(key, Const):
            try:
                return Const(base.v[key.v])
            except Exception as ex:
                raise AbsRaise(type(ex).__name__, str(ex))
        if isinstance(base, (list, tuple)) and isinstance(key, Const) and isinstance(key.v, int):
            try:
                return base[key.v]
            except IndexError as ex:
                raise AbsRaise("IndexError", str(ex))
        return TOP

    @staticmethod
    def fold_digest(v: Any) -> Any:
        """a digest over constant bytes, used as text (joined, concatenated, hashed again): the hexadecimal string itself"""
        if isinstance(v, Digest) and isinstance(v.pre, Const) and isinstance(v.pre.v, (bytes, bytearray)):
            import hashlib
            return Const(hashlib.sha256(bytes(v.pre.v)).hexdigest())
        return v

    def binop(self, op: ast.AST, a: Any, b: Any) -> Any:
        if isinstance(op, ast.Add) and (isinstance(a, Digest) or isinstance(b, Digest)):
            a, b = self.fold_digest(a), self.fold_digest(b)
        if isinstance(a, Const) and isinstance(b, Const):
            try:
                if isinstance(op, ast.Add):
                    return Const(a.v + b.v)
                if isinstance(op, ast.Sub):
                    return Const(a.v - b.v)
                if isinstance(op, ast.Mult):
                    return Const(a.v * b.v)
                if isinstance(op, ast.FloorDiv):
                    return Const(a.v // b.v)
                if isinstance(op, ast.Pow):
                    return Const(a.v ** b.v)
                if isinstance(op, ast.Mod):
                    return Const(a.v % b.v)
                if isinstance(op, ast.BitXor):
                    return Const(a.v ^ b.v)
                if isinstance(op, ast.BitOr):
                    return Const(a.v | b.v)
                if isinstance(op, ast.BitAnd):
                    return Const(a.v & b.v)
                if isinstance(op, ast.LShift):
                    return Const(a.v << b.v)
                if isinstance(op, ast.RShift):
                    return Const(a.v >> b.v)
            except Exception as ex:
                raise AbsRaise(type(ex).__name__, str(ex))
        if isinstance(op, ast.Add) and isinstance(a, (list, tuple)) and isinstance(b, (list, tuple)):
            return list(a) + list(b)
        if isinstance(op, ast.Add) and isinstance(a, Const) and isinstance(a.v, list) and isinstance(b, list):
            return [Const(x) for x in a.v] + b
        if isinstance(op, ast.Add) and isinstance(b, Const) and isinstance(b.v, list) and isinstance(a, list):
            return a + [Const(x) for x in b.v]
        if isinstance(op, ast.FloorDiv) and isinstance(b, Const) and isinstance(b.v, int) and b.v > 0:
            # sys.maxsize // 2 and the like: a large positive integer
            if isinstance(a, ModRef) and a.dotted == "sys.maxsize":
                return Sym("huge", none=False, truthy=True, sign="pos", pytype=int)
        return TOP

    def compare(self, op: ast.AST, a: Any, b: Any) -> Optional[bool]:
        if isinstance(op, (ast.Is, ast.IsNot)):
            r: Optional[bool]
            if isinstance(b, Const) and b.v is None:
                r = self.is_none(a)
            elif isinstance(a, Const) and a.v is None:
                r = self.is_none(b)
            elif isinstance(a, Const) and isinstance(b, Const) and isinstance(a.v, bool) and isinstance(b.v, bool):
                r = a.v is b.v
            elif isinstance(b, Const) and isinstance(b.v, bool) and isinstance(a, Const):
                r = False   # a constant that is not a bool is not the object True / False (`0 is False` is false)
            elif isinstance(a, Const) and isinstance(a.v, bool) and isinstance(b, Const):
                r = False
            elif isinstance(b, Const) and isinstance(b.v, bool) and isinstance(a, Sym) and getattr(a, "pytype", None) in (int, str, float, bytes):
                r = False   # a symbolic value of another plain type
            elif isinstance(a, TypeV) and isinstance(b, TypeV):
                r = (a.py is b.py) if (a.py is not None and b.py is not None) else (a.name == b.name)
            elif isinstance(a, TypeV) and isinstance(b, Const) and b.v is None:
                r = False
            else:
                r = None
            if r is None:
                return None
            return r if isinstance(op, ast.Is) else not r
        if isinstance(op, (ast.Eq, ast.NotEq)):
            r = self._eq(a, b)
            if r is None:
                return None
            return r if isinstance(op, ast.Eq) else not r
        if isinstance(op, (ast.In, ast.NotIn)):
            r = self._in(a, b)
            if r is None:
                return None
            return r if isinstance(op, ast.In) else not r
        if isinstance(op, (ast.Lt, ast.LtE, ast.Gt, ast.GtE)):
            if isinstance(a, Const) and isinstance(b, Const):
                try:
                    return {ast.Lt: a.v < b.v, ast.LtE: a.v <= b.v, ast.Gt: a.v > b.v, ast.GtE: a.v >= b.v}[type(op)]
                except Exception as ex:
                    raise AbsRaise(type(ex).__name__, str(ex))
            # sign domain against the constant 0
            for x, y, flip in ((a, b, False), (b, a, True)):
                if isinstance(x, Sym) and x.sign and isinstance(y, Const) and y.v == 0 and type(y.v) is int:
                    lt = x.sign == "neg"
                    gt = x.sign == "pos"
                    eq = x.sign == "zero"
                    t = type(op)
                    if flip:
                        t = {ast.Lt: ast.Gt, ast.Gt: ast.Lt, ast.LtE: ast.GtE, ast.GtE: ast.LtE}[t]
                    return {ast.Lt: lt, ast.Gt: gt, ast.LtE: lt or eq, ast.GtE: gt or eq}[t]
            return None
        return None

    def _eq(self, a: Any, b: Any) -> Optional[bool]:
        if isinstance(a, Const) and isinstance(b, Const):
            try:
                return bool(a.v == b.v)
            except Exception:
                return None
        if isinstance(a, EnumMember) and isinstance(b, EnumMember):
            return a == b
        # str-valued enums compare equal to their value
        for x, y in ((a, b), (b, a)):
            if isinstance(x, EnumMember) and isinstance(y, Const):
                c = self.prog.classes.get(x.cls.qname)
                if c is not None and any(bb in ("str", "int") or bb.endswith("IntEnum") for bb in c.bases):
                    return x.value == y.v
                return False
        if isinstance(a, TypeV) and isinstance(b, TypeV):
            return (a.py is b.py) if (a.py is not None and b.py is not None) else a.name == b.name
        if isinstance(a, (Const, EnumMember, TypeV)) and isinstance(b, (Const, EnumMember, TypeV)):
            return False
        return None

    def _in(self, a: Any, b: Any) -> Optional[bool]:
        items: Optional[List[Any]] = None
        if isinstance(b, Const) and isinstance(b.v, (list, tuple, set, frozenset, dict, str)):
            if isinstance(a, Const):
                try:
                    return a.v in b.v
                except Exception:
                    return None
            items = [Const(x) for x in b.v] if not isinstance(b.v, str) else None
        elif isinstance(b, (list, tuple)):
            items = list(b)
        elif isinstance(b, dict):
            items = list(b.keys())
        if items is None:
            return None
        unknown = False
        for it in items:
            r = self._eq(a, it)
            if r is True:
                return True
            if r is None:
                unknown = True
        return None if unknown else False

    # ------------------------------------------------------------------ calls
    def apply_lambda(self, fn: "LambdaV", args: List[Any], kwargs: Dict[str, Any]) -> Any:
        if self.depth >= self.max_depth:
            raise Unsupported("call depth")
        a = fn.node.args
        env = Env(fn.env)
        pos = [x.arg for x in a.posonlyargs + a.args]
        off = len(pos) - len(a.defaults)
        for i, p in enumerate(pos):
            if i < len(args):
                env.vars[p] = args[i]
            elif p in kwargs:
                env.vars[p] = kwargs[p]
            elif i >= off:
                env.vars[p] = self.eval(a.defaults[i - off], fn.env, fn.scope)
            else:
                env.vars[p] = TOP
        if a.vararg is not None:
            env.vars[a.vararg.arg] = list(args[len(pos):])
        self.depth += 1
        try:
            return self.eval(fn.node.body, env, fn.scope)
        finally:
            self.depth -= 1

    def apply_closure(self, fn: "Closure", args: List[Any], kwargs: Dict[str, Any]) -> Any:
        if isinstance(fn, LambdaV):
            return self.apply_lambda(fn, args, kwargs)
        if fn.self_obj is not None:
            args = [fn.self_obj] + list(args)
        outs = self.call_function(fn.func, args, kwargs, fn.env if fn.func.parent is not None else None)
        rets = [o for o in outs if o.kind == "return"]
        raises = [o for o in outs if o.kind == "raise"]
        if len(rets) == 1 and not raises:
            self.events, self.conds = list(rets[0].events), list(rets[0].conds)
            return rets[0].value
        if not rets and raises and len({o.exc.exc_type for o in raises if o.exc}) == 1:
            self.events = list(raises[0].events)
            raise raises[0].exc  # type: ignore
        if rets and all(_same(rets[0].value, o.value) for o in rets[1:]):
            self.events = list(rets[0].events)
            return rets[0].value
        return TOP

    def call(self, e: ast.Call, env: Env, scope: Union[Func, Module]) -> Any:
        fn = self.eval(e.func, env, scope)
        args = []
        for a in e.args:
            if isinstance(a, ast.Starred):
                v = self.eval(a.value, env, scope)
                if isinstance(v, Const) and isinstance(v.v, (list, tuple)):
                    args += [Const(x) for x in v.v]
                elif isinstance(v, (list, tuple)):
                    args += list(v)
                else:
                    args.append(TOP)
            else:
                args.append(self.eval(a, env, scope))
        kwargs = {k.arg: self.eval(k.value, env, scope) for k in e.keywords if k.arg is not None}
        name = self._callee_name(fn, e, scope)
        if self.oracle is not None:
            r = self.oracle(name, args, kwargs, e)
            if r is not NOT_HANDLED:
                return r
        if isinstance(fn, NewTypeV) and len(args) == 1 and not kwargs:
            return args[0]
        # map / reduce of a known function over a known sequence
        if name.split(".")[-1] in ("map", "reduce") and args and isinstance(args[0], (Closure, LambdaV)) and not kwargs:
            def _seq(v: Any) -> Optional[List[Any]]:
                if isinstance(v, Const) and isinstance(v.v, (list, tuple)):
                    return [Const(x) for x in v.v]
                if isinstance(v, (list, tuple)):
                    return list(v)
                return None
            if name.split(".")[-1] == "map" and len(args) == 2:
                seq = _seq(args[1])
                if seq is not None:
                    return [self.apply_closure(args[0], [x], {}) for x in seq]
            if name.split(".")[-1] == "reduce" and len(args) in (2, 3):
                seq = _seq(args[1])
                if seq is not None and (len(args) == 3 or seq):
                    acc = args[2] if len(args) == 3 else seq.pop(0)
                    for x in seq:
                        acc = self.apply_closure(args[0], [acc, x], {})
                    return acc
        if isinstance(fn, LambdaV):
            return self.apply_lambda(fn, args, kwargs)
        if isinstance(fn, Closure):
            return self.apply_closure(fn, args, kwargs)
        if isinstance(fn, tuple) and fn and fn[0] == "bound":
            if fn[2] in _MUTATORS and isinstance(fn[1], (Const, list, dict, set)) and not (isinstance(fn[1], Const) and isinstance(fn[1].v, (str, bytes, int, float, tuple, frozenset, type(None)))):
                return self.mutate(e, fn[1], fn[2], args, env)
            return self.method(fn[1], fn[2], args, kwargs, e)
        if isinstance(fn, EnumClass):
            if len(args) == 1 and isinstance(args[0], Const):
                for k, v in fn.members.items():
                    if not isinstance(v, _Top) and v == args[0].v:
                        return EnumMember(fn, k)
                raise AbsRaise("ValueError", f"{args[0].v!r} is not a valid {fn.qname.split('.')[-1]}")
            return TOP
        if isinstance(fn, TypeV):
            return self.construct(fn, args, kwargs, e)
        if isinstance(fn, ModRef):
            return self.builtin(fn.dotted, args, kwargs, e)
        ob = Obj(name, args, kwargs)
        self.events.append(ob)
        return TOP

    def mutate(self, e: ast.Call, base: Any, attr: str, args: List[Any], env: Env) -> Any:
        """In-place mutation of a known container: modelled as a rebinding of the receiver variable (forked paths
        share container objects, so the object itself is never modified).  Anything but `name.append(x)` /
        `name.extend(xs)` on an unaliased local is outside the evaluator (Unsupported -> undecided, never a
        wrong value)."""
        recv = e.func.value  # type: ignore
        if not (isinstance(recv, ast.Name) and env.has(recv.id) and env.get(recv.id) is base):
            raise Unsupported(f"mutation of a container that is not a plain local: {unparse(e, 60)}")
        cur: Optional[Env] = env
        owner: Optional[Env] = None
        while cur is not None:
            for k, v in cur.vars.items():
                if v is base and k != recv.id:
                    raise Unsupported(f"mutation of an aliased container: {unparse(e, 60)}")
            if owner is None and recv.id in cur.vars:
                owner = cur
            cur = cur.parent
        if isinstance(base, Const) and isinstance(base.v, (set, frozenset)) and attr == "add" and len(args) == 1 and isinstance(args[0], Const):
            try:
                new_s = set(base.v) | {args[0].v}
            except TypeError as ex:
                raise AbsRaise("TypeError", str(ex))
            assert owner is not None
            owner.vars[recv.id] = Const(new_s)
            return Const(None)
        if isinstance(base, Const) and isinstance(base.v, list):
            elems: List[Any] = [Const(x) for x in base.v]
        elif isinstance(base, list):
            elems = list(base)
        else:
            raise Unsupported(f"mutation `{attr}` of {type(base).__name__}: {unparse(e, 60)}")
        ret: Any = Const(None)
        if attr == "append" and len(args) == 1:
            elems = elems + [args[0]]
        elif attr == "pop" and not args:
            if not elems:
                raise AbsRaise("IndexError", "pop from empty list")
            ret = elems[-1]
            elems = elems[:-1]
        elif attr == "extend" and len(args) == 1 and (isinstance(args[0], (list, tuple)) or (isinstance(args[0], Const) and isinstance(args[0].v, (list, tuple)))):
            a = args[0]
            elems = elems + ([Const(x) for x in a.v] if isinstance(a, Const) else list(a))
        else:
            raise Unsupported(f"mutation `{attr}`: {unparse(e, 60)}")
        new: Any = Const([x.v for x in elems]) if all(isinstance(x, Const) for x in elems) else elems
        assert owner is not None
        owner.vars[recv.id] = new
        return ret

    def _callee_name(self, fn: Any, e: ast.Call, scope: Union[Func, Module]) -> str:
        if isinstance(fn, Closure):
            return fn.func.qname
        if isinstance(fn, ModRef):
            return fn.dotted
        if isinstance(fn, TypeV):
            return fn.name
        if isinstance(fn, EnumClass):
            return fn.qname
        if isinstance(fn, tuple) and fn and fn[0] == "bound":
            return f"?.{fn[2]}"
        return unparse(e.func, 60)

    def construct(self, t: TypeV, args: List[Any], kwargs: Dict[str, Any], e: ast.Call) -> Any:
        if t.py is type and len(args) == 1:
            return self.builtin("type", args, kwargs, e)
        if t.py is not None:
            if t.py in (int, str) and args and isinstance(args[0], Digest):
                # a digest over known bytes used as a number / text
                args = [self.fold_digest(args[0])] + list(args[1:])
            if t.py in (str, int, float, bool, list, tuple, dict, set, frozenset, bytes) and all(isinstance(a, Const) for a in args) and not kwargs:
                try:
                    return Const(t.py(*[a.v for a in args]))
                except Exception as ex:
                    raise AbsRaise(type(ex).__name__, str(ex))
            if t.py is str and len(args) == 1:
                a = args[0]
                if isinstance(a, EnumMember):
                    c = self.prog.classes.get(a.cls.qname)
                    # str(Enum member) is 'Class.NAME' (mixed-in str enums too, before 3.11 semantics kept by Enum)
                    return Const(f"{a.cls.qname.split('.')[-1]}.{a.name}")
                if isinstance(a, Sym):
                    return Sym(f"str({a.name})", none=False, pytype=str)
                return Sym("str(?)", none=False, pytype=str)
            if t.py in (list, tuple) and len(args) == 1 and isinstance(args[0], (list, tuple)):
                return list(args[0])
            if t.py in (list, tuple) and len(args) == 1 and isinstance(args[0], EnumClass):
                return [EnumMember(args[0], k) for k in args[0].members]
            if t.py in (dict, collections.OrderedDict) and not args and not kwargs:
                return Const(t.py())
            if t.py in (isinstance.__class__,):
                return TOP
            ob = Obj(t.name, args, kwargs)
            return ob
        c = self.prog.classes.get(t.name)
        if c is not None and c.module.name in self.instance_modules and not any(
                b.split(".")[-1] in ("Enum", "NamedTuple", "tuple", "Exception", "BaseException") for b in self.prog.all_bases(t.name)):
            inst = Obj(t.name, args, {})
            inst.instance, inst.open = True, True
            init = self.prog.find_method(t.name, "__init__")
            if init is not None:
                outs = self.call_function(init, [inst] + args, kwargs)
                if len(outs) != 1:
                    raise Unsupported(f"constructor of {t.name} forks")
                if outs[0].kind == "raise" and outs[0].exc is not None:
                    raise outs[0].exc
                self.events, self.conds = list(outs[0].events), list(outs[0].conds)
            inst.open = False
            self.events.append(inst)
            return inst
        ob = Obj(t.name, args, kwargs)
        self.events.append(ob)
        return ob

    def method(self, base: Any, attr: str, args: List[Any], kwargs: Dict[str, Any], e: ast.Call) -> Any:
        if isinstance(base, Const) and isinstance(base.v, pathlib.PurePath) and not kwargs and all(isinstance(a, Const) for a in args):
            # pure (lexical) operations of a path object given as a constant; `absolute()` only where it is the identity
            if attr in ("is_absolute", "as_posix", "as_uri", "joinpath", "with_suffix", "with_name", "relative_to", "is_relative_to", "match", "__str__", "__fspath__") \
                    or (attr == "absolute" and base.v.is_absolute() and not args):
                try:
                    return Const(base.v if attr == "absolute" else getattr(base.v, attr)(*[a.v for a in args]))
                except Exception as ex:
                    raise AbsRaise(type(ex).__name__, str(ex))
            return TOP
        if isinstance(base, Const):
            if all(isinstance(a, Const) for a in args) and all(isinstance(v, Const) for v in kwargs.values()):
                if attr in ("upper", "lower", "strip", "replace", "split", "startswith", "endswith", "encode", "join",
                            "items", "keys", "values", "get", "format", "lstrip", "rstrip", "title", "capitalize", "decode",
                            "count", "index", "copy", "rsplit", "partition", "rpartition", "splitlines", "removeprefix", "removesuffix", "zfill", "isdigit",
                            "isalpha", "isalnum", "isspace", "find", "rfind", "casefold", "swapcase", "center", "ljust", "rjust", "expandtabs", "hex", "to_bytes", "bit_length"):
                    try:
                        r = getattr(base.v, attr)(*[a.v for a in args], **{k: v.v for k, v in kwargs.items()})
                    except Exception as ex:
                        raise AbsRaise(type(ex).__name__, str(ex))
                    if attr in ("items", "keys", "values"):
                        r = list(r)
                    return Const(r)
            if attr == "join" and isinstance(base.v, str) and len(args) == 1:
                a = args[0]
                if isinstance(a, list):
                    a = [self.fold_digest(x) for x in a]
                    if not a:
                        return Const("")
                    if all(isinstance(x, Const) and isinstance(x.v, str) for x in a):
                        return Const(base.v.join(x.v for x in a))
                    return Sym("joined", none=False, truthy=None, pytype=str)
                return TOP
            return TOP
        if isinstance(base, Sym):
            if attr in ("upper", "lower", "strip"):
                return Sym(f"{base.name}.{attr}()", none=False, truthy=base.truthy, pytype=str)
            return TOP
        if isinstance(base, dict):
            if attr == "get" and args:
                k = args[0]
                if isinstance(k, (Const, EnumMember)):
                    return base.get(k, args[1] if len(args) > 1 else Const(None))
                return TOP
            if attr in ("items",):
                return [(k, v) for k, v in base.items()]
            if attr == "keys":
                return list(base.keys())
            if attr == "values":
                return list(base.values())
            return TOP
        if isinstance(base, list):
            return TOP
        if isinstance(base, Obj):
            ob = Obj(f"{base.callee}.{attr}", args, kwargs)
            self.events.append(ob)
            if base.callee.endswith("sha256") and attr == "hexdigest":
                return Digest(base.args[0] if base.args else TOP)
            if base.callee.endswith("sha256") and attr == "update" and len(args) == 1:
                # the digested bytes accumulate in the object
                cur = base.args[0] if base.args else Const(b"")
                if isinstance(cur, Const) and isinstance(args[0], Const) and isinstance(cur.v, (bytes, bytearray)) and isinstance(args[0].v, (bytes, bytearray)):
                    base.args[:] = [Const(bytes(cur.v) + bytes(args[0].v))]
                else:
                    base.args[:] = [TOP]
                return Const(None)
            return TOP
        return TOP

    def builtin(self, name: str, args: List[Any], kwargs: Dict[str, Any], e: ast.Call) -> Any:
        short = name.split(".")[-1]
        if name == "isinstance" and len(args) == 2:
            r = self._isinstance(args[0], args[1])
            return Const(r) if r is not None else TOP
        if name == "issubclass" and len(args) == 2:
            a, b = args
            if isinstance(a, TypeV) and isinstance(b, TypeV) and a.py is not None and b.py is not None:
                return Const(issubclass(a.py, b.py))
            return TOP
        if name == "type" and len(args) == 1:
            a = args[0]
            if isinstance(a, Const):
                return TypeV(type(a.v), type(a.v).__name__)
            if isinstance(a, Sym) and a.pytype is not None:
                return TypeV(a.pytype, a.pytype.__name__)
            return TOP
        if name == "len" and len(args) == 1:
            a = args[0]
            if isinstance(a, Const):
                try:
                    return Const(len(a.v))
                except Exception as ex:
                    raise AbsRaise("TypeError", str(ex))
            if isinstance(a, (list, tuple, dict)):
                return Const(len(a))
            return TOP
        if name == "int" and args and isinstance(args[0], Digest):
            args = [self.fold_digest(args[0])] + list(args[1:])
        if name in ("format", "hex", "oct", "bin", "abs", "repr", "int", "str") and args and all(isinstance(a, Const) for a in args) and not kwargs \
                and all(isinstance(a.v, (int, float, str, bytes, bool, type(None))) for a in args):
            try:
                return Const({"format": format, "hex": hex, "oct": oct, "bin": bin, "abs": abs, "repr": repr, "int": int, "str": str}[name](*[a.v for a in args]))
            except Exception as ex:
                raise AbsRaise(type(ex).__name__, str(ex))
        if name == "dir" and len(args) == 1 and isinstance(args[0], EnumClass):
            return Const(sorted(list(args[0].members.keys()) + args[0].others))
        if name in ("zip",) and all(isinstance(a, (list, tuple)) or (isinstance(a, Const) and isinstance(a.v, (list, tuple))) for a in args):
            seqs = [[Const(x) for x in a.v] if isinstance(a, Const) else list(a) for a in args]
            return [tuple(t) for t in zip(*seqs)]
        if name == "enumerate" and len(args) == 1:
            a = args[0]
            seq = [Const(x) for x in a.v] if isinstance(a, Const) and isinstance(a.v, (list, tuple)) else (list(a) if isinstance(a, (list, tuple)) else None)
            if seq is not None:
                return [(Const(i), x) for i, x in enumerate(seq)]
            return TOP
        if name in ("any", "all") and len(args) == 1:
            a = args[0]
            seq = [Const(x) for x in a.v] if isinstance(a, Const) and isinstance(a.v, (list, tuple)) else (list(a) if isinstance(a, (list, tuple)) else None)
            if seq is None:
                return TOP
            ts = [self.truth(x) for x in seq]
            if name == "any":
                return Const(True) if any(t is True for t in ts) else (Const(False) if all(t is False for t in ts) else TOP)
            return Const(False) if any(t is False for t in ts) else (Const(True) if all(t is True for t in ts) else TOP)
        if name == "hashlib.sha256":
            ob = Obj("hashlib.sha256", args, kwargs)
            return ob
        if name == "struct.pack" and len(args) == 2 and isinstance(args[0], Const) and isinstance(args[1], Const):
            try:
                return Const(struct.pack(args[0].v, args[1].v))
            except struct.error as ex:
                raise AbsRaise("struct.error", str(ex))
        if name == "dataclasses.is_dataclass" and len(args) == 1:
            a = args[0]
            if isinstance(a, Const):
                return Const(dataclasses.is_dataclass(a.v))
            if isinstance(a, TypeV) and a.py is not None:
                return Const(dataclasses.is_dataclass(a.py))
            return TOP
        if name in ("sorted", "list", "tuple") and len(args) == 1 and isinstance(args[0], (list, tuple)) and name != "sorted":
            return list(args[0])
        if name == "repr" and len(args) == 1 and isinstance(args[0], Const):
            return Const(repr(args[0].v))
        if short in ("debug", "info", "warning", "error", "warn"):
            return Const(None)
        ob = Obj(name, args, kwargs)
        self.events.append(ob)
        return TOP

    def _isinstance(self, v: Any, t: Any) -> Optional[bool]:
        types: List[Any]
        if isinstance(t, (tuple, list)):
            types = list(t)
        elif isinstance(t, Const) and isinstance(t.v, tuple):
            return None
        else:
            types = [t]
        res: Optional[bool] = False
        for ty in types:
            r: Optional[bool]
            if not isinstance(ty, (TypeV, EnumClass)):
                r = None
            elif isinstance(v, Const):
                r = isinstance(v.v, ty.py) if isinstance(ty, TypeV) and ty.py is not None else False
            elif isinstance(v, Sym):
                if v.none:
                    r = False
                elif v.pytype is not None and isinstance(ty, TypeV) and ty.py is not None:
                    r = issubclass(v.pytype, ty.py)
                elif v.pytype is not None:
                    r = False
                else:
                    r = None
            elif isinstance(v, EnumMember):
                if isinstance(ty, EnumClass):
                    r = ty.qname == v.cls.qname
                else:
                    c = self.prog.classes.get(v.cls.qname)
                    mix = [b for b in (c.bases if c else [])]
                    r = bool(isinstance(ty, TypeV) and ty.py is not None and any(PYTYPES.get(b) is ty.py for b in mix))
            elif isinstance(v, Obj):
                if isinstance(ty, TypeV):
                    tn = ty.name
                    r = v.callee == tn or tn in self.prog.all_bases(v.callee) if v.callee in self.prog.classes else (None if ty.py is None else False)
                else:
                    r = False
            elif isinstance(v, (list,)):
                r = isinstance(ty, TypeV) and ty.py is list
            elif isinstance(v, dict):
                r = isinstance(ty, TypeV) and ty.py is dict
            elif isinstance(v, tuple):
                r = isinstance(ty, TypeV) and ty.py is tuple
            else:
                r = None
            if r is True:
                return True
            if r is None:
                res = None
        return res


def _exc_matches(exc_type: str, names: List[str]) -> bool:
    if "BaseException" in names:
        return True
    if exc_type in names:
        return True
    if "Exception" in names and exc_type not in ("DDSException", "KeyboardInterrupt", "SystemExit"):
        return True
    return False


def _same(a: Any, b: Any) -> bool:
    if isinstance(a, Const) and isinstance(b, Const):
        return a == b
    if isinstance(a, EnumMember) and isinstance(b, EnumMember):
        return a == b
    return a is b
