"""
Def-use machinery:

* ``Flow``    - reaching definitions per function on the CFG (strong and weak updates;
                exceptional edges carry the *incoming* state of the raising statement).
* ``Slicer``  - interprocedural backward slice of an expression with call strings
                (descend into package callees' returns, bind parameters to the call site
                that was descended through; from the root function optionally ascend to all
                callers), field-sensitive for the package's record classes and field-based
                for other instance attributes.  Returns the visited (function, AST node)
                set with parent links, so every "x derives from y" answer has a witness chain.

Only explicit (data) flows are followed; comparisons produce booleans and end a chain
unless the caller asks otherwise.
"""
from __future__ import annotations

import ast
from collections import deque
from typing import Dict, List, Optional, Tuple, Iterable, Set, Callable, Any

from .model import Program, Func, Module, AnalysisError, unparse, walk_no_nested, f_cls
from .cfg import CFG, Node, cfg_of

MUTATORS = {"append", "add", "update", "extend", "insert", "setdefault", "appendleft", "put"}


class Def:
    __slots__ = ("name", "kind", "value", "stmt", "node", "index", "func", "key", "arity")

    def __init__(self, name: str, kind: str, value: Optional[ast.AST], stmt: Optional[ast.AST],
                 node: Optional[Node] = None, index: Optional[int] = None, func: Optional[Func] = None):
        self.key: Optional[ast.AST] = None
        self.arity: Optional[int] = None
        self.name = name
        self.kind = kind
        self.value = value
        self.stmt = stmt
        self.node = node
        self.index = index
        self.func = func

    def __repr__(self) -> str:
        return f"<Def {self.name} {self.kind} = {unparse(self.value, 50)}>"


def _target_defs(target: ast.AST, value: Optional[ast.AST], stmt: ast.AST, kind: str) -> List[Tuple[Def, bool]]:
    """(definition, strong?) pairs produced by assigning value to target."""
    out: List[Tuple[Def, bool]] = []
    if isinstance(target, ast.Name):
        out.append((Def(target.id, kind, value, stmt), True))
    elif isinstance(target, (ast.Tuple, ast.List)):
        for i, elt in enumerate(target.elts):
            sub_val = value
            idx: Optional[int] = i
            if isinstance(value, (ast.Tuple, ast.List)) and len(value.elts) == len(target.elts):
                sub_val = value.elts[i]
                idx = None
            if isinstance(elt, ast.Starred):
                elt = elt.value
            for d, strong in _target_defs(elt, sub_val, stmt, "unpack" if kind == "assign" else kind):
                if d.index is None:
                    d.index = idx
                    d.arity = len(target.elts) if isinstance(elt, ast.Name) else None
                out.append((d, strong))
    elif isinstance(target, ast.Subscript):
        base = target.value
        if isinstance(base, ast.Name):
            dd = Def(base.id, "item", value, stmt)
            dd.key = target.slice
            out.append((dd, False))
    elif isinstance(target, ast.Starred):
        out += _target_defs(target.value, value, stmt, kind)
    return out


class Flow:
    """Reaching definitions of one function."""

    def __init__(self, prog: Program, func: Func):
        self.prog = prog
        self.func = func
        self.cfg: CFG = cfg_of(func)
        self.gen: Dict[int, List[Tuple[Def, bool]]] = {}
        self._compute()

    def _node_defs(self, n: Node) -> List[Tuple[Def, bool]]:
        out: List[Tuple[Def, bool]] = []
        st = n.ast
        if n.kind == "stmt" and st is not None:
            if isinstance(st, ast.Assign):
                for t in st.targets:
                    out += _target_defs(t, st.value, st, "assign")
            elif isinstance(st, ast.AnnAssign):
                if st.value is not None:
                    out += _target_defs(st.target, st.value, st, "assign")
            elif isinstance(st, ast.AugAssign):
                if isinstance(st.target, ast.Name):
                    out.append((Def(st.target.id, "aug", st.value, st), False))
                elif isinstance(st.target, ast.Subscript) and isinstance(st.target.value, ast.Name):
                    out.append((Def(st.target.value.id, "item", st.value, st), False))
            elif isinstance(st, (ast.With, ast.AsyncWith)):
                for it in st.items:
                    if it.optional_vars is not None:
                        out += _target_defs(it.optional_vars, it.context_expr, st, "with")
            elif isinstance(st, (ast.Import, ast.ImportFrom)):
                for a in st.names:
                    nm = a.asname or a.name.split(".")[0]
                    out.append((Def(nm, "import", None, st), True))
            elif isinstance(st, (ast.FunctionDef, ast.AsyncFunctionDef, ast.ClassDef)):
                out.append((Def(st.name, "def", None, st), True))
            elif isinstance(st, ast.Expr) and isinstance(st.value, ast.Call):
                c = st.value
                if (
                    isinstance(c.func, ast.Attribute)
                    and c.func.attr in MUTATORS
                    and isinstance(c.func.value, ast.Name)
                ):
                    for a in list(c.args) + [k.value for k in c.keywords]:
                        out.append((Def(c.func.value.id, "mut", a, st), False))
        elif n.kind == "loop" and st is not None:
            out += _target_defs(st.target, st.iter, st, "for")  # type: ignore
        elif n.kind == "handler" and st is not None:
            if getattr(st, "name", None):
                out.append((Def(st.name, "except", getattr(st, "type", None), st), True))  # type: ignore
        # walrus
        for e in n.exprs():
            if isinstance(e, (ast.FunctionDef, ast.ClassDef)):
                continue
            for sub in walk_no_nested(e):
                if isinstance(sub, ast.NamedExpr) and isinstance(sub.target, ast.Name):
                    out.append((Def(sub.target.id, "assign", sub.value, sub), True))
        for d, _ in out:
            d.node = n
            d.func = self.func
        return out

    def _compute(self) -> None:
        cfg = self.cfg
        params = [Def(p, "param", None, self.func.node, cfg.entry, None, self.func) for p in self.func.params]
        IN: Dict[int, Dict[str, Set[Def]]] = {n.id: {} for n in cfg.nodes}
        OUT: Dict[int, Dict[str, Set[Def]]] = {n.id: {} for n in cfg.nodes}
        for n in cfg.nodes:
            self.gen[n.id] = self._node_defs(n)
        OUT[cfg.entry.id] = {p.name: {p} for p in params}
        work = deque(cfg.nodes)
        inq = {n.id for n in cfg.nodes}
        while work:
            n = work.popleft()
            inq.discard(n.id)
            if n is not cfg.entry:
                new_in: Dict[str, Set[Def]] = {}
                for p, lab in n.pred:
                    src = IN[p.id] if lab == "exc" else OUT[p.id]
                    for k, v in src.items():
                        new_in.setdefault(k, set()).update(v)
                IN[n.id] = new_in
                out = {k: set(v) for k, v in new_in.items()}
                for d, strong in self.gen[n.id]:
                    if strong:
                        out[d.name] = set()
                for d, strong in self.gen[n.id]:
                    out.setdefault(d.name, set()).add(d)
                if out != OUT[n.id]:
                    OUT[n.id] = out
                    for s, _ in n.succ:
                        if s.id not in inq:
                            inq.add(s.id)
                            work.append(s)
            else:
                for s, _ in n.succ:
                    if s.id not in inq:
                        inq.add(s.id)
                        work.append(s)
        self.IN = IN
        self.OUT = OUT

    def defs_at(self, node: Node, name: str) -> List[Def]:
        return sorted(self.IN.get(node.id, {}).get(name, set()), key=lambda d: (d.node.id if d.node else -1))

    def defs_of_use(self, use: ast.AST, name: Optional[str] = None) -> List[Def]:
        nm = name if name is not None else use.id  # type: ignore
        res: List[Def] = []
        for n in self.cfg.nodes_of(use):
            for d in self.defs_at(n, nm):
                if d not in res:
                    res.append(d)
        return res

    def root_defs(self, use: ast.AST, name: Optional[str] = None, _seen: Optional[Set[int]] = None) -> List[Def]:
        """Reaching definitions of a use, looking through plain copies `x = y` (as left by helper inlining and
        by renaming refactorings): the definitions of y stand for the copy."""
        seen = _seen if _seen is not None else set()
        out: List[Def] = []
        for d in self.defs_of_use(use, name):
            if id(d) in seen:
                continue
            seen.add(id(d))
            v = d.value
            tgt_plain = isinstance(d.stmt, (ast.Assign, ast.AnnAssign)) and isinstance(
                d.stmt.targets[0] if isinstance(d.stmt, ast.Assign) else d.stmt.target, ast.Name)
            if d.kind == "assign" and isinstance(v, ast.Name) and tgt_plain and self.cfg.nodes_of(v):
                sub = self.root_defs(v, None, seen)
                out += [x for x in sub if x not in out] if sub else [d]
            elif d not in out:
                out.append(d)
        return out

    def all_defs(self, name: str) -> List[Def]:
        out: List[Def] = []
        if name in self.func.params:
            out.append(Def(name, "param", None, self.func.node, self.cfg.entry, None, self.func))
        for n in self.cfg.nodes:
            for d, _ in self.gen[n.id]:
                if d.name == name and d not in out:
                    out.append(d)
        return out


_FLOW_CACHE: Dict[int, Flow] = {}


def flow_of(prog: Program, func: Func) -> Flow:
    key = id(func.node)
    fl = _FLOW_CACHE.get(key)
    if fl is None or fl.func is not func:
        fl = Flow(prog, func)
        _FLOW_CACHE[key] = fl
    return fl


# ----------------------------------------------------------------------------------------------
# Heap index: record classes (NamedTuple / dataclass) and instance-attribute stores
# ----------------------------------------------------------------------------------------------
class Heap:
    def __init__(self, prog: Program):
        self.prog = prog
        self.record_fields: Dict[str, List[str]] = {}  # class qname -> ordered field names
        self.field_owner: Dict[str, List[str]] = {}  # field name -> record classes
        self.ctor_sites: Dict[str, List[Tuple[Func, ast.Call]]] = {}  # class qname -> constructions
        self.replace_sites: List[Tuple[Func, ast.Call]] = []
        self.attr_stores: Dict[str, List[Tuple[Func, ast.AST, ast.AST]]] = {}  # attr -> (func, value, stmt)
        self.call_sites: Dict[str, List[Tuple[Func, ast.Call]]] = {}  # callee qname -> sites
        for c in prog.classes.values():
            is_rec = any(b.endswith("NamedTuple") for b in c.bases) or any(
                "dataclass" in unparse(d) for d in c.node.decorator_list
            )
            if is_rec:
                fields = [
                    st.target.id
                    for st in c.node.body
                    if isinstance(st, ast.AnnAssign) and isinstance(st.target, ast.Name)
                ]
                self.record_fields[c.qname] = fields
                for f in fields:
                    self.field_owner.setdefault(f, []).append(c.qname)
        for f in prog.funcs.values():
            for n in f.own_nodes():
                if isinstance(n, ast.Call):
                    fs, d = prog.callees(f, n)
                    if d is not None and d in self.record_fields:
                        self.ctor_sites.setdefault(d, []).append((f, n))
                    for cal in fs:
                        self.call_sites.setdefault(cal.qname, []).append((f, n))
                    if d is not None and d in prog.classes and not fs:
                        self.call_sites.setdefault(d, []).append((f, n))
                    if isinstance(n.func, ast.Attribute) and n.func.attr == "_replace":
                        self.replace_sites.append((f, n))
                    if (
                        isinstance(n.func, ast.Attribute)
                        and n.func.attr in MUTATORS
                        and isinstance(n.func.value, ast.Attribute)
                    ):
                        for a in list(n.args) + [k.value for k in n.keywords]:
                            self.attr_stores.setdefault(n.func.value.attr, []).append((f, a, n))
                elif isinstance(n, (ast.Assign, ast.AnnAssign, ast.AugAssign)):
                    targets = n.targets if isinstance(n, ast.Assign) else [n.target]
                    val = n.value
                    if val is None:
                        continue
                    for t in targets:
                        if isinstance(t, ast.Attribute):
                            self.attr_stores.setdefault(t.attr, []).append((f, val, n))
                        elif isinstance(t, ast.Subscript) and isinstance(t.value, ast.Attribute):
                            self.attr_stores.setdefault(t.value.attr, []).append((f, val, n))

    def field_sources(self, field: str, classes: Optional[List[str]] = None) -> List[Tuple[Func, ast.AST, ast.Call]]:
        """Expressions stored into record field `field` (constructor arguments and _replace keywords)."""
        out: List[Tuple[Func, ast.AST, ast.Call]] = []
        owners = classes if classes else self.field_owner.get(field, [])
        for cq in owners:
            fields = self.record_fields.get(cq, [])
            if field not in fields:
                continue
            idx = fields.index(field)
            for f, call in self.ctor_sites.get(cq, []):
                if idx < len(call.args) and not any(isinstance(a, ast.Starred) for a in call.args):
                    out.append((f, call.args[idx], call))
                for kw in call.keywords:
                    if kw.arg == field:
                        out.append((f, kw.value, call))
        for f, call in self.replace_sites:
            for kw in call.keywords:
                if kw.arg == field:
                    out.append((f, kw.value, call))
        return out


_HEAP_CACHE: Dict[int, Heap] = {}


def heap_of(prog: Program) -> Heap:
    h = _HEAP_CACHE.get(id(prog))
    if h is None or h.prog is not prog:
        h = Heap(prog)
        _HEAP_CACHE[id(prog)] = h
    return h


# ----------------------------------------------------------------------------------------------
# Backward slicer
# ----------------------------------------------------------------------------------------------
CallString = Tuple[Tuple[str, int], ...]  # ((caller qname, id(call)), ...)


class SliceItem:
    __slots__ = ("func", "node", "stack", "parent", "why", "aspect")

    def __init__(self, func: Func, node: ast.AST, stack: Tuple[Any, ...], parent: Optional["SliceItem"], why: str, aspect: Optional[int] = None):
        self.func = func
        self.node = node
        self.stack = stack
        self.parent = parent
        self.why = why
        self.aspect = aspect  # None: the value; 0 / 1: first / second component of its pairs (keys / values of a mapping)

    def chain(self) -> List[str]:
        out: List[str] = []
        cur: Optional[SliceItem] = self
        while cur is not None:
            asp = "" if cur.aspect is None else (" <keys / first components>" if cur.aspect == 0 else " <values / second components>")
            out.append(f"{cur.func.module.relpath}:{getattr(cur.node, 'lineno', '?')}: {unparse(cur.node, 70)}  [{cur.why}]{asp}")
            cur = cur.parent
        return list(reversed(out))


class Slice:
    def __init__(self) -> None:
        self.items: List[SliceItem] = []
        self.params: List[Tuple[Func, str, SliceItem]] = []  # parameters of the root context reached
        self.globals: List[Tuple[str, SliceItem]] = []  # dotted module-level names reached
        self.truncated = False

    def nodes(self) -> Iterable[Tuple[Func, ast.AST]]:
        for it in self.items:
            yield it.func, it.node

    def find(self, pred: Callable[[Func, ast.AST], bool]) -> Optional[SliceItem]:
        for it in self.items:
            if pred(it.func, it.node):
                return it
        return None

    def find_all(self, pred: Callable[[Func, ast.AST], bool]) -> List[SliceItem]:
        return [it for it in self.items if pred(it.func, it.node)]

    def has_param(self, func: Func, name: str) -> Optional[SliceItem]:
        for f, n, it in self.params:
            if f is func and n == name:
                return it
        return None


class Slicer:
    def __init__(
        self,
        prog: Program,
        types: Any = None,
        follow_calls: bool = True,
        follow_callers: bool = False,
        stop: Optional[Callable[[Func, ast.AST], bool]] = None,
        through_compare: bool = False,
        max_depth: int = 8,
        max_items: int = 20000,
        opaque: Optional[Iterable[str]] = None,
        through_records: bool = False,
    ):
        self.prog = prog
        self.types = types
        self.heap = heap_of(prog)
        self.follow_calls = follow_calls
        self.follow_callers = follow_callers
        self.stop = stop
        self.through_compare = through_compare
        self.max_depth = max_depth
        self.max_items = max_items
        self.opaque = set(opaque or ())
        self.through_records = through_records

    def slice(self, func: Func, expr: ast.AST) -> Slice:
        res = Slice()
        seen: Set[Tuple[int, Tuple[Any, ...], Optional[int]]] = set()
        work: deque = deque()

        def push(f: Func, node: Optional[ast.AST], stack: Tuple[Any, ...], parent: Optional[SliceItem], why: str, aspect: Any = "inherit") -> None:
            if node is None:
                return
            asp = (parent.aspect if parent is not None else None) if aspect == "inherit" else aspect
            key = (id(node), stack, asp)
            if key in seen or (id(node), stack, None) in seen:
                return
            seen.add(key)
            it = SliceItem(f, node, stack, parent, why, asp)
            res.items.append(it)
            work.append(it)

        push(func, expr, (), None, "start")
        while work:
            if len(res.items) > self.max_items:
                res.truncated = True
                break
            it = work.popleft()
            f, node, stack = it.func, it.node, it.stack
            if self.stop is not None and self.stop(f, node):
                continue
            self._step(f, node, stack, it, push, res)
        return res

    # -- one step -------------------------------------------------------------------------
    def _comp_binding(self, f: Func, name_node: ast.Name) -> Optional[Tuple[ast.AST, ast.AST, Optional[int]]]:
        """If the name is bound by an enclosing comprehension / lambda: (binder target or lambda, source iter, pair index)."""
        m = f.module
        cur: ast.AST = name_node
        while cur in m.parent:
            par = m.parent[cur]
            if isinstance(par, (ast.ListComp, ast.SetComp, ast.GeneratorExp, ast.DictComp)):
                for g in par.generators:
                    if any(isinstance(t, ast.Name) and t.id == name_node.id for t in ast.walk(g.target)):
                        # the name inside the generator's own iter is not bound by it (first generator)
                        if cur is g.iter and g is par.generators[0]:
                            continue
                        idx: Optional[int] = None
                        if isinstance(g.target, (ast.Tuple, ast.List)) and len(g.target.elts) == 2:
                            for i, e in enumerate(g.target.elts):
                                if isinstance(e, ast.Name) and e.id == name_node.id:
                                    idx = i
                        return g.target, g.iter, idx
            elif isinstance(par, ast.Lambda):
                if any(a.arg == name_node.id for a in par.args.args + par.args.kwonlyargs):
                    return par, par, None
            elif isinstance(par, (ast.FunctionDef, ast.AsyncFunctionDef)):
                break
            cur = par
        return None

    SEQ_PRESERVING = {"dict", "collections.OrderedDict", "list", "tuple", "sorted", "reversed", "set", "frozenset", "iter", "typing.cast"}

    def _step(self, f: Func, node: ast.AST, stack, it: SliceItem, push, res: Slice) -> None:
        prog = self.prog
        asp = it.aspect
        if isinstance(node, ast.Name):
            if not isinstance(node.ctx, ast.Load):
                return
            b = self._comp_binding(f, node)
            if b is not None:
                tgt, src, idx = b
                if isinstance(tgt, ast.Lambda):
                    return  # lambda parameter: unknown
                push(f, src, stack, it, f"iteration source of {node.id}", idx if asp is None else None)
                return
            self._name(f, node, node.id, stack, it, push, res)
            return
        if isinstance(node, ast.Attribute):
            attr = node.attr
            d = prog.dotted(f, node)
            if d is not None and (d in prog.funcs or d in prog.classes or d in prog.modules):
                return
            if d is not None and "." in d:
                mod, _, nm = d.rpartition(".")
                if mod in prog.modules and nm in prog.modules[mod].assigns:
                    res.globals.append((d, it))
                    for st in prog.modules[mod].assigns[nm]:
                        if getattr(st, "value", None) is not None:
                            push_mod(prog, push, prog.modules[mod], st.value, it, f"module variable {d}")
                    return
                if d.split(".")[0] not in prog.modules and not prog.is_local(f, d.split(".")[0]):
                    return  # external constant such as os.sep
            owners = self.heap.field_owner.get(attr)
            if owners:
                cls_filter = None
                if self.types is not None:
                    tq = self.types.receiver_class(f.module.name, node.value)
                    if tq in self.heap.record_fields:
                        cls_filter = [tq]
                srcs = self.heap.field_sources(attr, cls_filter)
                for sf, val, call in srcs:
                    push(sf, val, (), it, f"field {attr} set at {sf.loc(call)}")
                if self.through_records:
                    push(f, node.value, stack, it, f"record holding .{attr}", None)
                if srcs or cls_filter:
                    return
            stores = self.heap.attr_stores.get(attr, [])
            if stores:
                cls = f_cls(f)
                recv_self = isinstance(node.value, ast.Name) and node.value.id == "self"
                recv_cls = cls.qname if (recv_self and cls is not None) else (self.types.receiver_class(f.module.name, node.value) if self.types is not None else None)
                for sf, val, st in stores:
                    sc = f_cls(sf)
                    if recv_cls is not None and sc is not None and _stores_on_self(st):
                        related = sc.qname == recv_cls or sc.qname in prog.all_bases(recv_cls) or recv_cls in prog.all_bases(sc.qname)
                        if not related:
                            continue
                    push(sf, val, (), it, f"attribute {attr} stored at {sf.loc(st)}")
            push(f, node.value, stack, it, f"base of .{attr}", None)
            return
        if isinstance(node, ast.Call):
            self._call(f, node, stack, it, push, res)
            return
        if isinstance(node, ast.Subscript):
            mp = None
            if self.types is not None:
                fns = self.types.fullnames(f.module.name, node.value)
                if fns:
                    mp = any(x in ("builtins.dict", "collections.OrderedDict", "typing.Dict", "typing.Mapping", "typing.OrderedDict", "typing.MutableMapping") for x in fns)
            if asp is not None and isinstance(node.slice, ast.Constant) and node.slice.value in (0, 1) and not mp:
                push(f, node.value, stack, it, "pair component", None)
                return
            push(f, node.value, stack, it, "subscript base", 1 if mp else None)
            return
        if isinstance(node, ast.Compare):
            if self.through_compare:
                push(f, node.left, stack, it, "compare", None)
                for c in node.comparators:
                    push(f, c, stack, it, "compare", None)
            return
        if isinstance(node, ast.IfExp):
            push(f, node.body, stack, it, "conditional value")
            push(f, node.orelse, stack, it, "conditional value")
            return
        if isinstance(node, (ast.ListComp, ast.SetComp, ast.GeneratorExp)):
            if asp is not None and isinstance(node.elt, ast.Tuple) and len(node.elt.elts) == 2:
                push(f, node.elt.elts[asp], stack, it, f"component {asp} of the comprehension's pairs", None)
            else:
                push(f, node.elt, stack, it, "comprehension element")
            return
        if isinstance(node, ast.DictComp):
            if asp in (None, 0):
                push(f, node.key, stack, it, "comprehension key", None)
            if asp in (None, 1):
                push(f, node.value, stack, it, "comprehension value", None)
            return
        if isinstance(node, ast.Lambda):
            push(f, node.body, stack, it, "lambda body")
            return
        if isinstance(node, ast.NamedExpr):
            push(f, node.value, stack, it, "walrus")
            return
        if isinstance(node, ast.Dict):
            if asp in (None, 0):
                for k in node.keys:
                    push(f, k, stack, it, "dict key", None)
            if asp in (None, 1):
                for v in node.values:
                    push(f, v, stack, it, "dict value", None)
            return
        if isinstance(node, (ast.Constant,)):
            return
        if isinstance(node, (ast.List, ast.Tuple, ast.Set)):
            if asp is not None and isinstance(node, ast.Tuple) and len(node.elts) == 2 and not any(isinstance(e, ast.Tuple) for e in node.elts):
                push(f, node.elts[asp], stack, it, f"component {asp} of the pair", None)
                return
            for e in node.elts:
                if asp is not None and isinstance(e, ast.Tuple) and len(e.elts) == 2:
                    push(f, e.elts[asp], stack, it, f"component {asp} of the pair", None)
                else:
                    push(f, e.value if isinstance(e, ast.Starred) else e, stack, it, "element")
            return
        if isinstance(node, ast.BinOp) and isinstance(node.op, ast.Add):
            push(f, node.left, stack, it, "operand")
            push(f, node.right, stack, it, "operand")
            return
        if isinstance(node, ast.expr):
            for c in ast.iter_child_nodes(node):
                if isinstance(c, ast.expr):
                    push(f, c, stack, it, "operand", None)
            return
        if isinstance(node, (ast.keyword,)):
            push(f, node.value, stack, it, "keyword")

    def _name(self, f: Func, use: ast.AST, name: str, stack, it: SliceItem, push, res: Slice) -> None:
        prog = self.prog
        owner: Optional[Func] = f
        first = True
        while owner is not None:
            if name in prog.local_names(owner):
                fl = flow_of(prog, owner)
                defs = fl.defs_of_use(use, name) if first else fl.all_defs(name)
                if first and not defs:
                    defs = fl.all_defs(name)
                for d in defs:
                    self._def(owner, d, stack if first else (), it, push, res)
                return
            if name in owner.nested:
                return
            owner = owner.parent
            first = False
        # module level
        d = prog.resolve_name(f, name)
        if d is None:
            return
        if d in prog.funcs or d in prog.classes or d in prog.modules:
            return
        mod, _, nm = d.rpartition(".")
        if mod in prog.modules and nm in prog.modules[mod].assigns:
            res.globals.append((d, it))
            for st in prog.modules[mod].assigns[nm]:
                if getattr(st, "value", None) is not None:
                    push_mod(prog, push, prog.modules[mod], st.value, it, f"module variable {d}")

    def _def(self, owner: Func, d: Def, stack, it: SliceItem, push, res: Slice) -> None:
        asp = it.aspect
        if d.kind == "param":
            self._param(owner, d.name, stack, it, push, res)
            return
        if d.kind == "item":
            # X[k] = v : X's keys derive from k, its values from v
            if asp in (None, 0) and d.key is not None:
                push(owner, d.key, stack, it, f"{d.name}: key of a stored entry", None)
            if asp in (None, 1) and d.value is not None:
                push(owner, d.value, stack, it, f"{d.name}: value of a stored entry", None)
            return
        if d.value is not None:
            why = {
                "assign": "assigned from", "unpack": "unpacked from", "aug": "augmented by",
                "mut": "element added", "for": "iterates over", "with": "bound by with", "except": "exception",
            }.get(d.kind, d.kind)
            new_asp: Any = "inherit"
            if d.kind in ("for", "unpack") and d.index in (0, 1) and d.arity == 2 and asp is None:
                new_asp = d.index
            elif d.kind in ("for", "unpack") and d.index is not None:
                new_asp = None
            push(owner, d.value, stack, it, f"{d.name} {why}", new_asp)

    def _param(self, owner: Func, pname: str, stack, it: SliceItem, push, res: Slice) -> None:
        prog = self.prog
        if stack:
            (caller_q, call_id) = stack[-1]
            caller = prog.funcs.get(caller_q)
            if caller is None:
                return
            call = _CALL_BY_ID.get(call_id)
            if call is None:
                return
            for a in bind_arg(owner, call, pname):
                push(caller, a, stack[:-1], it, f"argument for {pname} of {owner.name}")
            return
        res.params.append((owner, pname, it))
        if pname in ("self", "cls"):
            return
        if self.follow_callers or owner.parent is not None:
            # nested helpers are always bound to their (few, local) call sites
            sites = self.heap.call_sites.get(owner.qname, [])
            if owner.cls is not None and owner.name == "__init__":
                sites = sites + self.heap.call_sites.get(owner.cls.qname, [])
            for caller, call in sites:
                for a in bind_arg(owner, call, pname):
                    push(caller, a, (), it, f"argument for {pname} at {caller.loc(call)}")

    def _call(self, f: Func, call: ast.Call, stack, it: SliceItem, push, res: Slice) -> None:
        prog = self.prog
        asp = it.aspect
        callees, dotted = prog.callees(f, call, self.types)
        fn = call.func
        if dotted is not None and dotted in self.heap.record_fields and len(self.heap.record_fields[dotted]) > 1:
            return  # record construction: fields are reached through field loads
        if isinstance(fn, ast.Attribute) and fn.attr == "_replace":
            push(f, fn.value, stack, it, "_replace base")
            return
        if callees and self.opaque and any(c.qname in self.opaque or c.qname.startswith(tuple(o + "." for o in self.opaque)) for c in callees):
            callees = []
        if callees and self.follow_calls and len(stack) < self.max_depth:
            _CALL_BY_ID[id(call)] = call
            for cal in callees:
                if cal.name == "__init__":
                    continue
                key = (f.qname, id(call))
                if key in stack:
                    continue  # recursion
                for r in returns_of(cal):
                    push(cal, r, stack + (key,), it, f"return of {cal.qname}")
            return
        # external / unresolved
        if dotted in self.SEQ_PRESERVING and call.args:
            a0 = call.args[1] if dotted == "typing.cast" and len(call.args) > 1 else call.args[0]
            push(f, a0, stack, it, f"{dotted}(...) of")
            return
        if dotted == "enumerate" and call.args:
            if asp == 0:
                return  # the index
            push(f, call.args[0], stack, it, "enumerate(...) of", None)
            return
        if dotted == "zip" and len(call.args) == 2 and asp in (0, 1):
            push(f, call.args[asp], stack, it, f"zip component {asp}", None)
            return
        if isinstance(fn, ast.Attribute):
            a = fn.attr
            if a == "items":
                push(f, fn.value, stack, it, "receiver of .items()")
                return
            if a == "keys":
                push(f, fn.value, stack, it, "keys of", 0)
                return
            if a == "values":
                push(f, fn.value, stack, it, "values of", 1)
                return
            if a in ("get", "pop", "setdefault"):
                push(f, fn.value, stack, it, f"value looked up by .{a}()", 1)
                if a in ("get", "setdefault") and len(call.args) > 1:
                    push(f, call.args[1], stack, it, "default of the lookup", None)
                return
            if a in ("copy",):
                push(f, fn.value, stack, it, "copy of")
                return
            push(f, fn.value, stack, it, f"receiver of .{a}()", None)
        for a_ in call.args:
            push(f, a_.value if isinstance(a_, ast.Starred) else a_, stack, it, f"argument of {unparse(fn, 30)}()", None)
        for k in call.keywords:
            push(f, k.value, stack, it, f"argument of {unparse(fn, 30)}()", None)


_CALL_BY_ID: Dict[int, ast.Call] = {}


def _stores_on_self(st: ast.AST) -> bool:
    targets: List[ast.AST] = []
    if isinstance(st, ast.Assign):
        targets = list(st.targets)
    elif isinstance(st, (ast.AnnAssign, ast.AugAssign)):
        targets = [st.target]
    elif isinstance(st, ast.Call) and isinstance(st.func, ast.Attribute):
        targets = [st.func.value]
    for t in targets:
        base = t
        while isinstance(base, (ast.Attribute, ast.Subscript)):
            base = base.value
        if isinstance(base, ast.Name) and base.id == "self":
            return True
    return False


def push_mod(prog: Program, push, m: Module, value: ast.AST, it: SliceItem, why: str) -> None:
    """Module-level expressions are attributed to a pseudo function of the module."""
    push(module_func(prog, m), value, (), it, why)


_MODFUNC: Dict[Tuple[int, str], Func] = {}


def module_func(prog: Program, m: Module) -> Func:
    key = (id(prog), m.name)
    got = _MODFUNC.get(key)
    if got is None:
        node = ast.FunctionDef(
            name="<module>", args=ast.arguments(posonlyargs=[], args=[], kwonlyargs=[], kw_defaults=[], defaults=[]),
            body=[s for s in m.tree.body], decorator_list=[], lineno=1, col_offset=0,
        )
        got = Func(f"{m.name}.<module>", m, node, None, None)
        _MODFUNC[key] = got
    return got


def returns_of(func: Func) -> List[ast.AST]:
    out: List[ast.AST] = []
    for n in func.own_nodes():
        if isinstance(n, ast.Return) and n.value is not None:
            out.append(n.value)
    return out


def bind_arg(callee: Func, call: ast.Call, pname: str) -> List[ast.AST]:
    """Argument expression(s) bound to parameter pname of callee at this call (best effort, exact for plain calls)."""
    for k in call.keywords:
        if k.arg == pname:
            return [k.value]
    ps = callee.positional_params()
    if callee.cls is not None and callee.name == "__init__":
        pass
    if pname in ps:
        idx = ps.index(pname)
        plain = [a for a in call.args]
        if any(isinstance(a, ast.Starred) for a in plain[: idx + 1]):
            return [a.value if isinstance(a, ast.Starred) else a for a in plain]
        if idx < len(plain):
            return [plain[idx]]
        # default value
        a = callee.node.args
        allpos = a.posonlyargs + a.args
        off = len(allpos) - len(a.defaults)
        full_idx = [x.arg for x in allpos].index(pname)
        if full_idx >= off:
            return [a.defaults[full_idx - off]]
        return []
    if callee.node.args.vararg is not None and callee.node.args.vararg.arg == pname:
        return [a.value if isinstance(a, ast.Starred) else a for a in call.args[len(ps):]]
    if callee.node.args.kwarg is not None and callee.node.args.kwarg.arg == pname:
        known = set(ps) | {x.arg for x in callee.node.args.kwonlyargs}
        return [k.value for k in call.keywords if k.arg is None or k.arg not in known]
    for i, x in enumerate(callee.node.args.kwonlyargs):
        if x.arg == pname and callee.node.args.kw_defaults[i] is not None:
            return [callee.node.args.kw_defaults[i]]  # type: ignore
    return []
