"""
Command line: /verif/check <ID> [--tier quick|thorough] [--repo /repo] [--replay file]

exit 0  every obligation discharged (KNOWN-FINDING lines allowed)
exit 1  at least one violation not listed in known_findings.json (VIOLATION lines)
exit 2  ANALYSIS-ERROR: undecided obligation, missing anchor, floor not met, checker regression,
        mypy unavailable, internal exception
"""
from __future__ import annotations

import argparse
import importlib
import json
import os
import sys
import traceback

from .model import Program, AnalysisError
from .report import Report, VIOLATED
from .rules.common import Ctx

PROPS = ["C01", "C02", "C03", "C04", "C05", "C06", "C07", "C08", "C09", "C10", "C11", "C12", "C13", "C14",
         "C15", "C16", "C17", "C19"]


def analyse(prop: str, repo: str, tier: str, seed: int, sources=None, quiet: bool = False, types=None) -> Report:
    rep = Report(prop, tier, seed, repo)
    srcs = sources if sources is not None else Program.read_sources(repo)
    prog = Program(srcs, repo)
    ctx = Ctx(prog, srcs, repo, rep, tier=tier, types=types)
    rep.analysed = {
        "root": repo,
        "modules": len(prog.modules),
        "functions": len(prog.funcs),
        "classes": len(prog.classes),
        "lines": sum(s.count("\n") + 1 for (_, s, _) in srcs.values()),
    }
    rep.analysed["normalisation"] = [f"{m.name}: {x}" for m in prog.modules.values() for x in m.inlined] or ["no helper inlined"]
    mod = importlib.import_module(f"ddsverif.rules.{prop.lower()}")
    try:
        mod.run(ctx)
    except AnalysisError as e:
        rep.error(f"{type(e).__name__}: {e}")
    if ctx._types is not None:
        rep.analysed["mypy_typed_expressions"] = ctx._types.n_exprs
    return rep


def selfcheck() -> int:
    """setup: the engine imports, /repo parses, every function has a CFG, mypy facts are available."""
    from .cfg import cfg_of
    from .flow import flow_of
    from .mtypes import Types

    repo = os.environ.get("VERIF_REPO", "/repo")
    srcs = Program.read_sources(repo)
    prog = Program(srcs, repo)
    for f in prog.funcs.values():
        cfg_of(f)
        flow_of(prog, f)
    t = Types(srcs, repo)
    if not t.available:
        print(f"ANALYSIS-ERROR mypy unavailable: {t.error}")
        return 2
    print(f"selfcheck ok: {len(prog.modules)} modules, {len(prog.funcs)} functions, {t.n_exprs} typed expressions")
    return 0


def main(argv=None) -> int:
    if (argv or sys.argv[1:])[:1] == ["--selfcheck"]:
        try:
            return selfcheck()
        except BaseException as e:
            print(f"ANALYSIS-ERROR selfcheck {type(e).__name__}: {e}")
            return 2
    ap = argparse.ArgumentParser()
    ap.add_argument("prop")
    ap.add_argument("--tier", default=os.environ.get("VERIF_TIER", "quick"), choices=["quick", "thorough"])
    ap.add_argument("--repo", default=os.environ.get("VERIF_REPO", "/repo"))
    ap.add_argument("--replay", default=None)
    ap.add_argument("--no-evidence", action="store_true")
    args = ap.parse_args(argv)
    prop = args.prop.upper()
    seed = int(os.environ.get("VERIF_SEED", "0") or 0)
    if prop not in PROPS:
        print(f"ANALYSIS-ERROR unknown or unclaimed property {prop}")
        return 2
    if not sys.executable.startswith("/venv/"):
        print(f"ANALYSIS-ERROR wrong interpreter {sys.executable}: checks run under /venv/bin/python")
        return 2
    try:
        rep = analyse(prop, args.repo, args.tier, seed)
        if args.tier == "thorough" and not args.replay:
            from . import variants

            variants.selftest(prop, args.repo, seed, rep)
        if args.replay:
            with open(args.replay) as f:
                want = json.load(f)
            hit = [
                o for o in rep.obligations
                if o.verdict == VIOLATED and o.rule == want.get("rule") and o.site == want.get("site")
                and (not want.get("construct") or o.key == want.get("construct"))
            ]
            if hit:
                for o in hit:
                    print(f"VIOLATION property={prop} replay={args.replay}")
                    print(f"  rule {o.rule} at {o.where} in {o.site}: {o.desc}")
                    for w in o.witness:
                        print(f"    {w}")
                return 1
            print(f"[{prop}] replayed obligation {want.get('rule')} at {want.get('site')}: not violated on the current tree")
            return 0
        return rep.finish(write_evidence=not args.no_evidence)
    except AnalysisError as e:
        print(f"ANALYSIS-ERROR property={prop} {type(e).__name__}: {e}")
        return 2
    except BaseException as e:  # never let a traceback look like a violation
        if isinstance(e, (KeyboardInterrupt, SystemExit)):
            raise
        tb = traceback.format_exc()
        print(f"ANALYSIS-ERROR property={prop} internal exception {type(e).__name__}: {e}")
        print(tb)
        return 2


if __name__ == "__main__":
    code = main()
    sys.stdout.flush()
    sys.stderr.flush()
    os._exit(code)
