"""
Propositional guards on the CFG.

A branch outcome (test, label) is read as a propositional formula over atoms (the sub-expressions of the test that are not and / or / not,
named by their text - or by a caller-supplied classifier).  `excluding_branches` returns the branch nodes whose outcome cannot hold in a
given "bad world" (a partial assignment of atoms): every path that avoids them can be taken in the bad world.  A target statement is
*guarded* when no path from the entry reaches it without passing such a node (or a node the caller adds, e.g. the effect that repairs the
bad world).  Boolean locals with one reaching definition are expanded (`ok = a or b` ... `if not ok:`).
"""
from __future__ import annotations

import ast
import itertools
from typing import Callable, Dict, List, Optional, Tuple

from .cfg import CFG, Node
from .flow import flow_of
from .model import Func, Program

Form = Tuple


def formula(prog: Program, f: Func, e: ast.AST, atom_name: Optional[Callable[[ast.AST], Optional[str]]] = None, atoms: Optional[Dict[str, int]] = None, depth: int = 0) -> Form:
    atoms = atoms if atoms is not None else {}
    if isinstance(e, ast.BoolOp):
        return ("and" if isinstance(e.op, ast.And) else "or", [formula(prog, f, v, atom_name, atoms, depth) for v in e.values])
    if isinstance(e, ast.UnaryOp) and isinstance(e.op, ast.Not):
        return ("not", formula(prog, f, e.operand, atom_name, atoms, depth))
    if isinstance(e, ast.Call) and isinstance(e.func, ast.Name) and e.func.id == "bool" and len(e.args) == 1 and not e.keywords:
        return formula(prog, f, e.args[0], atom_name, atoms, depth)
    if atom_name is not None:
        nm = atom_name(e)
        if nm is not None:
            if nm.startswith("!"):
                atoms.setdefault(nm[1:], len(atoms))
                return ("not", ("atom", nm[1:]))
            atoms.setdefault(nm, len(atoms))
            return ("atom", nm)
    if isinstance(e, ast.Name) and depth < 3:
        try:
            ds = flow_of(prog, f).defs_of_use(e)
        except Exception:
            ds = []
        if len(ds) == 1 and ds[0].value is not None and isinstance(ds[0].value, (ast.BoolOp, ast.UnaryOp, ast.Compare, ast.Call, ast.Name)) and getattr(ds[0], "kind", "assign") == "assign":
            v = ds[0].value
            if not isinstance(v, ast.Call) or atom_name is not None and atom_name(v) is not None or (isinstance(v.func, ast.Name) and v.func.id == "bool"):
                return formula(prog, f, v, atom_name, atoms, depth + 1)
    txt = ast.unparse(e)
    neg = False
    if isinstance(e, ast.Compare) and len(e.ops) == 1:
        if isinstance(e.ops[0], ast.IsNot):
            txt, neg = ast.unparse(ast.Compare(left=e.left, ops=[ast.Is()], comparators=e.comparators)), True
        elif isinstance(e.ops[0], ast.NotEq):
            txt, neg = ast.unparse(ast.Compare(left=e.left, ops=[ast.Eq()], comparators=e.comparators)), True
        elif isinstance(e.ops[0], ast.NotIn):
            txt, neg = ast.unparse(ast.Compare(left=e.left, ops=[ast.In()], comparators=e.comparators)), True
    atoms.setdefault(txt, len(atoms))
    return ("not", ("atom", txt)) if neg else ("atom", txt)


def value(fm: Form, asg: Dict[str, bool]) -> bool:
    k = fm[0]
    if k == "atom":
        return asg[fm[1]]
    if k == "not":
        return not value(fm[1], asg)
    if k == "and":
        return all(value(x, asg) for x in fm[1])
    return any(value(x, asg) for x in fm[1])


def outcome_possible(prog: Program, f: Func, test: ast.AST, label: str, world: Dict[str, bool], atom_name=None) -> bool:
    """can the outcome `label` ('T' / 'F') of `test` hold in a world where the atoms of `world` have the given values"""
    atoms: Dict[str, int] = {}
    fm = formula(prog, f, test, atom_name, atoms)
    free = [a for a in atoms if a not in world]
    if len(free) > 12:
        return True
    for bits in itertools.product([False, True], repeat=len(free)):
        asg = dict(zip(free, bits))
        asg.update(world)
        if value(fm, asg) == (label == "T"):
            return True
    return False


def excluding_branches(prog: Program, f: Func, cfg: CFG, world: Dict[str, bool], atom_name=None) -> List[Node]:
    out = []
    for b in cfg.nodes:
        if b.kind == "branch" and b.ast is not None and not isinstance(b.ast, (ast.For, ast.While, ast.AsyncFor)) and isinstance(b.ast, ast.expr):
            if not outcome_possible(prog, f, b.ast, b.label, world, atom_name):
                out.append(b)
    return out


def conj_possible(prog: Program, f: Func, conds, world: Dict[str, bool], atom_name=None) -> bool:
    """can all the (test, polarity) pairs hold together in a world where the atoms of `world` have the given values"""
    atoms: Dict[str, int] = {}
    fms = [(formula(prog, f, t, atom_name, atoms), bool(p)) for t, p in conds]
    free = [a for a in atoms if a not in world]
    if len(free) > 12:
        return True
    for bits in itertools.product([False, True], repeat=len(free)):
        asg = dict(zip(free, bits))
        asg.update(world)
        if all(value(fm, asg) == p for fm, p in fms):
            return True
    return False
