"""
Propositional guards on the CFG.

A branch outcome (test, label) is read as a propositional formula over atoms (the sub-expressions of the test that are not and / or / not,
named by their text - or by a caller-supplied classifier).  `excluding_branches` returns the branch nodes whose outcome cannot hold in a
given "bad world" (a partial assignment of atoms): every path that avoids them can be taken in the bad world.  A target statement is
*guarded* when no path from the entry reaches it without passing such a node (or a node the caller adds, e.g. the effect that repairs the
bad world).  Boolean locals with one reaching definition are expanded (`ok = a or b` ... `if not ok:`).
"""
from __future__ import annotations

import ast
import itertools
from typing import Callable, Dict, List, Optional, Tuple

from .cfg import CFG, Node
from .flow import flow_of
from .model import Func, Program

Form = Tuple


def formula(prog: Program, f: Func, e: ast.AST, atom_name: Optional[Callable[[ast.AST], Optional[str]]] = None, atoms: Optional[Dict[str, int]] = None, depth: int = 0) -> Form:
    atoms = atoms if atoms is not None else {}
    if isinstance(e, ast.BoolOp):
        return ("and" if isinstance(e.op, ast.And) else "or", [formula(prog, f, v, atom_name, atoms, depth) for v in e.values])
    if isinstance(e, ast.UnaryOp) and isinstance(e.op, ast.Not):
        return ("not", formula(prog, f, e.operand, atom_name, atoms, depth))
    if isinstance(e, ast.Call) and isinstance(e.func, ast.Name) and e.func.id == "bool" and len(e.args) == 1 and not e.keywords:
        return formula(prog, f, e.args[0], atom_name, atoms, depth)
    if atom_name is not None:
        nm = atom_name(e)
        if nm is not None:
            if nm.startswith("!"):
                atoms.setdefault(nm[1:], len(atoms))
                return ("not", ("atom", nm[1:]))
            atoms.setdefault(nm, len(atoms))
            return ("atom", nm)
    if isinstance(e, ast.Name) and depth < 3:
        try:
            ds = flow_of(prog, f).defs_of_use(e)
        except Exception:
            ds = []
        if len(ds) == 1 and ds[0].value is not None and isinstance(ds[0].value, (ast.BoolOp, ast.UnaryOp, ast.Compare, ast.Call, ast.Name)) and getattr(ds[0], "kind", "assign") == "assign":
            v = ds[0].value
            if not isinstance(v, ast.Call) or atom_name is not None and atom_name(v) is not None or (isinstance(v.func, ast.Name) and v.func.id == "bool"):
                return formula(prog, f, v, atom_name, atoms, depth + 1)
    txt = ast.unparse(e)
    neg = False
    if isinstance(e, ast.Compare) and len(e.ops) == 1:
        if isinstance(e.ops[0], ast.IsNot):
            txt, neg = ast.unparse(ast.Compare(left=e.left, ops=[ast.Is()], comparators=e.comparators)), True
        elif isinstance(e.ops[0], ast.NotEq):
            txt, neg = ast.unparse(ast.Compare(left=e.left, ops=[ast.Eq()], comparators=e.comparators)), True
        elif isinstance(e.ops[0], ast.NotIn):
            txt, neg = ast.unparse(ast.Compare(left=e.left, ops=[ast.In()], comparators=e.comparators)), True
    atoms.setdefault(txt, len(atoms))
    return ("not", ("atom", txt)) if neg else ("atom", txt)


def value(fm: Form, asg: Dict[str, bool]) -> bool:
    k = fm[0]
    if k == "atom":
        return asg[fm[1]]
    if k == "not":
        return not value(fm[1], asg)
    if k == "and":
        return all(value(x, asg) for x in fm[1])  # ("and", []) is the constant True
    return any(value(x, asg) for x in fm[1])  # ("or", []) is the constant False


def outcome_possible(prog: Program, f: Func, test: ast.AST, label: str, world: Dict[str, bool], atom_name=None) -> bool:
    """can the outcome `label` ('T' / 'F') of `test` hold in a world where the atoms of `world` have the given values"""
    atoms: Dict[str, int] = {}
    fm = formula(prog, f, test, atom_name, atoms)
    free = [a for a in atoms if a not in world]
    if len(free) > 12:
        return True
    for bits in itertools.product([False, True], repeat=len(free)):
        asg = dict(zip(free, bits))
        asg.update(world)
        if value(fm, asg) == (label == "T"):
            return True
    return False


def excluding_branches(prog: Program, f: Func, cfg: CFG, world: Dict[str, bool], atom_name=None) -> List[Node]:
    out = []
    for b in cfg.nodes:
        if b.kind == "branch" and b.ast is not None and not isinstance(b.ast, (ast.For, ast.While, ast.AsyncFor)) and isinstance(b.ast, ast.expr):
            if not outcome_possible(prog, f, b.ast, b.label, world, atom_name):
                out.append(b)
    return out


def conj_possible(prog: Program, f: Func, conds, world: Dict[str, bool], atom_name=None) -> bool:
    """can all the (test, polarity) pairs hold together in a world where the atoms of `world` have the given values"""
    atoms: Dict[str, int] = {}
    fms = [(formula(prog, f, t, atom_name, atoms), bool(p)) for t, p in conds]
    free = [a for a in atoms if a not in world]
    if len(free) > 12:
        return True
    for bits in itertools.product([False, True], repeat=len(free)):
        asg = dict(zip(free, bits))
        asg.update(world)
        if all(value(fm, asg) == p for fm, p in fms):
            return True
    return False


# ---- path-sensitive form: boolean locals with several definitions ------------------------------------------------------------------------

def _stored_names(st: ast.AST) -> List[str]:
    out: List[str] = []
    for n in ast.walk(st):
        if isinstance(n, ast.Name) and isinstance(n.ctx, (ast.Store, ast.Del)):
            out.append(n.id)
        elif isinstance(n, (ast.FunctionDef, ast.AsyncFunctionDef, ast.ClassDef)):
            out.append(n.name)
    return out


class _PathState:
    __slots__ = ("env", "ver", "conds")

    def __init__(self, env: Dict[str, Form], ver: Dict[str, int], conds: List[Tuple[Form, bool]]):
        self.env, self.ver, self.conds = env, ver, conds

    def copy(self) -> "_PathState":
        return _PathState(dict(self.env), dict(self.ver), list(self.conds))


def _form_env(e: ast.AST, st: _PathState, atom_name, atoms: Dict[str, int]) -> Form:
    if isinstance(e, ast.BoolOp):
        return ("and" if isinstance(e.op, ast.And) else "or", [_form_env(v, st, atom_name, atoms) for v in e.values])
    if isinstance(e, ast.UnaryOp) and isinstance(e.op, ast.Not):
        return ("not", _form_env(e.operand, st, atom_name, atoms))
    if isinstance(e, ast.IfExp):
        c = _form_env(e.test, st, atom_name, atoms)
        return ("or", [("and", [c, _form_env(e.body, st, atom_name, atoms)]), ("and", [("not", c), _form_env(e.orelse, st, atom_name, atoms)])])
    if isinstance(e, ast.Constant) and isinstance(e.value, bool):
        return ("and", []) if e.value else ("or", [])
    if isinstance(e, ast.Call) and isinstance(e.func, ast.Name) and e.func.id == "bool" and len(e.args) == 1 and not e.keywords:
        return _form_env(e.args[0], st, atom_name, atoms)
    if isinstance(e, ast.Name) and e.id in st.env:
        return st.env[e.id]
    neg = False
    nm = atom_name(e) if atom_name is not None else None
    if nm is not None:
        if nm.startswith("!"):
            nm, neg = nm[1:], True
        atoms.setdefault(nm, len(atoms))  # a proposition the caller names is one proposition wherever it is written
        return ("not", ("atom", nm)) if neg else ("atom", nm)
    else:
        x = e
        if isinstance(e, ast.Compare) and len(e.ops) == 1:
            swap = {ast.IsNot: ast.Is, ast.NotEq: ast.Eq, ast.NotIn: ast.In}.get(type(e.ops[0]))
            if swap is not None:
                x, neg = ast.Compare(left=e.left, ops=[swap()], comparators=e.comparators), True
        nm = ast.unparse(x)
    # the same text after a store to one of its names is another proposition
    vs = sorted({(n.id, st.ver[n.id]) for n in ast.walk(e) if isinstance(n, ast.Name) and st.ver.get(n.id)})
    if vs:
        nm += "@" + ",".join(f"{a}{b}" for a, b in vs)
    atoms.setdefault(nm, len(atoms))
    return ("not", ("atom", nm)) if neg else ("atom", nm)


def _sat(conds: List[Tuple[Form, bool]], atoms: Dict[str, int], world: Dict[str, bool]) -> bool:
    used: Dict[str, int] = {}

    def collect(fm: Form) -> None:
        if fm[0] == "atom":
            used.setdefault(fm[1], 0)
        elif fm[0] == "not":
            collect(fm[1])
        else:
            for x in fm[1]:
                collect(x)
    for fm, _p in conds:
        collect(fm)
    free = [a for a in used if a not in world]
    if len(free) > 14:
        return True
    for bits in itertools.product([False, True], repeat=len(free)):
        asg = dict(zip(free, bits))
        asg.update(world)
        if all(value(fm, asg) == p for fm, p in conds):
            return True
    return False


def feasible_path(prog: Program, f: Func, cfg: CFG, dsts, world: Dict[str, bool], atom_name=None, avoid=(), budget: int = 20000) -> Optional[List[Node]]:
    """A path from the entry to one of `dsts` whose branch outcomes can hold together in a world where the atoms of `world` have the given
    values - or None.  Unlike `excluding_branches` the outcomes are read along the path: a boolean local means what its latest assignment
    on that path gave it (`ok = p.is_absolute()` in one arm, `ok = p[0] == '/'` in the other, `if not ok: raise` after both).  Every node is
    entered at most twice on a path; when the budget runs out the answer is the plain graph path (feasibility is then not refuted)."""
    dst_ids = {n.id for n in dsts}
    avoid_ids = {n.id for n in avoid}
    atoms: Dict[str, int] = {}
    steps = [0]

    def go(n: Node, st: _PathState, seen: Dict[int, int], path: List[Node]) -> Optional[List[Node]]:
        steps[0] += 1
        if steps[0] > budget:
            raise OverflowError
        if n.id in avoid_ids:
            return None
        path = path + [n]
        if n.kind == "branch" and n.ast is not None and isinstance(n.ast, ast.expr) and n.label in ("T", "F"):
            fm = _form_env(n.ast, st, atom_name, atoms)
            st = st.copy()
            st.conds.append((fm, n.label == "T"))
            if not _sat(st.conds, atoms, world):
                return None
        if n.id in dst_ids:
            return path
        if n.kind in ("stmt", "loop", "handler") and n.ast is not None:
            a = n.ast
            tgt = None
            if isinstance(a, ast.Assign) and len(a.targets) == 1 and isinstance(a.targets[0], ast.Name):
                tgt, val = a.targets[0].id, a.value
            elif isinstance(a, ast.AnnAssign) and isinstance(a.target, ast.Name) and a.value is not None:
                tgt, val = a.target.id, a.value
            stored = _stored_names(a.target) if isinstance(a, (ast.For, ast.AsyncFor)) else ([a.name] if isinstance(a, ast.ExceptHandler) and a.name else _stored_names(a) if isinstance(a, ast.stmt) and not isinstance(a, (ast.For, ast.AsyncFor, ast.While, ast.If, ast.With, ast.Try)) else _stored_names(a) if isinstance(a, ast.withitem) else [])
            # a method called on a name (`segments.append(s)`) may change what its truth value was known to be
            if isinstance(a, ast.Expr) and isinstance(a.value, ast.Call) and isinstance(a.value.func, ast.Attribute) and isinstance(a.value.func.value, ast.Name) \
                    and a.value.func.value.id in st.env:
                st = st.copy()
                nm_ = a.value.func.value.id
                st.env.pop(nm_, None)
                st.ver[nm_] = st.ver.get(nm_, 0) + 1
            if stored or tgt:
                st = st.copy()
                if tgt is not None and (isinstance(val, (ast.List, ast.Tuple, ast.Set, ast.Dict)) or (isinstance(val, ast.Constant) and not isinstance(val.value, bool))):
                    # the truth value of a display / constant is known: `segments = []` makes `not segments` hold
                    if isinstance(val, ast.Constant):
                        truth = bool(val.value)
                    else:
                        truth = bool(val.keys if isinstance(val, ast.Dict) else val.elts)
                    st.ver[tgt] = st.ver.get(tgt, 0) + 1
                    st.env[tgt] = ("and", []) if truth else ("or", [])
                    stored = [x for x in stored if x != tgt]
                elif tgt is not None and isinstance(val, (ast.BoolOp, ast.UnaryOp, ast.Compare, ast.Call, ast.Name, ast.IfExp, ast.Constant)) and (not isinstance(val, ast.Constant) or isinstance(val.value, bool)):
                    fm = _form_env(val, st, atom_name, atoms)
                    st.ver[tgt] = st.ver.get(tgt, 0) + 1
                    st.env[tgt] = fm
                    stored = [x for x in stored if x != tgt]
                for nm in stored:
                    st.env.pop(nm, None)
                    st.ver[nm] = st.ver.get(nm, 0) + 1
        for s, _lab in n.succ:
            k = seen.get(s.id, 0)
            if k >= 2:
                continue
            seen2 = dict(seen)
            seen2[s.id] = k + 1
            r = go(s, st, seen2, path)
            if r is not None:
                return r
        return None

    import sys
    old = sys.getrecursionlimit()
    sys.setrecursionlimit(max(old, 20000))
    try:
        return go(cfg.entry, _PathState({}, {}, []), {cfg.entry.id: 1}, [])
    except OverflowError:
        return cfg.find_path([cfg.entry], list(dsts), avoid=list(avoid) + excluding_branches(prog, f, cfg, world, atom_name))
    finally:
        sys.setrecursionlimit(old)
