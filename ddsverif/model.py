"""
Program model: parses every module of the analysed package into an index of
modules, classes, functions (nested ones included) and import tables, and resolves
names and call targets *statically* (nothing is imported or executed).

The model can be built from the working tree (``Program.from_dir``) or from an
in-memory ``{module name: source}`` map (used for the variant corpus).
"""
from __future__ import annotations

import ast
import hashlib
import os
from typing import Dict, List, Optional, Tuple, Iterable, Set, Union, Any


API_MODULE = "dds._api"


class AnalysisError(Exception):
    """The analysis cannot decide (missing anchor, unsupported shape...). Exit code 2."""


class AnchorError(AnalysisError):
    pass


FuncNode = Union[ast.FunctionDef, ast.AsyncFunctionDef]


def stmt_key(node: ast.AST) -> str:
    """Position-independent key of a construct (stable under re-formatting)."""
    return hashlib.sha256(ast.dump(node, include_attributes=False).encode()).hexdigest()[:16]


def unparse(node: Optional[ast.AST], limit: int = 120) -> str:
    if node is None:
        return "<none>"
    try:
        s = ast.unparse(node)
    except Exception:  # pragma: no cover
        s = ast.dump(node)
    s = " ".join(s.split())
    return s if len(s) <= limit else s[: limit - 3] + "..."


class _NotConst:
    def __repr__(self) -> str:
        return "NOT_CONST"


NOT_CONST = _NotConst()


class Module:
    def __init__(self, name: str, relpath: str, source: str, is_pkg: bool, normalise: Optional[Set[str]] = None,
                 role_names: Optional[Set[str]] = None, foreign_attrs: Optional[Set[str]] = None, pkg_consts: Any = None, lit_consts: Any = None):
        self.name = name
        self.relpath = relpath
        self.source = source
        self.is_pkg = is_pkg
        self.tree = ast.parse(source, filename=relpath)
        self.inlined: List[str] = []
        # functions of the pinned tree under another name / in another place (same shape with identifiers blanked), noted before
        # any normalisation changes their bodies: they are not "new helpers"
        renamed_known: Set[str] = set()
        if foreign_attrs is not None:
            from .inline import fingerprint
            from .known_names import SHAPES as _SHAPES

            for st in self.tree.body:
                if isinstance(st, ast.FunctionDef) and len(st.body) >= 2 and fingerprint(st) in _SHAPES:
                    renamed_known.add(st.name)
                elif isinstance(st, ast.ClassDef):
                    for m_ in st.body:
                        if isinstance(m_, ast.FunctionDef) and len(m_.body) >= 2 and fingerprint(m_) in _SHAPES:
                            renamed_known.add(f"{st.name}.{m_.name}")
        enums, path_consts = pkg_consts if pkg_consts is not None else ({}, {})
        imported: Dict[str, ast.AST] = {}
        for st in self.tree.body:
            if isinstance(st, ast.ImportFrom) and st.level >= 0:
                for other, cs in path_consts.items():
                    if other != name and (st.module or "").split(".")[-1] == other.split(".")[-1]:
                        for a in st.names:
                            if a.name in cs:
                                imported[a.asname or a.name] = cs[a.name]
        if "from_list" in source or imported:
            from .inline import expand_path_constants

            self.inlined += expand_path_constants(self.tree, enums, imported)
        if lit_consts:
            from .inline import expand_literal_constants

            imp_l: Dict[str, ast.Constant] = {}
            for st in self.tree.body:
                if isinstance(st, ast.ImportFrom):
                    for other, cs in lit_consts.items():
                        if other != name and (st.module or "").split(".")[-1] == other.split(".")[-1]:
                            for a in st.names:
                                if a.name in cs:
                                    imp_l[a.asname or a.name] = cs[a.name]
            self.inlined += expand_literal_constants(self.tree, lit_consts.get(name, {}), imp_l)
        if "for (" in source or "for " in source and " break" in source:
            from .inline import unroll_dispatch_tables

            self.inlined += unroll_dispatch_tables(self.tree)
        if normalise is not None:
            from .inline import normalise as _normalise

            self.inlined += _normalise(self.tree, normalise, role_names or set())
        if foreign_attrs is not None:
            from .inline import normalise_new, expand_context_managers
            from .known_names import KNOWN, SHAPES

            if "contextmanager" in source:
                self.inlined += expand_context_managers(self.tree, set(KNOWN.get(name, [])))
            if "__enter__" in source:
                from .inline import expand_cm_classes

                self.inlined += expand_cm_classes(self.tree, set(KNOWN.get(name, [])) | renamed_known)
            if "yield" in source:
                from .inline import collect_generators

                self.inlined += collect_generators(self.tree, set(KNOWN.get(name, [])) | renamed_known)
            self.inlined += normalise_new(self.tree, set(KNOWN.get(name, [])) | renamed_known, foreign_attrs, set(SHAPES))
            from .inline import simplify

            self.inlined += ["simplified: " + x for x in simplify(self.tree)]
        self.imports: Dict[str, str] = {}
        self.funcs: Dict[str, "Func"] = {}
        self.classes: Dict[str, "Class"] = {}
        self.assigns: Dict[str, List[ast.AST]] = {}
        self.parent: Dict[ast.AST, ast.AST] = {}
        for p in ast.walk(self.tree):
            for c in ast.iter_child_nodes(p):
                self.parent[c] = p

    @property
    def package(self) -> str:
        return self.name if self.is_pkg else self.name.rpartition(".")[0]

    def __repr__(self) -> str:
        return f"<Module {self.name}>"


class Class:
    def __init__(self, qname: str, module: Module, node: ast.ClassDef):
        self.qname = qname
        self.module = module
        self.node = node
        self.name = node.name
        self.methods: Dict[str, "Func"] = {}
        self.bases: List[str] = []  # resolved dotted names

    def __repr__(self) -> str:
        return f"<Class {self.qname}>"


class Func:
    def __init__(
        self,
        qname: str,
        module: Module,
        node: FuncNode,
        cls: Optional[Class],
        parent: Optional["Func"],
    ):
        self.qname = qname
        self.module = module
        self.node = node
        self.cls = cls
        self.parent = parent
        self.name = node.name
        self.nested: Dict[str, "Func"] = {}
        self.local_imports: Dict[str, str] = {}
        a = node.args
        self.params: List[str] = [x.arg for x in a.posonlyargs + a.args]
        if a.vararg:
            self.params.append(a.vararg.arg)
        self.params += [x.arg for x in a.kwonlyargs]
        if a.kwarg:
            self.params.append(a.kwarg.arg)
        self.decorators = [unparse(d) for d in node.decorator_list]

    @property
    def is_static(self) -> bool:
        return any(d.endswith("staticmethod") for d in self.decorators)

    @property
    def is_classmethod(self) -> bool:
        return any(d.endswith("classmethod") for d in self.decorators)

    def positional_params(self) -> List[str]:
        """Parameters as seen by a caller (self / cls dropped for methods)."""
        ps = [x.arg for x in self.node.args.posonlyargs + self.node.args.args]
        if self.cls is not None and not self.is_static and ps:
            ps = ps[1:]
        return ps

    def own_nodes(self) -> Iterable[ast.AST]:
        """All AST nodes of the body, not descending into nested defs / classes (lambdas included)."""
        stack: List[ast.AST] = list(self.node.body)
        while stack:
            n = stack.pop()
            yield n
            if isinstance(n, (ast.FunctionDef, ast.AsyncFunctionDef, ast.ClassDef)):
                continue
            stack.extend(ast.iter_child_nodes(n))

    def loc(self, node: Optional[ast.AST] = None) -> str:
        n = node if node is not None else self.node
        return f"{self.module.relpath}:{getattr(n, 'lineno', '?')}"

    def __repr__(self) -> str:
        return f"<Func {self.qname}>"


class Program:
    def __init__(self, sources: Dict[str, Tuple[str, str, bool]], root_desc: str):
        """sources: module name -> (relpath, source text, is_package)"""
        self.root_desc = root_desc
        self.modules: Dict[str, Module] = {}
        self.funcs: Dict[str, Func] = {}
        self.classes: Dict[str, Class] = {}
        self.func_of_node: Dict[ast.AST, Func] = {}
        # private names of a normalised module that other modules refer to are never inlined away
        norm_mods = (API_MODULE, "dds.fun_args")
        refs: Dict[str, Set[str]] = {m: set() for m in norm_mods}
        for name, (rel, src, is_pkg) in sorted(sources.items()):
            for target in norm_mods:
                short = target.split(".")[-1]
                if name != target and short in src:
                    try:
                        t = ast.parse(src)
                    except SyntaxError:
                        continue
                    for n in ast.walk(t):
                        if isinstance(n, ast.ImportFrom) and (n.module or "").split(".")[-1] == short:
                            refs[target].update(a.name for a in n.names)
                        elif isinstance(n, ast.Attribute) and isinstance(n.value, (ast.Name, ast.Attribute)) and unparse(n.value).split(".")[-1] == short:
                            refs[target].add(n.attr)
        api_refs = refs[API_MODULE]
        role_names: Set[str] = set()
        for name, (rel, src, is_pkg) in sorted(sources.items()):
            try:
                if name == "dds.store":
                    for n in ast.parse(src).body:
                        if isinstance(n, ast.ClassDef) and n.name == "Store":
                            role_names.update(x.name for x in n.body if isinstance(x, ast.FunctionDef) and not x.name.startswith("_"))
                elif name == API_MODULE:
                    for n in ast.parse(src).body:
                        if isinstance(n, ast.ImportFrom) and "introspect" in (n.module or ""):
                            role_names.update(a.asname or a.name for a in n.names if not (a.asname or a.name).startswith("_"))
            except SyntaxError:
                pass
        # modules whose private statement-level helpers are inlined before the rules run, with the calls that make a
        # helper role-bearing there (see inline.py)
        norm: Dict[str, Set[str]] = {API_MODULE: role_names, "dds.fun_args": {"dds_hash"}}
        # private names that a module mentions and does not define itself (imports, attributes): a new helper with such a
        # name may be used from outside its module and is not expanded
        mentions: Dict[str, Set[str]] = {}
        for name, (rel, src, is_pkg) in sorted(sources.items()):
            ms: Set[str] = set()
            try:
                for n in ast.walk(ast.parse(src)):
                    if isinstance(n, ast.Attribute) and n.attr.startswith("_"):
                        ms.add(n.attr)
                    elif isinstance(n, ast.ImportFrom):
                        ms.update(a.name for a in n.names if a.name.startswith("_"))
            except SyntaxError:
                pass
            mentions[name] = ms
        from .inline import package_constants
        pkg_consts = package_constants(sources)
        from .inline import literal_constants
        from .known_names import KNOWN_VARS
        lit_consts = literal_constants(sources, KNOWN_VARS)
        for name, (rel, src, is_pkg) in sorted(sources.items()):
            foreign: Set[str] = set()
            for other, ms in mentions.items():
                if other != name:
                    foreign |= ms
            try:
                if name in norm:
                    self.modules[name] = Module(name, rel, src, is_pkg, normalise=refs.get(name, set()), role_names=norm[name], foreign_attrs=foreign, pkg_consts=pkg_consts, lit_consts=lit_consts)
                else:
                    self.modules[name] = Module(name, rel, src, is_pkg, foreign_attrs=foreign, pkg_consts=pkg_consts, lit_consts=lit_consts)
            except SyntaxError as e:
                raise AnalysisError(f"cannot parse {rel}: {e}")
        from .inline import expand_thin_record_methods
        from .known_names import KNOWN as _KNOWN
        for mname_, lg_ in expand_thin_record_methods({n_: m_.tree for n_, m_ in self.modules.items() if n_.startswith("dds") and not n_.startswith("dds_tests")},
                                                      {k_: set(v_) for k_, v_ in _KNOWN.items()}).items():
            self.modules[mname_].inlined += sorted(set(lg_))
            mod_ = self.modules[mname_]
            mod_.parent = {}
            for p_ in ast.walk(mod_.tree):
                for c_ in ast.iter_child_nodes(p_):
                    mod_.parent[c_] = p_
        from .inline import flatten_attribute_records
        for mname_, mod_ in self.modules.items():
            if mname_.startswith("dds") and not mname_.startswith("dds_tests") and ("dataclass" in mod_.source or "NamedTuple" in mod_.source):
                lg_ = flatten_attribute_records(mod_.tree, set(_KNOWN.get(mname_, [])))
                if lg_:
                    mod_.inlined += lg_
                    mod_.parent = {}
                    for p_ in ast.walk(mod_.tree):
                        for c_ in ast.iter_child_nodes(p_):
                            mod_.parent[c_] = p_
        for m in self.modules.values():
            self._index_module(m)
        for c in self.classes.values():
            c.bases = [b for b in (self.dotted(c.module, x) for x in c.node.bases) if b]
        self._subclasses: Dict[str, Set[str]] = {}
        for c in self.classes.values():
            for b in self.all_bases(c.qname):
                self._subclasses.setdefault(b, set()).add(c.qname)

    # ------------------------------------------------------------------ building
    @staticmethod
    def read_sources(repo: str, package: str = "dds") -> Dict[str, Tuple[str, str, bool]]:
        res: Dict[str, Tuple[str, str, bool]] = {}
        base = os.path.join(repo, package)
        if not os.path.isdir(base):
            raise AnalysisError(f"package directory {base} not found")
        for dirpath, dirnames, filenames in os.walk(base):
            dirnames[:] = sorted(d for d in dirnames if d != "__pycache__")
            for fn in sorted(filenames):
                if not fn.endswith(".py"):
                    continue
                full = os.path.join(dirpath, fn)
                rel = os.path.relpath(full, repo)
                parts = rel[:-3].split(os.sep)
                is_pkg = parts[-1] == "__init__"
                if is_pkg:
                    parts = parts[:-1]
                with open(full, "r", encoding="utf-8") as f:
                    res[".".join(parts)] = (rel, f.read(), is_pkg)
        return res

    @classmethod
    def from_dir(cls, repo: str, package: str = "dds") -> "Program":
        return cls(cls.read_sources(repo, package), repo)

    def _index_module(self, m: Module) -> None:
        def rel_import(level: int, mod: Optional[str]) -> str:
            if level == 0:
                return mod or ""
            base = m.package.split(".")
            if level > 1:
                base = base[: len(base) - (level - 1)]
            return ".".join(base + ([mod] if mod else []))

        def handle_import(node: ast.AST, table: Dict[str, str]) -> None:
            if isinstance(node, ast.Import):
                for a in node.names:
                    if a.asname:
                        table[a.asname] = a.name
                    else:
                        table[a.name.split(".")[0]] = a.name.split(".")[0]
            elif isinstance(node, ast.ImportFrom):
                src = rel_import(node.level, node.module)
                for a in node.names:
                    table[a.asname or a.name] = f"{src}.{a.name}" if src else a.name

        def visit_body(body: List[ast.stmt], prefix: str, cls: Optional[Class], parent: Optional[Func]) -> None:
            for st in body:
                if isinstance(st, (ast.FunctionDef, ast.AsyncFunctionDef)):
                    q = f"{prefix}.{st.name}"
                    f = Func(q, m, st, cls, parent)
                    self.funcs[q] = f
                    self.func_of_node[st] = f
                    if parent is not None:
                        parent.nested[st.name] = f
                    elif cls is not None:
                        cls.methods[st.name] = f
                    else:
                        m.funcs[st.name] = f
                    # nested defs & local imports, anywhere in the body
                    inner: List[ast.stmt] = []
                    for n in f.own_nodes():
                        if isinstance(n, (ast.FunctionDef, ast.AsyncFunctionDef)):
                            inner.append(n)
                        elif isinstance(n, (ast.Import, ast.ImportFrom)):
                            handle_import(n, f.local_imports)
                    visit_body(inner, q, cls if False else None, f)
                elif isinstance(st, ast.ClassDef):
                    q = f"{prefix}.{st.name}"
                    c = Class(q, m, st)
                    self.classes[q] = c
                    if parent is None and cls is None:
                        m.classes[st.name] = c
                    visit_body(st.body, q, c, None)
                elif parent is None and cls is None:
                    if isinstance(st, (ast.Import, ast.ImportFrom)):
                        handle_import(st, m.imports)
                    elif isinstance(st, ast.Assign):
                        for t in st.targets:
                            if isinstance(t, ast.Name):
                                m.assigns.setdefault(t.id, []).append(st)
                    elif isinstance(st, ast.AnnAssign) and isinstance(st.target, ast.Name):
                        m.assigns.setdefault(st.target.id, []).append(st)
                    elif isinstance(st, (ast.Try, ast.If)):
                        # imports under try/except or if at module level
                        for n in ast.walk(st):
                            if isinstance(n, (ast.Import, ast.ImportFrom)):
                                handle_import(n, m.imports)

        visit_body(m.tree.body, m.name, None, None)

    # ------------------------------------------------------------------ lookups
    def func(self, qname: str) -> Func:
        f = self.funcs.get(qname)
        if f is None:
            raise AnchorError(f"anchor function {qname} not found")
        return f

    def cls(self, qname: str) -> Class:
        c = self.classes.get(qname)
        if c is None:
            raise AnchorError(f"anchor class {qname} not found")
        return c

    def module(self, name: str) -> Module:
        m = self.modules.get(name)
        if m is None:
            raise AnchorError(f"anchor module {name} not found")
        return m

    def enclosing_func(self, m: Module, node: ast.AST) -> Optional[Func]:
        cur: Optional[ast.AST] = node
        while cur is not None:
            cur = m.parent.get(cur)
            if cur is not None and cur in self.func_of_node:
                return self.func_of_node[cur]
        return None

    def enclosing_stmt(self, m: Module, node: ast.AST) -> ast.AST:
        cur = node
        while not isinstance(cur, ast.stmt):
            cur = m.parent[cur]
        return cur

    def all_bases(self, cq: str) -> List[str]:
        out: List[str] = []
        seen: Set[str] = set()
        stack = [cq]
        while stack:
            q = stack.pop()
            c = self.classes.get(q)
            if c is None:
                continue
            for b in c.bases:
                if b not in seen:
                    seen.add(b)
                    out.append(b)
                    stack.append(b)
        return out

    def subclasses(self, cq: str) -> Set[str]:
        return set(self._subclasses.get(cq, set()))

    def find_method(self, cq: str, name: str) -> Optional[Func]:
        """Method lookup along the MRO (package classes only)."""
        for q in [cq] + self.all_bases(cq):
            c = self.classes.get(q)
            if c is not None and name in c.methods:
                return c.methods[name]
        return None

    def implementations(self, cq: str, name: str) -> List[Func]:
        """The method as found for cq plus every override in subclasses (class-hierarchy analysis)."""
        res: List[Func] = []
        f = self.find_method(cq, name)
        if f is not None:
            res.append(f)
        for s in sorted(self.subclasses(cq)):
            c = self.classes[s]
            if name in c.methods and c.methods[name] not in res:
                res.append(c.methods[name])
        return res

    def classes_defining(self, name: str) -> List[Class]:
        return [c for c in self.classes.values() if name in c.methods]

    # ------------------------------------------------------------------ name resolution
    def _canon(self, dotted: str, depth: int = 0) -> str:
        """Follow re-exports inside the package: dds.x.A where dds.x imports A from elsewhere."""
        if depth > 8:
            return dotted
        if dotted in self.funcs or dotted in self.classes or dotted in self.modules:
            return dotted
        parts = dotted.split(".")
        for i in range(len(parts) - 1, 0, -1):
            mod = ".".join(parts[:i])
            if mod in self.modules:
                m = self.modules[mod]
                head = parts[i]
                rest = parts[i + 1 :]
                if head in m.funcs or head in m.classes:
                    return dotted
                if head in m.imports:
                    return self._canon(".".join([m.imports[head]] + rest), depth + 1)
                return dotted
        return dotted

    def const_of(self, scope: Union[Module, Func], name: str) -> Any:
        """the literal bound once, at module level, to this name as seen from scope (through imports inside the package); NOT_CONST otherwise"""
        f: Optional[Func] = scope if isinstance(scope, Func) else None
        if f is not None and self.is_local(f, name):
            return NOT_CONST
        d = self.resolve_name(scope, name)
        if d is None:
            return NOT_CONST
        mod, _, nm = d.rpartition(".")
        m = self.modules.get(mod)
        if m is None or nm not in m.assigns or len(m.assigns[nm]) != 1:
            return NOT_CONST
        v = getattr(m.assigns[nm][0], "value", None)
        if isinstance(v, ast.Constant) and isinstance(v.value, (str, bytes, int, float, bool)):
            return v.value
        return NOT_CONST

    def func(self, qname: str) -> Optional[Func]:
        """the function known under this dotted name - where it is defined, or where that name is imported from (a private
        function moved to another module and imported back is still `old_module.name`)"""
        f = self.funcs.get(qname)
        if f is None:
            f = self.funcs.get(self._canon(qname))
        return f

    def cls(self, qname: str) -> Optional[Class]:
        c = self.classes.get(qname)
        if c is None:
            c = self.classes.get(self._canon(qname))
        return c

    def resolve_name(self, scope: Union[Module, Func], name: str) -> Optional[str]:
        """Dotted target of a bare name as seen from scope (function-local imports and nested defs first)."""
        f: Optional[Func] = scope if isinstance(scope, Func) else None
        m = scope.module if isinstance(scope, Func) else scope
        while f is not None:
            if name in f.nested:
                return f.nested[name].qname
            if name in f.local_imports:
                return self._canon(f.local_imports[name])
            f = f.parent
        if name in m.funcs:
            return m.funcs[name].qname
        if name in m.classes:
            return m.classes[name].qname
        if name in m.imports:
            return self._canon(m.imports[name])
        if name in m.assigns:
            return f"{m.name}.{name}"
        return None

    def dotted(self, scope: Union[Module, Func], expr: ast.AST) -> Optional[str]:
        """Dotted name of a Name / Attribute chain, through the import tables. None when not a pure chain."""
        if isinstance(expr, ast.Name):
            f: Optional[Func] = scope if isinstance(scope, Func) else None
            # parameters and locals shadow module names
            if f is not None and self.is_local(f, expr.id):
                return None
            r = self.resolve_name(scope, expr.id)
            return r if r is not None else expr.id  # builtins & unknown globals keep their name
        if isinstance(expr, ast.Attribute):
            base = self.dotted(scope, expr.value)
            if base is None:
                return None
            return self._canon(f"{base}.{expr.attr}")
        return None

    _local_cache: Dict[str, Set[str]] = {}

    def local_names(self, f: Func) -> Set[str]:
        key = f.qname + "@" + str(id(self))
        got = self._local_cache.get(key)
        if got is not None:
            return got
        names: Set[str] = set(f.params)
        glob: Set[str] = set()
        for n in f.own_nodes():
            if isinstance(n, ast.Name) and isinstance(n.ctx, (ast.Store, ast.Del)):
                names.add(n.id)
            elif isinstance(n, ast.Global):
                glob.update(n.names)
            elif isinstance(n, ast.ExceptHandler) and n.name:
                names.add(n.name)
        # comprehension targets are Store names too; fine (they shadow as well)
        names -= glob
        names -= set(f.nested.keys())
        names -= set(f.local_imports.keys())
        self._local_cache[key] = names
        return names

    def is_local(self, f: Func, name: str) -> bool:
        cur: Optional[Func] = f
        while cur is not None:
            if name in self.local_names(cur):
                return True
            cur = cur.parent
        return False

    # ------------------------------------------------------------------ call resolution
    def callees(self, f: Func, call: ast.Call, types: Any = None) -> Tuple[List[Func], Optional[str]]:
        """
        Resolved package callees of a call (several under class-hierarchy analysis) and / or the
        dotted external name. ([], None) when unresolved.
        """
        fn = call.func
        d = self.dotted(f, fn)
        if d is not None:
            if d in self.funcs:
                return [self.funcs[d]], d
            if d in self.classes:
                init = self.find_method(d, "__init__")
                return ([init] if init else []), d
            # `obj.method(..)` on a module-level object of a package class: resolved through the receiver's type
            if isinstance(fn, ast.Attribute) and types is not None and d.startswith("dds."):
                tq0 = types.receiver_class(f.module.name, fn.value)
                if tq0 is not None and tq0 in self.classes:
                    impls0 = self.implementations(tq0, fn.attr)
                    if impls0:
                        return impls0, None
            return [], d
        if isinstance(fn, ast.Attribute):
            recv = fn.value
            # self.m / cls.m
            if isinstance(recv, ast.Name) and recv.id in ("self", "cls") and f_cls(f) is not None:
                c = f_cls(f)
                assert c is not None
                impls = self.implementations(c.qname, fn.attr)
                if impls:
                    return impls, None
            # typed receiver
            if types is not None:
                tq = types.receiver_class(f.module.name, recv)
                if tq is not None and tq in self.classes:
                    impls = self.implementations(tq, fn.attr)
                    if impls:
                        return impls, None
                    if fn.attr in ("visit", "generic_visit") and any(
                        b.endswith("NodeVisitor") for b in [tq] + self.all_bases(tq)
                    ):
                        # ast.NodeVisitor dispatch: any visit_<Kind> method of the class may run
                        vis = [m for c in [tq] + self.all_bases(tq) if c in self.classes
                               for n, m in self.classes[c].methods.items() if n.startswith("visit_")]
                        if vis:
                            return vis, None
                if tq is not None:
                    return [], f"{tq}.{fn.attr}"
            # name-based CHA: the method name is defined by package classes (never for dunders / super())
            cs = self.classes_defining(fn.attr)
            is_super = isinstance(recv, ast.Call) and isinstance(recv.func, ast.Name) and recv.func.id == "super"
            if cs and fn.attr not in _COMMON_METHOD_NAMES and not fn.attr.startswith("__") and not is_super:
                return [c.methods[fn.attr] for c in cs], None
            return [], f"?.{fn.attr}"
        return [], None


def f_cls(f: Func) -> Optional[Class]:
    cur: Optional[Func] = f
    while cur is not None:
        if cur.cls is not None:
            return cur.cls
        cur = cur.parent
    return None


# method names shared with builtin containers / strings: never resolved by name alone
_COMMON_METHOD_NAMES = {
    "get", "put", "items", "keys", "values", "append", "add", "update", "pop", "join", "split",
    "format", "encode", "decode", "read", "write", "create", "visit", "validate", "parse", "ref",
    "empty", "tail", "head", "last",
}


def walk_no_nested(node: ast.AST) -> Iterable[ast.AST]:
    """ast.walk that does not enter nested function / class definitions (the root itself is entered)."""
    stack: List[ast.AST] = [node]
    first = True
    while stack:
        n = stack.pop()
        yield n
        if not first and isinstance(n, (ast.FunctionDef, ast.AsyncFunctionDef, ast.ClassDef)):
            continue
        first = False
        stack.extend(ast.iter_child_nodes(n))


def calls_in(node: ast.AST) -> List[ast.Call]:
    return [n for n in walk_no_nested(node) if isinstance(n, ast.Call)]


def names_in(node: ast.AST) -> Set[str]:
    return {n.id for n in ast.walk(node) if isinstance(n, ast.Name)}


def const_str(node: ast.AST) -> Optional[str]:
    if isinstance(node, ast.Constant) and isinstance(node.value, str):
        return node.value
    return None
