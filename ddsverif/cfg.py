"""
Statement-level control-flow graph with exceptional edges, built by a backward
(continuation-passing) walk over the statement kinds the package uses.

* ``if`` / ``while`` tests are lowered with short-circuit semantics (``and`` / ``or`` /
  ``not``), one ``test`` node per atomic condition; every outcome has its own ``branch``
  node, so "dominated by the false branch of condition c" is plain node dominance.
* every statement that may raise has an ``exc`` edge to the innermost handler dispatch /
  ``finally`` copy / EXC exit, and a ``done`` node that stands for its *normal completion*.
* ``finally`` bodies are duplicated per entry kind (normal, exceptional, return, break,
  continue) so that path queries are exact.

All path questions (dominance, post-dominance, must-pass-through) are answered by BFS
with an *avoid* set and return the shortest offending path as a witness.
"""
from __future__ import annotations

import ast
from collections import deque
from typing import Dict, List, Optional, Tuple, Iterable, Set, Callable, NamedTuple

from .model import AnalysisError, unparse, walk_no_nested
from .inline import InlineBlock, InlineJump


class Node:
    __slots__ = ("id", "kind", "ast", "label", "succ", "pred", "tag", "done", "origin")

    def __init__(self, id: int, kind: str, node: Optional[ast.AST], label: str = "", tag: str = ""):
        self.id = id
        self.kind = kind  # entry exit exc stmt test branch loop dispatch handler join done
        self.ast = node
        self.label = label
        self.succ: List[Tuple["Node", str]] = []
        self.pred: List[Tuple["Node", str]] = []
        self.tag = tag  # which finally-copy this node lives in ("" = primary)
        self.done: Optional["Node"] = None
        self.origin: Optional["Node"] = None  # for branch / done nodes: the test / stmt node

    def exprs(self) -> List[ast.AST]:
        """Expression roots evaluated at this node."""
        n = self.ast
        if n is None or self.kind in ("branch", "done", "join", "dispatch", "entry", "exit", "exc"):
            return []
        if self.kind == "test":
            return [n]
        if self.kind == "loop":
            assert isinstance(n, (ast.For, ast.AsyncFor))
            return [n.iter, n.target]
        if self.kind == "handler":
            assert isinstance(n, ast.ExceptHandler)
            return [n.type] if n.type is not None else []
        if isinstance(n, (ast.With, ast.AsyncWith)):
            out: List[ast.AST] = []
            for it in n.items:
                out.append(it.context_expr)
                if it.optional_vars is not None:
                    out.append(it.optional_vars)
            return out
        if isinstance(n, (ast.FunctionDef, ast.AsyncFunctionDef, ast.ClassDef)):
            return list(n.decorator_list)
        return [n]

    def line(self) -> int:
        return getattr(self.ast, "lineno", 0) if self.ast is not None else 0

    def describe(self) -> str:
        if self.kind in ("entry", "exit", "exc"):
            return {"entry": "ENTRY", "exit": "EXIT", "exc": "EXIT_EXC"}[self.kind]
        if self.kind == "branch":
            return f"[{self.label}] {unparse(self.ast, 60)}"
        if self.kind == "done":
            return f"[completed] {unparse(self.ast, 60)}"
        if self.kind == "test":
            return f"if {unparse(self.ast, 70)}"
        if self.kind == "loop":
            return f"for {unparse(self.ast.target, 20)} in {unparse(self.ast.iter, 50)}"  # type: ignore
        if self.kind == "handler":
            return f"except {unparse(getattr(self.ast, 'type', None), 40)}"
        if self.kind == "dispatch":
            return "<exception dispatch>"
        if self.kind == "join":
            return "<loop head>"
        if isinstance(self.ast, (ast.With, ast.AsyncWith)):
            return "with " + ", ".join(unparse(i.context_expr, 40) for i in self.ast.items)
        if isinstance(self.ast, (ast.FunctionDef, ast.ClassDef)):
            return f"def {self.ast.name}"
        return unparse(self.ast, 80)

    def __repr__(self) -> str:
        return f"<N{self.id} {self.kind} L{self.line()} {self.describe()[:40]}{' @' + self.tag if self.tag else ''}>"


class _Ctx(NamedTuple):
    exc: Node
    ret: Node
    brk: Optional[Node]
    cont: Optional[Node]
    tag: str
    jmp: Optional[Node] = None  # end of the innermost inlined-helper block (see inline.py)


def may_raise(node: ast.AST) -> bool:
    if isinstance(node, (ast.Assert, ast.Raise, ast.Import, ast.ImportFrom, ast.Delete)):
        return True
    for n in walk_no_nested(node):
        if isinstance(n, (ast.Call, ast.Subscript, ast.Await, ast.Yield, ast.YieldFrom)):
            return True
        if isinstance(n, ast.BinOp) and isinstance(n.op, (ast.Div, ast.FloorDiv, ast.Mod)):
            return True
        if isinstance(n, ast.Attribute) and isinstance(n.ctx, ast.Load):
            # attribute loads on plain names are treated as non-raising only for self / cls
            if not (isinstance(n.value, ast.Name) and n.value.id in ("self", "cls")):
                return True
    return False


class CFG:
    def __init__(self, fnode: ast.AST, desc: str = ""):
        self.fnode = fnode
        self.desc = desc
        self.nodes: List[Node] = []
        self.by_ast: Dict[ast.AST, List[Node]] = {}
        self.entry = self._new("entry", None)
        self.exit = self._new("exit", None)
        self.exc_exit = self._new("exc", None)
        body = fnode.body if isinstance(fnode.body, list) else [ast.Return(value=fnode.body)]  # type: ignore
        ctx = _Ctx(self.exc_exit, self.exit, None, None, "")
        first = self._block(body, self.exit, ctx)
        self._edge(self.entry, first, "n")
        self._prune()
        self._owner: Dict[ast.AST, List[Node]] = {}
        for n in self.nodes:
            for e in n.exprs():
                for sub in walk_no_nested(e) if not isinstance(e, (ast.FunctionDef, ast.ClassDef)) else [e]:
                    self._owner.setdefault(sub, []).append(n)

    # ------------------------------------------------------------------ construction
    def _new(self, kind: str, node: Optional[ast.AST], label: str = "", tag: str = "") -> Node:
        n = Node(len(self.nodes), kind, node, label, tag)
        self.nodes.append(n)
        if node is not None and kind not in ("branch", "done"):
            self.by_ast.setdefault(node, []).append(n)
        return n

    def _edge(self, a: Node, b: Node, label: str) -> None:
        a.succ.append((b, label))
        b.pred.append((a, label))

    def _simple(self, st: ast.AST, nxt: Node, ctx: _Ctx, kind: str = "stmt", label: str = "n") -> Node:
        n = self._new(kind, st, tag=ctx.tag)
        if may_raise(st) if kind == "stmt" else True:
            d = self._new("done", st, tag=ctx.tag)
            d.origin = n
            n.done = d
            self._edge(n, d, "n")
            self._edge(d, nxt, label)
            self._edge(n, ctx.exc, "exc")
        else:
            self._edge(n, nxt, label)
        return n

    def _block(self, stmts: List[ast.stmt], nxt: Node, ctx: _Ctx) -> Node:
        for st in reversed(stmts):
            nxt = self._stmt(st, nxt, ctx)
        return nxt

    def _cond(self, e: ast.AST, t: Node, f: Node, ctx: _Ctx) -> Node:
        if isinstance(e, ast.BoolOp) and isinstance(e.op, ast.And):
            cur = t
            for v in reversed(e.values):
                cur = self._cond(v, cur, f, ctx)
            return cur
        if isinstance(e, ast.BoolOp) and isinstance(e.op, ast.Or):
            cur = f
            for v in reversed(e.values):
                cur = self._cond(v, t, cur, ctx)
            return cur
        if isinstance(e, ast.UnaryOp) and isinstance(e.op, ast.Not):
            return self._cond(e.operand, f, t, ctx)
        n = self._new("test", e, tag=ctx.tag)
        bt = self._new("branch", e, "T", tag=ctx.tag)
        bf = self._new("branch", e, "F", tag=ctx.tag)
        bt.origin = n
        bf.origin = n
        self._edge(n, bt, "T")
        self._edge(n, bf, "F")
        self._edge(bt, t, "n")
        self._edge(bf, f, "n")
        if may_raise(e):
            self._edge(n, ctx.exc, "exc")
        return n

    def _stmt(self, st: ast.stmt, nxt: Node, ctx: _Ctx) -> Node:
        if isinstance(st, ast.If):
            t = self._block(st.body, nxt, ctx)
            f = self._block(st.orelse, nxt, ctx)
            return self._cond(st.test, t, f, ctx)
        if isinstance(st, ast.While):
            head = self._new("join", st, tag=ctx.tag)
            inner = ctx._replace(brk=nxt, cont=head)
            body = self._block(st.body, head, inner)
            orelse = self._block(st.orelse, nxt, ctx)
            test = self._cond(st.test, body, orelse, ctx)
            self._edge(head, test, "n")
            return head
        if isinstance(st, (ast.For, ast.AsyncFor)):
            loop = self._new("loop", st, tag=ctx.tag)
            bt = self._new("branch", st, "T", tag=ctx.tag)
            bf = self._new("branch", st, "F", tag=ctx.tag)
            bt.origin = loop
            bf.origin = loop
            inner = ctx._replace(brk=nxt, cont=loop)
            body = self._block(st.body, loop, inner)
            orelse = self._block(st.orelse, nxt, ctx)
            self._edge(loop, bt, "T")
            self._edge(loop, bf, "F")
            self._edge(bt, body, "n")
            self._edge(bf, orelse, "n")
            self._edge(loop, ctx.exc, "exc")
            return loop
        if isinstance(st, ast.Try) or st.__class__.__name__ == "TryStar":
            return self._try(st, nxt, ctx)  # type: ignore
        if isinstance(st, InlineBlock):
            # an inlined helper: its `return`s were rewritten into jumps to the end of the block
            return self._block(st.body, nxt, ctx._replace(brk=None, cont=None, jmp=nxt))
        if isinstance(st, InlineJump):
            if ctx.jmp is None:
                raise AnalysisError("inline jump outside an inlined block")
            n = self._new("stmt", st, tag=ctx.tag)
            self._edge(n, ctx.jmp, "n")
            return n
        if isinstance(st, (ast.With, ast.AsyncWith)):
            body = self._block(st.body, nxt, ctx)
            return self._simple(st, body, ctx)
        if isinstance(st, ast.Return):
            return self._simple(st, ctx.ret, ctx, label="ret")
        if isinstance(st, ast.Raise):
            n = self._new("stmt", st, tag=ctx.tag)
            self._edge(n, ctx.exc, "exc")
            return n
        if isinstance(st, ast.Break):
            if ctx.brk is None:
                raise AnalysisError("break outside loop")
            n = self._new("stmt", st, tag=ctx.tag)
            self._edge(n, ctx.brk, "brk")
            return n
        if isinstance(st, ast.Continue):
            if ctx.cont is None:
                raise AnalysisError("continue outside loop")
            n = self._new("stmt", st, tag=ctx.tag)
            self._edge(n, ctx.cont, "cont")
            return n
        if st.__class__.__name__ == "Match":
            raise AnalysisError(f"unsupported statement kind match at line {st.lineno}")
        return self._simple(st, nxt, ctx)

    def _try(self, st: ast.Try, nxt: Node, ctx: _Ctx) -> Node:
        outer = ctx
        if st.finalbody:
            tagbase = f"{ctx.tag}/F{st.lineno}"
            f_norm = self._block(st.finalbody, nxt, ctx._replace(tag=tagbase + ":norm"))
            f_exc = self._block(st.finalbody, ctx.exc, ctx._replace(tag=tagbase + ":exc"))
            f_ret = self._block(st.finalbody, ctx.ret, ctx._replace(tag=tagbase + ":ret"))
            f_brk = (
                self._block(st.finalbody, ctx.brk, ctx._replace(tag=tagbase + ":brk"))
                if ctx.brk is not None
                else None
            )
            f_cont = (
                self._block(st.finalbody, ctx.cont, ctx._replace(tag=tagbase + ":cont"))
                if ctx.cont is not None
                else None
            )
            f_jmp = (
                self._block(st.finalbody, ctx.jmp, ctx._replace(tag=tagbase + ":jmp"))
                if ctx.jmp is not None
                else None
            )
            outer = _Ctx(f_exc, f_ret, f_brk, f_cont, ctx.tag, f_jmp)
            after = f_norm
        else:
            after = nxt
        if st.handlers:
            disp = self._new("dispatch", st, tag=ctx.tag)
            catch_all = False
            for h in st.handlers:
                hn = self._new("handler", h, tag=ctx.tag)
                hb = self._block(h.body, after, outer)
                self._edge(disp, hn, "h")
                self._edge(hn, hb, "n")
                if h.type is None or (isinstance(h.type, ast.Name) and h.type.id == "BaseException"):
                    catch_all = True
            if not catch_all:
                self._edge(disp, outer.exc, "exc")
            body_exc = disp
        else:
            body_exc = outer.exc
        orelse = self._block(st.orelse, after, outer)
        body_ctx = outer._replace(exc=body_exc)
        return self._block(st.body, orelse, body_ctx)

    def _prune(self) -> None:
        seen: Set[int] = set()
        dq = deque([self.entry])
        while dq:
            n = dq.popleft()
            if n.id in seen:
                continue
            seen.add(n.id)
            for s, _ in n.succ:
                dq.append(s)
        keep = [n for n in self.nodes if n.id in seen or n in (self.exit, self.exc_exit)]
        for n in keep:
            n.pred = [(p, l) for (p, l) in n.pred if p.id in seen]
        self.nodes = keep
        for k in list(self.by_ast):
            self.by_ast[k] = [n for n in self.by_ast[k] if n.id in seen]

    # ------------------------------------------------------------------ queries
    def nodes_of(self, a: ast.AST) -> List[Node]:
        """CFG nodes that evaluate the AST node a (statement, test, or any sub-expression)."""
        got = self.by_ast.get(a)
        if got:
            return list(got)
        return list(self._owner.get(a, []))

    def find_path(
        self,
        srcs: Iterable[Node],
        dsts: Iterable[Node],
        avoid: Iterable[Node] = (),
        edge_ok: Optional[Callable[[Node, Node, str], bool]] = None,
        include_src: bool = True,
    ) -> Optional[List[Node]]:
        """Shortest path from any src to any dst that touches no node of avoid (endpoints may not be avoided)."""
        avoid_ids = {n.id for n in avoid}
        dst_ids = {n.id for n in dsts}
        prev: Dict[int, Optional[Node]] = {}
        dq: deque = deque()
        for s in srcs:
            if s.id in avoid_ids:
                continue
            prev[s.id] = None
            dq.append(s)
        byid = {n.id: n for n in self.nodes}
        while dq:
            n = dq.popleft()
            if n.id in dst_ids and (include_src or prev[n.id] is not None):
                path = [n]
                while prev[path[-1].id] is not None:
                    path.append(prev[path[-1].id])  # type: ignore
                return list(reversed(path))
            for s, lab in n.succ:
                if s.id in prev or s.id in avoid_ids:
                    continue
                if edge_ok is not None and not edge_ok(n, s, lab):
                    continue
                prev[s.id] = n
                dq.append(s)
        return None

    def dominated_by(self, target: Node, doms: Iterable[Node]) -> Optional[List[Node]]:
        """None when every path entry -> target passes a node of doms; else the avoiding path (witness)."""
        doms = list(doms)
        if target in doms:
            return None
        return self.find_path([self.entry], [target], avoid=doms)

    def must_reach(self, src: Node, via: Iterable[Node], exits: Optional[Iterable[Node]] = None) -> Optional[List[Node]]:
        """None when every path from src to an exit passes a node of via; else the avoiding path."""
        ex = list(exits) if exits is not None else [self.exit, self.exc_exit]
        via = list(via)
        if src in via:
            return None
        return self.find_path([src], ex, avoid=via)

    def reachable(self, src: Node, dst: Node, avoid: Iterable[Node] = ()) -> bool:
        return self.find_path([src], [dst], avoid=avoid) is not None

    def branch_nodes(self, test: ast.AST, label: str) -> List[Node]:
        return [n for n in self.nodes if n.kind == "branch" and n.ast is test and n.label == label]

    @staticmethod
    def show_path(path: List[Node], relpath: str) -> List[str]:
        out = []
        for n in path:
            if n.kind in ("join", "dispatch"):
                continue
            ln = n.line()
            out.append(f"{relpath}:{ln}: {n.describe()}" if ln else n.describe())
        return out


_CFG_CACHE: Dict[int, CFG] = {}


def cfg_of(func) -> CFG:  # func: model.Func
    key = id(func.node)
    c = _CFG_CACHE.get(key)
    if c is None or c.fnode is not func.node:
        c = CFG(func.node, func.qname)
        _CFG_CACHE[key] = c
    return c
