"""
Typestate exploration of the file-system effect sequences of the local store.

The *sequences* are extracted from the source by ``fsmodel`` (effects in program order, each with the branch conditions
it depends on); nothing of dds runs.  Every name (path term) has an abstract state:

    absent | partial (created / truncated, content incomplete) | file(version) | link(target) | dir

and every effect is a transition on these states (``WRITE_INPLACE`` is two transitions: create-or-truncate, then
complete).  Branch conditions are evaluated on the abstract state when they are reached (``exists`` / ``isdir`` /
``realpath(x) == y``); they are atomic steps of their own, so a state change between a test and the effects it guards is
explored (check-then-act).

Two explorations, both exhaustive over the extracted sequences:

* crash sweep (C06): a writer is killed after every prefix of its steps (including between the two halves of an in-place
  write); a recovery process then observes the store (``has_blob`` => everything ``fetch_blob`` reads is complete; a path
  committed before still resolves to its old or its new blob) and re-runs the same operation, which must neither fail nor
  end in a state where the key / path is not served.  The recovery process is tried with a fresh pid and with the pid of
  the killed one.
* interleavings (C07): two processes run their sequences under every interleaving of atomic steps (writer/writer on the
  same key or path, and store creation races); no step may fail because of the other process, every intermediate state
  must satisfy the reader invariant, and the final state must serve the key / path.
"""
from __future__ import annotations

import ast
from typing import Any, Dict, List, Optional, Tuple

from .fsmodel import StoreModel, Effect, flatten, show, PROBES
from .model import Func, unparse

ABSENT = ("absent",)


class Step:
    def __init__(self, kind: str, term: Any, src: Any, eff: Optional[Effect], guards: List[Tuple[ast.AST, bool]], test: Optional[ast.AST] = None):
        self.kind, self.term, self.src, self.eff, self.guards, self.test = kind, term, src, eff, guards, test

    def __repr__(self) -> str:
        if self.kind == "TEST":
            return f"TEST({unparse(self.test, 50)})"
        s = f"{self.kind}({show(self.term)}"
        if self.src is not None:
            s += f" <- {show(self.src)}"
        return s + ")"


class Failure(Exception):
    def __init__(self, what: str):
        super().__init__(what)
        self.what = what


class Unknown(Exception):
    pass


def inst(t: Any, env: Dict[str, Any]) -> Any:
    """instantiate KEY / PATH / unique / pid in a term for one process"""
    if not isinstance(t, tuple) or not t:
        return t
    if t[0] == "sym" and t[1] in env:
        return ("lit", env[t[1]])
    if t[0] == "segs":
        return ("lit", env.get("PATH", "p"))
    if t[0] == "unique":
        return ("lit", "U" + env["uid"])
    if t[0] == "pid":
        return ("lit", "P" + env["pid"])
    return flatten((t[0],) + tuple(inst(x, env) for x in t[1:]))


def steps_of(model: StoreModel, method: str) -> List[Step]:
    """program-ordered atomic steps of a store method, branch tests included"""
    model.expr_terms = {}
    effs = model.effects_of(method) if method != "__init__" else model.init_effects
    if method == "__init__":
        model.expr_terms = {}
        effs = model.effects_of("__init__")
    out: List[Step] = []
    seen_tests: List[int] = []

    def add_tests(guards: List[Tuple[ast.AST, bool]]) -> None:
        for (t, _pol) in guards:
            if id(t) not in seen_tests:
                seen_tests.append(id(t))
                out.append(Step("TEST", None, None, None, [g for g in guards if g[0] is not t][: guards.index((t, _pol))], test=t))

    last_key = None
    for e in effs:
        if e.kind == "PROBE" or e.kind == "READ":
            continue
        key = (e.kind, e.term, e.src, id(e.node))
        if key == last_key:
            continue  # the same syscall summarised once per codec implementation
        last_key = key
        add_tests(e.conds)
        if e.kind == "WRITE_INPLACE":
            out.append(Step("W_BEGIN", e.term, None, e, list(e.conds)))
            out.append(Step("W_END", e.term, None, e, list(e.conds)))
        else:
            out.append(Step(e.kind, e.term, e.src, e, list(e.conds)))
    return out


class Proc:
    def __init__(self, name: str, steps: List[Step], env: Dict[str, Any]):
        self.name, self.steps, self.env = name, steps, env
        self.pc = 0
        self.memo: Dict[int, Optional[bool]] = {}

    def clone(self) -> "Proc":
        p = Proc(self.name, self.steps, self.env)
        p.pc, p.memo = self.pc, dict(self.memo)
        return p

    def done(self) -> bool:
        return self.pc >= len(self.steps)


class FS:
    def __init__(self, state: Optional[Dict[Any, Any]] = None):
        self.s: Dict[Any, Any] = dict(state or {})

    def get(self, t: Any) -> Any:
        return self.s.get(t, ABSENT)

    def exists(self, t: Any, follow: bool = True) -> bool:
        st = self.get(t)
        if st == ABSENT:
            # a parent directory given as dirname(x) exists when something was created below it
            return any(isinstance(k, tuple) and _is_under(k, t) for k in self.s if self.s[k] != ABSENT)
        if follow and st[0] == "link":
            return self.get(st[1]) != ABSENT
        return True

    def clone(self) -> "FS":
        return FS(self.s)

    def key(self) -> Tuple:
        return tuple(sorted((repr(k), repr(v)) for k, v in self.s.items() if v != ABSENT))


def _is_under(k: Any, d: Any) -> bool:
    if isinstance(d, tuple) and d and d[0] == "dirname":
        return _dir_of(k) == _dir_of(d[1]) or k == d[1]
    if isinstance(k, tuple) and k and k[0] == "join" and isinstance(d, tuple) and d and d[0] == "join":
        return len(k) > len(d) and k[: len(d)] == d
    return False


def _dir_of(t: Any) -> Any:
    t = flatten(t)
    if isinstance(t, tuple) and t and t[0] == "join" and len(t) > 2:
        return flatten(t[:-1])
    if isinstance(t, tuple) and t and t[0] == "cat":
        return _dir_of(t[1])
    return ("dirname", t)


class Sim:
    def __init__(self, model: StoreModel, func_of: Dict[str, Func]):
        self.model = model
        self.func_of = func_of

    # ------------------------------------------------------------------ guard evaluation
    def _term(self, node: ast.AST) -> Any:
        t = self.model.expr_terms.get(id(node))
        return t if t is not None else getattr(self, "aux_terms", {}).get(id(node))

    def presence(self, fs: FS, env: Dict[str, Any], H: List[Any]) -> bool:
        """what has_blob answers on this file-system state: its own return expression when it is a single boolean
        expression over probes (so that `and` / `or` / `not` count), else the conjunction of the names it probes"""
        e = getattr(self, "presence_expr", None)
        if e is not None:
            try:
                return bool(self.truth(e, fs, Proc("reader", [], env)))
            except Unknown:
                pass
        return all(fs.exists(inst(t, env)) for t in H)

    def truth(self, e: ast.AST, fs: FS, p: Proc) -> bool:
        if isinstance(e, ast.Constant):
            return bool(e.value)  # `while True:` retry loops
        if isinstance(e, ast.BoolOp):
            vals = [self.truth(v, fs, p) for v in e.values]
            return all(vals) if isinstance(e.op, ast.And) else any(vals)
        if isinstance(e, ast.UnaryOp) and isinstance(e.op, ast.Not):
            return not self.truth(e.operand, fs, p)
        if isinstance(e, ast.Call):
            d = unparse(e.func)
            if d in PROBES or d.split(".")[-1] in ("exists", "isdir", "isfile", "islink", "lexists"):
                t = self._term(e.args[0]) if e.args else None
                if t is None:
                    raise Unknown(unparse(e))
                return fs.exists(inst(t, p.env), follow=not d.endswith(("islink", "lexists")))
            if d == "isinstance" and len(e.args) == 2:
                # the default registry only holds file codecs
                ts = e.args[1].elts if isinstance(e.args[1], ast.Tuple) else [e.args[1]]
                return any(unparse(t_).endswith("FileCodecProtocol") for t_ in ts)
            raise Unknown(unparse(e))
        if isinstance(e, ast.Compare) and len(e.ops) == 1 and isinstance(e.ops[0], (ast.Eq, ast.NotEq)):
            lt, rt = self._term(e.left), self._term(e.comparators[0])
            if lt is None or rt is None:
                raise Unknown(unparse(e))
            lv, rv = self.resolve(inst(lt, p.env), fs), self.resolve(inst(rt, p.env), fs)
            r = lv == rv
            return r if isinstance(e.ops[0], ast.Eq) else not r
        if isinstance(e, ast.Compare) and len(e.ops) == 1 and isinstance(e.ops[0], (ast.Is, ast.IsNot)) and isinstance(e.left, ast.Name) \
                and isinstance(e.comparators[0], ast.Constant) and e.comparators[0].value is None:
            return isinstance(e.ops[0], ast.IsNot)  # a local that holds a value (Optional results of helpers: the case where there is one)
        if isinstance(e, ast.Compare) and isinstance(e.ops[0], (ast.NotIn, ast.In)):
            return isinstance(e.ops[0], ast.NotIn)  # `path not in res`: first occurrence
        if isinstance(e, ast.Name):
            return True  # create_dirs and similar configuration flags: the default
        raise Unknown(unparse(e))

    def resolve(self, t: Any, fs: FS) -> Any:
        if isinstance(t, tuple) and t and t[0] == "real":
            inner = self.resolve(t[1], fs)
            st = fs.get(inner)
            if st != ABSENT and st[0] == "link":
                return st[1]
            return inner
        if isinstance(t, tuple) and t and t[0] == "abs":
            return self.resolve(t[1], fs)
        return t

    # ------------------------------------------------------------------ one atomic step
    def step(self, p: Proc, fs: FS) -> None:
        st = p.steps[p.pc]
        p.pc += 1
        # guards decided earlier in this run
        for (t, pol) in st.guards:
            v = p.memo.get(id(t))
            if v is None:
                v = self.truth(t, fs, p)
                p.memo[id(t)] = v
            if v != pol:
                return  # branch not taken
        if st.kind == "TEST":
            p.memo[id(st.test)] = self.truth(st.test, fs, p)
            return
        term = inst(st.term, p.env)
        kind = st.kind
        cur = fs.get(term)
        if kind == "MKDIR":
            if (cur != ABSENT or fs.exists(term)) and not st.eff.extra.get("exist_ok") and not _tolerant(st.eff):
                raise Failure(f"{p.name}: {st!r} raises FileExistsError (the directory was created in the meantime)")
            fs.s[term] = ("dir",)
        elif kind == "W_BEGIN":
            fs.s[term] = ("partial", p.env["version"])
        elif kind == "W_END":
            if fs.get(term) == ABSENT:
                raise Failure(f"{p.name}: the file {show(term)} was removed while it was being written")
            fs.s[term] = ("file", p.env["version"])
        elif kind == "RENAME_INTO":
            src = inst(st.src, p.env)
            s = fs.get(src)
            if s == ABSENT:
                raise Failure(f"{p.name}: {st!r} raises FileNotFoundError (the temporary disappeared)")
            fs.s[term] = s
            fs.s[src] = ABSENT
        elif kind == "LINK":
            if cur != ABSENT and not _tolerant(st.eff):
                raise Failure(f"{p.name}: {st!r} raises FileExistsError (the name exists)")
            fs.s[term] = ("link", inst(st.src, p.env))
        elif kind == "CREATE_EXCL":
            if cur != ABSENT:
                raise Failure(f"{p.name}: {st!r} fails (FileExistsError): the name is still there although its creator is gone - an exclusive-create lock "
                              "left by a killed process is never released, so every later process fails here until someone removes the file by hand")
            fs.s[term] = ("file", p.env["version"])
        elif kind in ("REMOVE", "RMTREE"):
            if cur == ABSENT and kind == "REMOVE" and not _tolerant(st.eff):
                raise Failure(f"{p.name}: {st!r} raises FileNotFoundError (already removed)")
            fs.s[term] = ABSENT
            if kind == "RMTREE":
                for k in list(fs.s):
                    if _is_under(k, term):
                        fs.s[k] = ABSENT
        else:
            raise Unknown(f"effect kind {kind}")


def _tolerant(e: Optional[Effect]) -> bool:
    return e is not None and any(h.split(".")[-1] in ("FileExistsError", "FileNotFoundError", "OSError", "Exception", "BaseException") for h in e.handlers)


# ----------------------------------------------------------------------------------------------
# invariants
# ----------------------------------------------------------------------------------------------
def blob_view(sim: Sim, fs: FS, H: List[Any], F: List[Any], env: Dict[str, Any]) -> Optional[str]:
    """reader invariant for one key: has_blob => everything fetch_blob reads is a complete file"""
    has = sim.presence(fs, env, H)
    if not has:
        return None
    for t in F:
        st = fs.get(inst(t, env))
        if st == ABSENT:
            return f"has_blob is True but {show(inst(t, env))} is missing: fetch_blob returns None, which keep() returns as the value"
        if st[0] == "partial":
            return f"has_blob is True but {show(inst(t, env))} is incomplete (torn write): fetch_blob returns a truncated value or fails"
    return None


def path_view(fs: FS, L: Any, env: Dict[str, Any], allowed: List[Any], must_exist: bool) -> Optional[str]:
    st = fs.get(inst(L, env))
    if st == ABSENT:
        return f"the committed path entry {show(inst(L, env))} does not exist" if must_exist else None
    if st[0] != "link":
        return f"the path entry {show(inst(L, env))} is {st}"
    if st[1] not in allowed:
        return f"the path entry points to {show(st[1])}, neither its old nor its new blob"
    return None


def run_all(sim: Sim, p: Proc, fs: FS) -> None:
    while not p.done():
        sim.step(p, fs)


def interleavings(sim: Sim, a: Proc, b: Proc, fs0: FS, check, limit: int = 200000):
    """DFS over all interleavings of two processes; yields (trace, message) for the first failing state"""
    seen = set()
    stack = [(a, b, fs0, [])]
    n = 0
    while stack:
        pa, pb, fs, trace = stack.pop()
        k = (pa.pc, tuple(sorted(pa.memo.items())), pb.pc, tuple(sorted(pb.memo.items())), fs.key())
        if k in seen:
            continue
        seen.add(k)
        n += 1
        if n > limit:
            raise Unknown("too many interleavings")
        msg = check(fs, pa.done() and pb.done())
        if msg:
            return n, trace, msg
        for who in (0, 1):
            p = (pa, pb)[who]
            if p.done():
                continue
            np_, nfs = p.clone(), fs.clone()
            st = np_.steps[np_.pc]
            try:
                sim.step(np_, nfs)
            except Failure as f:
                return n, trace + [f"{p.name}: {st!r}"], f.what
            stack.append(((np_, pb) if who == 0 else (pa, np_)) + (nfs, trace + [f"{p.name}: {st!r}"]))
    return n, None, None
