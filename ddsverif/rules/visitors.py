"""
Rules about the AST visitors that discover calls, names and local variables (shared by C01, C02, C11).

V1  traversal completeness: every visit_<Kind> of a non-leaf kind reaches self.generic_visit(node) on every normal path
    (or raises): a pruned subtree hides the calls and names inside it.
V2  sibling agreement: the local-variable visitor does not prune node kinds that the external-variable visitor descends
    into (a local assigned in a nested scope would be looked up as a module variable).
V3  only value binders are local variables: names bound by import / def / class statements designate modules and callables;
    classifying them as local variables hides every call made through them from both analysis passes.
"""
from __future__ import annotations

import ast
from typing import List, Optional

from ..cfg import cfg_of
from ..model import Class, Func, unparse, stmt_key, AnchorError
from .common import Ctx, witness_path

LEAF_KINDS = {"Name", "Constant", "Num", "Str", "NameConstant", "Pass", "Break", "Continue", "Global", "Nonlocal"}
VISITORS = ["dds.introspect.IntroVisitor", "dds.introspect.ExternalVarsVisitor", "dds.introspect.LocalVarsVisitor",
            "dds._introspect_indirect.IntroVisitorIndirect"]


def visitor_classes(ctx: Ctx) -> List[Class]:
    out = []
    for q in VISITORS:
        c = ctx.prog.classes.get(q)
        if c is None:
            raise AnchorError(f"visitor class {q} not found")
        out.append(c)
    for c in ctx.prog.classes.values():
        if any(b.endswith("NodeVisitor") for b in c.bases) and c not in out and c.module.name in ("dds.introspect", "dds._introspect_indirect"):
            out.append(c)
    return out


def traversal_complete(ctx: Ctx, rule: str) -> int:
    rep = ctx.report
    n = 0
    for c in visitor_classes(ctx):
        for name, m in c.methods.items():
            if not name.startswith("visit_"):
                continue
            kind = name[len("visit_"):]
            if kind in LEAF_KINDS:
                continue
            n += 1
            cfg = cfg_of(m)
            gv = [x for x in m.own_nodes() if isinstance(x, ast.Call) and isinstance(x.func, ast.Attribute) and x.func.attr == "generic_visit"]
            gnodes = [g for x in gv for g in cfg.nodes_of(x)]
            p = cfg.find_path([cfg.entry], [cfg.exit], avoid=gnodes)
            desc = f"{c.name}.{name} visits the children of the node on every normal path"
            if p is None:
                rep.ok(rule, m.qname, desc, m.loc())
            else:
                rep.bad(rule, m.qname, desc, m.loc(), witness_path(cfg, m, p) + [f"calls, names and assignments nested inside a {kind} node are never seen by {c.name}"],
                        f"prune:{c.name}.{name}", what=f"{c.name} does not descend into {kind} nodes")
    return n


def sibling_pruning(ctx: Ctx, rule: str) -> int:
    rep = ctx.report
    loc = ctx.prog.classes.get("dds.introspect.LocalVarsVisitor")
    ext = ctx.prog.classes.get("dds.introspect.ExternalVarsVisitor")
    if loc is None or ext is None:
        raise AnchorError("LocalVarsVisitor / ExternalVarsVisitor not found")

    def pruned(c: Class) -> List[str]:
        out = []
        for name, m in c.methods.items():
            if name.startswith("visit_") and name[6:] not in LEAF_KINDS:
                cfg = cfg_of(m)
                gv = [g for x in m.own_nodes() if isinstance(x, ast.Call) and isinstance(x.func, ast.Attribute) and x.func.attr == "generic_visit" for g in cfg.nodes_of(x)]
                if cfg.find_path([cfg.entry], [cfg.exit], avoid=gv) is not None:
                    out.append(name[6:])
        return sorted(out)

    pl, pe = pruned(loc), pruned(ext)
    desc = "the local-variable visitor descends wherever the external-variable visitor does"
    extra = [k for k in pl if k not in pe]
    if extra:
        m = loc.methods["visit_" + extra[0]]
        rep.bad(rule, loc.qname, desc, m.loc(), [f"{loc.name} prunes {extra} but {ext.name} does not",
                "a variable assigned inside such a node is not recorded as local, so the same name in the module is resolved and hashed: "
                "an unrelated module variable re-executes the function"], f"sibling-prune:{extra}", what=f"LocalVarsVisitor prunes {extra} that ExternalVarsVisitor visits")
    else:
        rep.ok(rule, loc.qname, desc, loc.module.relpath)
    return 1


def only_value_binders(ctx: Ctx, rule: str) -> int:
    rep = ctx.report
    loc = ctx.prog.classes.get("dds.introspect.LocalVarsVisitor")
    if loc is None:
        raise AnchorError("LocalVarsVisitor not found")
    n = 0
    for name, m in loc.methods.items():
        for x in m.own_nodes():
            if isinstance(x, ast.Call) and isinstance(x.func, ast.Attribute) and x.func.attr in ("add", "update") and isinstance(x.func.value, ast.Attribute) and x.func.value.attr == "vars":
                n += 1
                kind = name[6:] if name.startswith("visit_") else name
                desc = f"{loc.name}.{name} records a value binder as local variable"
                if kind in ("Import", "ImportFrom", "FunctionDef", "AsyncFunctionDef", "ClassDef", "alias"):
                    rep.bad(rule, m.qname, desc, m.loc(x), [f"{m.loc(x)}: `{unparse(x, 60)}` in visit_{kind}",
                            "names bound by import / def / class designate modules and callables: a call through such a name (dds.eval, mod.f) is filtered as "
                            "'method call on a local variable' by both analysis passes, so nested eval and co-recursion through it are not rejected"],
                            stmt_key(x), what=f"names bound by {kind} statements are classified as local variables")
                elif kind in ("arg", "arguments", "Lambda"):
                    # the visitor walks the *body* of the analysed function: every ast.arg it meets is a parameter of a nested
                    # lambda / inner def, i.e. a name of another scope
                    rep.bad(rule, m.qname, desc, m.loc(x), [f"{m.loc(x)}: `{unparse(x, 60)}` in visit_{kind}",
                            "parameters of nested lambdas / inner functions are recorded as local variables of the enclosing function: a module variable of the "
                            "same name that the enclosing function reads (`lambda scale: ..` next to a use of the global `scale`) is dropped from the signature "
                            "and from the call-site context, so editing it serves the stale blob"],
                            stmt_key(x), what="parameters of nested scopes are classified as local variables of the enclosing function")
                elif kind in ("Name", "ExceptHandler", "NamedExpr", "__init__"):
                    rep.ok(rule, m.qname, desc, m.loc(x))
                else:
                    rep.unknown(rule, m.qname, f"local-variable source visit_{kind} not classified", m.loc(x))
    return n


def body_only(ctx: Ctx, rule: str) -> int:
    """V4  the discovery visitors of a function are applied to its body statements, not to the whole definition
    (decorators, annotations and default values are not code the function executes)."""
    rep = ctx.report
    n = 0
    names = {c.name for c in visitor_classes(ctx)}
    for q in ("dds.introspect.InspectFunction.inspect_fun", "dds._introspect_indirect.InspectFunctionIndirect.inspect_fun", "dds.introspect.InspectFunction.get_local_vars"):
        f = ctx.prog.funcs.get(q)
        if f is None:
            continue
        from ..flow import flow_of
        fl = flow_of(ctx.prog, f)
        vis_vars = set()
        for x in f.own_nodes():
            if isinstance(x, ast.Assign) and isinstance(x.value, ast.Call) and unparse(x.value.func).split(".")[-1] in names and isinstance(x.targets[0], ast.Name):
                vis_vars.add(x.targets[0].id)
        for x in f.own_nodes():
            if isinstance(x, ast.Call) and isinstance(x.func, ast.Attribute) and x.func.attr == "visit" and isinstance(x.func.value, ast.Name) and x.func.value.id in vis_vars and x.args:
                n += 1
                a = x.args[0]
                ok = False
                if isinstance(a, ast.Name):
                    for d in fl.defs_of_use(a):
                        if d.kind == "for" and d.value is not None and isinstance(d.value, ast.Name) and d.value.id == "body":
                            ok = True
                desc = f"`{unparse(x, 40)}` in {f.name} visits the statements of the function body"
                if ok:
                    rep.ok(rule, f.qname, desc, f.loc(x))
                else:
                    rep.bad(rule, f.qname, desc, f.loc(x), [f"{f.loc(x)}: the visitor is applied to `{unparse(a)}`, not to the statements of `body`",
                            "decorator arguments, annotations and default values are then analysed as body code: the variable naming the store path in @data_function(OUT) or a "
                            "typing annotation becomes a dependency, so edits the function cannot observe (or copying the code to another module) change its signature"],
                            stmt_key(x), what="discovery visitors walk decorators / annotations / defaults of the definition")
    return n
