"""
Rules about the AST visitors that discover calls, names and local variables (shared by C01, C02, C11).

V1  traversal completeness: every visit_<Kind> of a non-leaf kind reaches self.generic_visit(node) on every normal path
    (or raises): a pruned subtree hides the calls and names inside it.
V2  sibling agreement: the local-variable visitor does not prune node kinds that the external-variable visitor descends
    into (a local assigned in a nested scope would be looked up as a module variable).
V3  only value binders are local variables: names bound by import / def / class statements designate modules and callables;
    classifying them as local variables hides every call made through them from both analysis passes.
"""
from __future__ import annotations

import ast
from typing import List, Optional, Tuple

from ..cfg import cfg_of
from ..model import Class, Func, unparse, stmt_key, AnchorError
from .common import Ctx, witness_path, ancestors

LEAF_KINDS = {"Name", "Constant", "Num", "Str", "NameConstant", "Pass", "Break", "Continue", "Global", "Nonlocal"}
VISITORS = ["dds.introspect.IntroVisitor", "dds.introspect.ExternalVarsVisitor", "dds.introspect.LocalVarsVisitor",
            "dds._introspect_indirect.IntroVisitorIndirect"]


LOCAL_VISITOR = "dds.introspect.LocalVarsVisitor"


def walk_collectors(ctx: Ctx) -> List[Tuple[Func, ast.For]]:
    """The local-variable collector written as a function: a function of the main analysis module, called by
    `get_local_vars`, that iterates `ast.walk(<node>)` and adds names to a set (the other shape of LocalVarsVisitor)."""
    prog = ctx.prog
    glv = prog.func("dds.introspect.InspectFunction.get_local_vars")
    if glv is None:
        return []
    out = []
    cands = [glv]
    for c in [x for x in glv.own_nodes() if isinstance(x, ast.Call)]:
        fs, _ = prog.callees(glv, c, ctx._types)
        cands += [g for g in fs if g.module is glv.module and g not in cands]
    for g in cands:
        for n in g.own_nodes():
            if isinstance(n, ast.For) and isinstance(n.iter, ast.Call) and (prog.dotted(g, n.iter.func) or "") == "ast.walk" and isinstance(n.target, ast.Name):
                if any(isinstance(x, ast.Call) and isinstance(x.func, ast.Attribute) and x.func.attr in ("add", "update", "append") for x in ast.walk(n)):
                    out.append((g, n))
    return out


def visitor_classes(ctx: Ctx) -> List[Class]:
    out = []
    for q in VISITORS:
        c = ctx.prog.classes.get(q)
        if c is None:
            if q == LOCAL_VISITOR and walk_collectors(ctx):
                continue  # the collector is a function over ast.walk: it visits every node by construction
            raise AnchorError(f"visitor class {q} not found")
        out.append(c)
    for c in ctx.prog.classes.values():
        if any(b.endswith("NodeVisitor") for b in c.bases) and c not in out and c.module.name in ("dds.introspect", "dds._introspect_indirect"):
            out.append(c)
    return out


def traversal_complete(ctx: Ctx, rule: str) -> int:
    rep = ctx.report
    n = 0
    if ctx.prog.classes.get(LOCAL_VISITOR) is None:
        for g, lp in walk_collectors(ctx):
            n += 1
            skips = [x for x in ast.walk(lp) if isinstance(x, (ast.Break, ast.Return))]
            desc = f"{g.name} looks at every node under the statement it is given (ast.walk, nothing skipped)"
            if skips:
                rep.bad(rule, g.qname, desc, g.loc(skips[0]), [f"{g.loc(skips[0])}: `{type(skips[0]).__name__.lower()}` inside the walk: the nodes after / under it are not examined"],
                        f"prune:{g.name}", what=f"{g.name} does not look at every node")
            else:
                rep.ok(rule, g.qname, desc, g.loc(lp))
    for c in visitor_classes(ctx):
        for name, m in c.methods.items():
            if not name.startswith("visit_"):
                continue
            kind = name[len("visit_"):]
            if kind in LEAF_KINDS:
                continue
            n += 1
            cfg = cfg_of(m)
            gv = [x for x in m.own_nodes() if isinstance(x, ast.Call) and isinstance(x.func, ast.Attribute) and x.func.attr == "generic_visit"]
            gnodes = [g for x in gv for g in cfg.nodes_of(x)]
            p = cfg.find_path([cfg.entry], [cfg.exit], avoid=gnodes)
            desc = f"{c.name}.{name} visits the children of the node on every normal path"
            if p is None:
                rep.ok(rule, m.qname, desc, m.loc())
            else:
                rep.bad(rule, m.qname, desc, m.loc(), witness_path(cfg, m, p) + [f"calls, names and assignments nested inside a {kind} node are never seen by {c.name}"],
                        f"prune:{c.name}.{name}", what=f"{c.name} does not descend into {kind} nodes")
    return n


def sibling_pruning(ctx: Ctx, rule: str) -> int:
    rep = ctx.report
    loc = ctx.prog.cls("dds.introspect.LocalVarsVisitor")
    ext = ctx.prog.cls("dds.introspect.ExternalVarsVisitor")
    if loc is None and ext is not None and walk_collectors(ctx):
        g, lp = walk_collectors(ctx)[0]
        skips = [x for x in ast.walk(lp) if isinstance(x, (ast.Break, ast.Return))]
        desc = "the local-variable collector looks at every node the external-variable visitor descends into"
        if skips:
            rep.bad(rule, g.qname, desc, g.loc(skips[0]), [f"{g.loc(skips[0])}: the walk over the nodes is cut short (`{type(skips[0]).__name__.lower()}`)",
                    "a variable assigned in a skipped node is not recorded as local, so the same name in the module is resolved and hashed"], "sibling-prune:walk",
                    what="the local-variable collector skips nodes that the external-variable visitor visits")
        else:
            rep.ok(rule, g.qname, desc + " (ast.walk, no skip)", g.loc(lp))
        return 1
    if loc is None or ext is None:
        raise AnchorError("LocalVarsVisitor / ExternalVarsVisitor not found")

    def pruned(c: Class) -> List[str]:
        out = []
        for name, m in c.methods.items():
            if name.startswith("visit_") and name[6:] not in LEAF_KINDS:
                cfg = cfg_of(m)
                gv = [g for x in m.own_nodes() if isinstance(x, ast.Call) and isinstance(x.func, ast.Attribute) and x.func.attr == "generic_visit" for g in cfg.nodes_of(x)]
                if cfg.find_path([cfg.entry], [cfg.exit], avoid=gv) is not None:
                    out.append(name[6:])
        return sorted(out)

    pl, pe = pruned(loc), pruned(ext)
    desc = "the local-variable visitor descends wherever the external-variable visitor does"
    extra = [k for k in pl if k not in pe]
    if extra:
        m = loc.methods["visit_" + extra[0]]
        rep.bad(rule, loc.qname, desc, m.loc(), [f"{loc.name} prunes {extra} but {ext.name} does not",
                "a variable assigned inside such a node is not recorded as local, so the same name in the module is resolved and hashed: "
                "an unrelated module variable re-executes the function"], f"sibling-prune:{extra}", what=f"LocalVarsVisitor prunes {extra} that ExternalVarsVisitor visits")
    else:
        rep.ok(rule, loc.qname, desc, loc.module.relpath)
    return 1


def only_value_binders(ctx: Ctx, rule: str) -> int:
    rep = ctx.report
    loc = ctx.prog.cls("dds.introspect.LocalVarsVisitor")
    sources: List[Tuple[Func, ast.AST, str, str]] = []  # (function, recording call, node kind, label)
    if loc is None:
        for g, lp in walk_collectors(ctx):
            var = lp.target.id  # type: ignore
            for x in ast.walk(lp):
                if isinstance(x, ast.Call) and isinstance(x.func, ast.Attribute) and x.func.attr in ("add", "update") and isinstance(x.func.value, ast.Name):
                    # the kinds of node under which the name is recorded: isinstance tests of the walked node that guard the call
                    kinds: List[str] = []
                    for a in ancestors(g.module, x):
                        if a is lp:
                            break
                        if isinstance(a, ast.If) and any(x is y for b_ in a.body for y in ast.walk(b_)):
                            for t in ast.walk(a.test):
                                if isinstance(t, ast.Call) and unparse(t.func) == "isinstance" and len(t.args) == 2 and isinstance(t.args[0], ast.Name) and t.args[0].id == var:
                                    ty = t.args[1]
                                    kinds += [unparse(e).split(".")[-1] for e in (ty.elts if isinstance(ty, ast.Tuple) else [ty])]
                    for k in kinds or ["?"]:
                        sources.append((g, x, k, f"{g.name} (under isinstance(.., ast.{k}))"))
        if not sources:
            raise AnchorError("LocalVarsVisitor not found")
    else:
        for name, m in loc.methods.items():
            for x in m.own_nodes():
                if isinstance(x, ast.Call) and isinstance(x.func, ast.Attribute) and x.func.attr in ("add", "update") and isinstance(x.func.value, ast.Attribute) and x.func.value.attr == "vars":
                    sources.append((m, x, name[6:] if name.startswith("visit_") else name, f"{loc.name}.{name}"))
    n = 0
    if True:
        for (m, x, kind, label) in sources:
            if True:
                n += 1
                desc = f"{label} records a value binder as local variable"
                if kind in ("Import", "ImportFrom", "FunctionDef", "AsyncFunctionDef", "ClassDef", "alias"):
                    rep.bad(rule, m.qname, desc, m.loc(x), [f"{m.loc(x)}: `{unparse(x, 60)}` in visit_{kind}",
                            "names bound by import / def / class designate modules and callables: a call through such a name (dds.eval, mod.f) is filtered as "
                            "'method call on a local variable' by both analysis passes, so nested eval and co-recursion through it are not rejected"],
                            stmt_key(x), what=f"names bound by {kind} statements are classified as local variables")
                elif kind in ("arg", "arguments", "Lambda"):
                    # the visitor walks the *body* of the analysed function: every ast.arg it meets is a parameter of a nested
                    # lambda / inner def, i.e. a name of another scope
                    rep.bad(rule, m.qname, desc, m.loc(x), [f"{m.loc(x)}: `{unparse(x, 60)}` in visit_{kind}",
                            "parameters of nested lambdas / inner functions are recorded as local variables of the enclosing function: a module variable of the "
                            "same name that the enclosing function reads (`lambda scale: ..` next to a use of the global `scale`) is dropped from the signature "
                            "and from the call-site context, so editing it serves the stale blob"],
                            stmt_key(x), what="parameters of nested scopes are classified as local variables of the enclosing function")
                elif kind in ("Name", "ExceptHandler", "NamedExpr", "__init__"):
                    rep.ok(rule, m.qname, desc, m.loc(x))
                else:
                    rep.unknown(rule, m.qname, f"local-variable source visit_{kind} not classified", m.loc(x))
    return n


def body_only(ctx: Ctx, rule: str) -> int:
    """V4  the discovery visitors of a function are applied to its body statements, not to the whole definition
    (decorators, annotations and default values are not code the function executes)."""
    rep = ctx.report
    n = 0
    names = {c.name for c in visitor_classes(ctx)}
    for q in ("dds.introspect.InspectFunction.inspect_fun", "dds._introspect_indirect.InspectFunctionIndirect.inspect_fun", "dds.introspect.InspectFunction.get_local_vars"):
        f = ctx.prog.funcs.get(q)
        if f is None:
            continue
        from ..flow import flow_of
        fl = flow_of(ctx.prog, f)
        vis_vars = set()
        for x in f.own_nodes():
            if isinstance(x, ast.Assign) and isinstance(x.value, ast.Call) and unparse(x.value.func).split(".")[-1] in names and isinstance(x.targets[0], ast.Name):
                vis_vars.add(x.targets[0].id)
        collectors = {g.qname for g, _lp in walk_collectors(ctx)}
        for x in f.own_nodes():
            is_visit = isinstance(x, ast.Call) and isinstance(x.func, ast.Attribute) and x.func.attr == "visit" and isinstance(x.func.value, ast.Name) and x.func.value.id in vis_vars and x.args
            is_collect = isinstance(x, ast.Call) and x.args and (ctx.prog.dotted(f, x.func) or "") in collectors
            if is_visit or is_collect:
                n += 1
                a = x.args[0]
                ok = False
                if isinstance(a, ast.Name):
                    for d in fl.defs_of_use(a):
                        if d.kind == "for" and d.value is not None and isinstance(d.value, ast.Name) and d.value.id == "body":
                            ok = True
                desc = f"`{unparse(x, 40)}` in {f.name} visits the statements of the function body"
                if ok:
                    rep.ok(rule, f.qname, desc, f.loc(x))
                else:
                    rep.bad(rule, f.qname, desc, f.loc(x), [f"{f.loc(x)}: the visitor is applied to `{unparse(a)}`, not to the statements of `body`",
                            "decorator arguments, annotations and default values are then analysed as body code: the variable naming the store path in @data_function(OUT) or a "
                            "typing annotation becomes a dependency, so edits the function cannot observe (or copying the code to another module) change its signature"],
                            stmt_key(x), what="discovery visitors walk decorators / annotations / defaults of the definition")
    return n
