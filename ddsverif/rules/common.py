"""
Shared context and recognisers for the rule modules.
"""
from __future__ import annotations

import ast
from typing import Dict, List, Optional, Tuple, Iterable, Set, Any, Callable

from ..model import Program, Func, Class, Module, AnalysisError, AnchorError, unparse, stmt_key, walk_no_nested, calls_in, f_cls
from ..cfg import CFG, Node, cfg_of
from ..flow import Flow, flow_of, Slicer, Slice, heap_of, Heap, returns_of, bind_arg
from ..report import Report

STORE_READ = {"has_blob", "fetch_blob", "fetch_paths"}
STORE_MUT = {"store_blob", "sync_paths"}
STORE_IFACE = "dds.store.Store"


class Ctx:
    def __init__(self, prog: Program, sources: Dict[str, Tuple[str, str, bool]], repo: str, report: Report,
                 tier: str = "quick", types: Any = None, want_types: bool = True):
        self.prog = prog
        self.sources = sources
        self.repo = repo
        self.report = report
        self.tier = tier
        self._types = types
        self._want_types = want_types
        self._cg: Optional[Dict[str, Set[str]]] = None
        self.heap: Heap = heap_of(prog)
        _EXC_FACTORIES.clear()
        _EXC_FACTORIES.update(_exception_factories(prog))

    @property
    def types(self) -> Any:
        if self._types is None and self._want_types:
            from ..mtypes import Types

            self._types = Types(self.sources, self.repo)
            if not self._types.available:
                raise AnalysisError(f"mypy type facts unavailable: {self._types.error}")
        return self._types

    def slicer(self, **kw: Any) -> Slicer:
        return Slicer(self.prog, types=self._types, **kw)

    # ------------------------------------------------------------------ call graph
    def callgraph(self) -> Dict[str, Set[str]]:
        if self._cg is None:
            cg: Dict[str, Set[str]] = {}
            for q, f in self.prog.funcs.items():
                outs: Set[str] = set()
                for n in f.own_nodes():
                    if isinstance(n, ast.Call):
                        fs, _ = self.prog.callees(f, n, self._types)
                        outs.update(x.qname for x in fs)
                for nf in f.nested.values():
                    outs.add(nf.qname)  # nested helpers are assumed called by their definer
                cg[q] = outs
            self._cg = cg
        return self._cg

    def reachable_funcs(self, roots: Iterable[str]) -> Set[str]:
        roots = tuple(sorted(roots))
        memo = self.__dict__.setdefault("_reach_memo", {})
        if roots in memo:
            return memo[roots]
        res = self._reachable(roots)
        memo[roots] = res
        return res

    def _reachable(self, roots: Iterable[str]) -> Set[str]:
        cg = self.callgraph()
        seen: Set[str] = set()
        stack = list(roots)
        while stack:
            q = stack.pop()
            if q in seen:
                continue
            seen.add(q)
            stack.extend(cg.get(q, ()))
        return seen

    def call_path(self, root: str, pred: Callable[[str], bool]) -> Optional[List[str]]:
        cg = self.callgraph()
        prev: Dict[str, Optional[str]] = {root: None}
        dq = [root]
        while dq:
            q = dq.pop(0)
            if pred(q):
                path = [q]
                while prev[path[-1]] is not None:
                    path.append(prev[path[-1]])  # type: ignore
                return list(reversed(path))
            for s in sorted(cg.get(q, ())):
                if s not in prev:
                    prev[s] = q
                    dq.append(s)
        return None


# ------------------------------------------------------------------------------------------
# recognisers
# ------------------------------------------------------------------------------------------
def site(f: Func) -> str:
    return f.qname


def key_of(f: Func, node: ast.AST) -> str:
    return stmt_key(node)


def enclosing_stmt(f: Func, node: ast.AST) -> ast.AST:
    return f.module and _encl_stmt(f.module, node)


def _encl_stmt(m: Module, node: ast.AST) -> ast.AST:
    cur = node
    while not isinstance(cur, ast.stmt):
        cur = m.parent[cur]
    return cur


def ancestors(m: Module, node: ast.AST) -> Iterable[ast.AST]:
    cur = node
    while cur in m.parent:
        cur = m.parent[cur]
        yield cur


def store_calls(ctx: Ctx, f: Func, names: Iterable[str]) -> List[ast.Call]:
    """Calls of Store-interface methods inside f (receiver typed Store by mypy, or by method name)."""
    names = set(names)
    out: List[ast.Call] = []
    for n in f.own_nodes():
        if isinstance(n, ast.Call) and isinstance(n.func, ast.Attribute) and n.func.attr in names:
            tq = None
            if ctx._types is not None:
                tq = ctx._types.receiver_class(f.module.name, n.func.value)
            if tq is not None:
                if tq == STORE_IFACE or STORE_IFACE in ctx.prog.all_bases(tq):
                    out.append(n)
            else:
                out.append(n)
    return sorted(out, key=lambda c: (c.lineno, c.col_offset))


def user_calls(f: Func) -> List[ast.Call]:
    """fun(*args, **kwargs) where fun is a parameter of f: the call of the user's function."""
    out = []
    for n in f.own_nodes():
        if (
            isinstance(n, ast.Call)
            and isinstance(n.func, ast.Name)
            and n.func.id in f.params
            and (any(isinstance(a, ast.Starred) for a in n.args) or any(k.arg is None for k in n.keywords))
        ):
            out.append(n)
    return sorted(out, key=lambda c: c.lineno)


_EXC_FACTORIES: Dict[str, str] = {}


def _code_of_construction(e: ast.AST) -> Optional[str]:
    if isinstance(e, ast.Call) and unparse(e.func).endswith("DDSException"):
        for a in list(e.args) + [k.value for k in e.keywords]:
            if isinstance(a, ast.Attribute) and unparse(a.value).endswith("DDSErrorCode"):
                return a.attr
        return ""
    return None


def _exception_factories(prog: Program) -> Dict[str, str]:
    """module-level functions that only build and return a DDSException with one error code
    (`raise _circular_call_error(..)`): simple name -> code"""
    out: Dict[str, str] = {}
    amb: Set[str] = set()
    for f in prog.funcs.values():
        if f.cls is not None or f.parent is not None:
            continue
        rets = [n for n in f.own_nodes() if isinstance(n, ast.Return)]
        if not rets or any(isinstance(n, (ast.Raise, ast.Yield)) for n in f.own_nodes()):
            continue
        codes = {_code_of_construction(r.value) if r.value is not None else None for r in rets}
        if len(codes) == 1 and None not in codes:
            c = next(iter(codes))
            if f.name in out and out[f.name] != c:
                amb.add(f.name)
            out[f.name] = c  # type: ignore
    for a in amb:
        out.pop(a, None)
    return out


def error_code_of(raise_stmt: ast.AST) -> Optional[str]:
    """Member name of DDSErrorCode carried by a `raise DDSException(..., DDSErrorCode.X)` (or by a call of a
    package function that only builds such an exception); '' when no code."""
    if not isinstance(raise_stmt, ast.Raise) or raise_stmt.exc is None:
        return None
    e = raise_stmt.exc
    c = _code_of_construction(e)
    if c is not None:
        return c
    if isinstance(e, ast.Call):
        nm = unparse(e.func).split(".")[-1]
        if nm in _EXC_FACTORIES:
            return _EXC_FACTORIES[nm]
    return None


def raises_with_code(f: Func, code: str) -> List[ast.Raise]:
    return [n for n in f.own_nodes() if isinstance(n, ast.Raise) and error_code_of(n) == code]


def calls_to(ctx: Ctx, f: Func, qnames: Iterable[str]) -> List[ast.Call]:
    qs = set(qnames)
    out = []
    for n in f.own_nodes():
        if isinstance(n, ast.Call):
            fs, d = ctx.prog.callees(f, n, ctx._types)
            if any(x.qname in qs for x in fs) or (d in qs):
                out.append(n)
    return sorted(out, key=lambda c: (c.lineno, c.col_offset))


def unfacade(ctx: "Ctx", f: Func, depth: int = 3) -> Func:
    """The function that does the work of `f` when `f` only delegates: its body (docstring aside) is a single call - as an
    expression statement or a returned value - that resolves to exactly one package function (`set_option(k, v)` ->
    `_registry.set(k, v)`)."""
    cur = f
    for _ in range(depth):
        body = [st for st in cur.node.body if not (isinstance(st, ast.Expr) and isinstance(st.value, ast.Constant))]
        if len(body) != 1 or not isinstance(body[0], (ast.Expr, ast.Return)) or not isinstance(body[0].value, ast.Call):
            break
        fs, _d = ctx.prog.callees(cur, body[0].value, ctx.types)
        fs = [g for g in fs if g.module.name.startswith("dds")]
        if len(fs) != 1 or fs[0] is cur:
            break
        cur = fs[0]
    return cur


def pass_outcomes(cfg: CFG, m: Module, stmt: ast.AST) -> Tuple[List[Node], List[ast.AST]]:
    """
    For a statement (raise / return) guarded by an `if`: the branch nodes of the guard's atomic tests from
    which the statement is unreachable ("the guard let us through"), and the atomic tests themselves.
    """
    guard: Optional[ast.If] = None
    for a in ancestors(m, stmt):
        if isinstance(a, ast.If):
            guard = a
            break
        if isinstance(a, (ast.FunctionDef, ast.AsyncFunctionDef)):
            break
    if guard is None:
        return [], []
    targets = cfg.nodes_of(stmt)
    atoms = _atoms(guard.test)
    outs: List[Node] = []
    # inside a loop the statement is reachable again from every outcome, through the next evaluation of the guard: a path
    # that re-enters the guard's own tests does not count
    atom_branches = [b for b in cfg.nodes if b.kind == "branch" and any(b.ast is a for a in atoms)]
    first = [b for b in atom_branches if atoms and b.ast is atoms[0]]  # every evaluation of the guard starts with its first test
    for a in atoms:
        for b in atom_branches:
            if b.ast is a:
                if cfg.find_path([b], targets, avoid=[x for x in first if x is not b]) is None:
                    outs.append(b)
    return outs, atoms


def _atoms(e: ast.AST) -> List[ast.AST]:
    if isinstance(e, ast.BoolOp):
        out: List[ast.AST] = []
        for v in e.values:
            out += _atoms(v)
        return out
    if isinstance(e, ast.UnaryOp) and isinstance(e.op, ast.Not):
        return _atoms(e.operand)
    return [e]


def witness_path(cfg: CFG, f: Func, path: List[Node]) -> List[str]:
    return CFG.show_path(path, f.module.relpath)


def dominated(ctx: Ctx, f: Func, target: ast.AST, doms: List[Node]) -> Optional[List[str]]:
    """None when every CFG copy of target is dominated by doms; else the witness path."""
    cfg = cfg_of(f)
    for t in cfg.nodes_of(target):
        p = cfg.dominated_by(t, doms)
        if p is not None:
            return witness_path(cfg, f, p)
    return None


def done_nodes(cfg: CFG, node: ast.AST) -> List[Node]:
    """Normal-completion nodes of the statement(s) evaluating `node`."""
    out = []
    for n in cfg.nodes_of(node):
        if n.done is not None:
            out.append(n.done)
        elif n.kind == "test":
            out += [b for b in cfg.nodes if b.kind == "branch" and b.origin is n]
        else:
            out.append(n)
    return out


def in_handler_or_finally(m: Module, node: ast.AST) -> Optional[str]:
    prev = node
    for a in ancestors(m, node):
        if isinstance(a, ast.ExceptHandler):
            return "except"
        if isinstance(a, ast.Try) and any(prev is s for s in a.finalbody):
            return "finally"
        if isinstance(a, (ast.FunctionDef, ast.AsyncFunctionDef)):
            return None
        prev = a
    return None


def local_slice_names(ctx: Ctx, f: Func, expr: ast.AST) -> Slice:
    return ctx.slicer(follow_calls=False, through_compare=True).slice(f, expr)


def find_api_functions(ctx: Ctx) -> Tuple[Func, Func]:
    """(top-level evaluation function, nested-branch function) of dds._api, found by role:
    both call the user's function; the top-level one is the one that SETS the evaluation-context global."""
    m = ctx.prog.module("dds._api")
    g = ctx_global_name(ctx)
    top: Optional[Func] = None
    nested: Optional[Func] = None
    for f in m.funcs.values():
        if not user_calls(f):
            continue
        sets = any(
            isinstance(n, ast.Assign) and any(isinstance(t, ast.Name) and t.id == g for t in n.targets)
            and not (isinstance(n.value, ast.Constant) and n.value.value is None)
            for n in f.own_nodes()
        ) and any(isinstance(n, ast.Global) and g in n.names for n in f.own_nodes())
        if sets:
            top = f
        else:
            nested = f
    if top is None:
        raise AnchorError("role top-level-evaluation (user call + context set in dds._api) not found")
    if nested is None:
        raise AnchorError("role nested-evaluation (user call without context set in dds._api) not found")
    from .roles import path_map_field
    _PATH_MAP_FIELD[0] = path_map_field(ctx)
    ctx.report.roles[top.qname] = "role:top-level-evaluation"
    ctx.report.roles[nested.qname] = "role:nested-evaluation"
    return top, nested


def is_store_impl(ctx: Ctx, f: Func) -> bool:
    c = f_cls(f)
    return c is not None and (c.qname == STORE_IFACE or STORE_IFACE in ctx.prog.all_bases(c.qname))


def holders(ctx: Ctx, names: Iterable[str]) -> Dict[str, Set[str]]:
    """Non-store functions that perform one of the Store calls, directly or through package helpers:
    qname -> the functions it reaches that hold the call directly."""
    names = list(names)
    key = ("holders", tuple(sorted(names)))
    memo = ctx.__dict__.setdefault("_holders_memo", {})
    if key in memo:
        return memo[key]
    direct = {f.qname for f in ctx.prog.funcs.values() if not is_store_impl(ctx, f) and store_calls(ctx, f, names)}
    cg = ctx.callgraph()
    res: Dict[str, Set[str]] = {q: {q} for q in direct}
    changed = True
    while changed:
        changed = False
        for q, outs in cg.items():
            f = ctx.prog.funcs[q]
            if is_store_impl(ctx, f):
                continue
            for o in outs:
                if o in res and not res[o] <= res.get(q, set()):
                    res.setdefault(q, set()).update(res[o])
                    changed = True
    memo[key] = res
    return res


def effect_sites(ctx: Ctx, f: Func, names: Iterable[str]) -> List[ast.Call]:
    """Calls in f that perform one of the Store calls: directly, or by calling a package helper that does
    (the API functions that call the user's function are entry points, not helpers)."""
    names = list(names)
    h = {q: v for q, v in holders(ctx, names).items() if not user_calls(ctx.prog.funcs[q])}
    out = list(store_calls(ctx, f, names))
    for n in f.own_nodes():
        if isinstance(n, ast.Call) and n not in out:
            fs, _ = ctx.prog.callees(f, n, ctx._types)
            if any(x.qname in h and not is_store_impl(ctx, x) for x in fs):
                out.append(n)
    return sorted(out, key=lambda c: (c.lineno, c.col_offset))


def unowned_holders(ctx: Ctx, names: Iterable[str], owners: Iterable[Func]) -> List[Tuple[Func, ast.Call]]:
    """Direct call sites of the Store methods that are not in an owner function nor in a helper whose
    every call site lies (transitively) in an owner."""
    names = list(names)
    owner_q = {f.qname for f in owners}
    direct = [f for f in ctx.prog.funcs.values() if not is_store_impl(ctx, f) and store_calls(ctx, f, names)]
    heap = ctx.heap
    owned: Set[str] = set(owner_q)
    changed = True
    while changed:
        changed = False
        for q in list(ctx.prog.funcs):
            if q in owned:
                continue
            sites = heap.call_sites.get(q, [])
            if sites and all(cf.qname in owned for cf, _ in sites):
                owned.add(q)
                changed = True
    out: List[Tuple[Func, ast.Call]] = []
    for f in direct:
        if f.qname not in owned:
            for c in store_calls(ctx, f, names):
                out.append((f, c))
    return out


def stray_store_calls(ctx: Ctx, names: Iterable[str], allowed: Iterable[Func]) -> List[Tuple[Func, ast.Call]]:
    """Calls of the given Store methods outside the allowed functions and outside Store implementations
    (a wrapper store delegating to the wrapped store is not a stray call)."""
    allowed_q = {f.qname for f in allowed}
    out: List[Tuple[Func, ast.Call]] = []
    for f in ctx.prog.funcs.values():
        if f.qname in allowed_q:
            continue
        c = f_cls(f)
        if c is not None and (c.qname == STORE_IFACE or STORE_IFACE in ctx.prog.all_bases(c.qname)):
            continue
        for call in store_calls(ctx, f, names):
            out.append((f, call))
    return out


def loops_can_iterate(ctx: Ctx, rule: str, modules: Iterable[str], what: str) -> int:
    """every `for` loop of the given modules can run a second iteration: some path leads from the body back to the loop head
    (a `return` / `break` that ends the body unconditionally makes the loop look at its first element only)"""
    rep = ctx.report
    n = 0
    for f in ctx.prog.funcs.values():
        if f.module.name not in modules:
            continue
        loops = [x for x in f.own_nodes() if isinstance(x, ast.For)]
        if not loops:
            continue
        cfg = cfg_of(f)
        for loop in loops:
            heads = [x for x in cfg.nodes if x.kind == "loop" and x.ast is loop]
            tb = [x for x in cfg.nodes if x.kind == "branch" and x.ast is loop and x.label == "T"]
            if not heads or not tb:
                continue
            n += 1
            if cfg.find_path(tb, heads, edge_ok=lambda a, b, lab: lab != "exc") is None:
                last = loop.body[-1]
                rep.bad(rule, f.qname, f"the loop over `{unparse(loop.iter, 40)}` can reach its next element", f.loc(loop),
                        [f"{f.loc(last)}: `{unparse(last, 50)}` ends the body on every path: only the first element of `{unparse(loop.iter, 40)}` is ever processed", what],
                        stmt_key(loop), what="a loop processes its first element only")
    if n:
        rep.ok(rule, "dds", f"{n} loops examined in {sorted(modules)}: none ends its body unconditionally", "dds/", nontrivial=False)
    return n


def no_missing_return(ctx: Ctx, rule: str, modules: Iterable[str], what: str) -> int:
    """mypy reports no `Missing return statement` in the given modules: a function declared to return a value has no path that
    falls off its end (an implicit None where a result was computed just above)"""
    import re
    rep = ctx.report
    rels = {ctx.prog.module(m).relpath: m for m in modules if m in ctx.prog.modules}
    n = len(rels)
    hits = []
    for e in getattr(ctx.types, "errors", []):
        m_ = re.match(r"(.*?):(\d+): error: Missing return statement\s+\[return\]", e)
        if m_ and m_.group(1).replace("\\", "/") in rels:
            hits.append((m_.group(1), int(m_.group(2))))
    if not hits:
        rep.ok(rule, "dds", f"no function of {sorted(rels.values())} can fall off its end where a value is expected", "dds/")
    for rel, ln in hits:
        mod = ctx.prog.module(rels[rel])
        f = None
        for g in ctx.prog.funcs.values():
            if g.module is mod and g.node.lineno <= ln <= getattr(g.node, "end_lineno", g.node.lineno):
                if f is None or g.node.lineno >= f.node.lineno:
                    f = g
        site_ = f.qname if f else rels[rel]
        wit = [f"{rel}:{ln}: mypy: Missing return statement"]
        if f is not None:
            from ..cfg import cfg_of as _c
            cfg = _c(f)
            imp = [a for a in cfg.nodes for (b, lab) in a.succ if b is cfg.exit and lab != "ret" and a.kind not in ("entry",)]
            if imp:
                pth = cfg.find_path([cfg.entry], imp[:1])
                if pth:
                    wit += ["a path that reaches the end of the function without `return`:"] + CFG.show_path(pth, f.module.relpath)[-10:]
        rep.bad(rule, site_, "every path of the function returns a value explicitly", f"{rel}:{ln}", wit + [what], f"missing-return:{site_}",
                what="a result computed by the function is dropped: the caller receives None")
    return n


def sibling_call_sites(ctx: Ctx, rule: str, callees: Iterable[str], what: str) -> int:
    """Cross-check of the call sites of one function: when two sites hand the same two things (same expression text) to the
    callee, they hand them to the same parameters.  (`inspect_call(.., function_body_hash, self._input_sig, ..)` in visit_Call and
    `inspect_call(.., self._input_sig, function_body_hash, ..)` in visit_Name: one of them is wrong.)"""
    from ..flow import bind_arg
    rep = ctx.report
    prog = ctx.prog
    n = 0
    for cq in callees:
        callee = prog.funcs.get(cq)
        if callee is None:
            raise AnchorError(f"{cq} not found")
        sites = []
        for f in prog.funcs.values():
            if f is callee:
                continue
            for c in f.own_nodes():
                if isinstance(c, ast.Call):
                    fs, _ = prog.callees(f, c, ctx._types)
                    if callee in fs and len(fs) == 1:
                        binding = {}
                        for p_ in callee.positional_params():
                            a = bind_arg(callee, c, p_)
                            if len(a) == 1 and isinstance(a[0], (ast.Name, ast.Attribute)):
                                binding[p_] = unparse(a[0])
                        sites.append((f, c, binding))
        for i, (f1, c1, b1) in enumerate(sites):
            for (f2, c2, b2) in sites[i + 1:]:
                n += 1
                swaps = []
                for p_ in b1:
                    for q_ in b1:
                        if p_ < q_ and p_ in b2 and q_ in b2 and b1[p_] != b1[q_] and b1[p_] == b2[q_] and b1[q_] == b2[p_]:
                            swaps.append((p_, q_, b1[p_], b1[q_]))
                desc = f"the call sites of {callee.name} at {f1.loc(c1)} and {f2.loc(c2)} give the same values to the same parameters"
                if swaps:
                    p_, q_, x, y = swaps[0]
                    rep.bad(rule, f2.qname, desc, f2.loc(c2), [f"{f1.loc(c1)}: {p_}={x}, {q_}={y}", f"{f2.loc(c2)}: {p_}={y}, {q_}={x}", what], f"swap:{p_}:{q_}",
                            what=f"two call sites of {callee.name} pass `{x}` and `{y}` in opposite order")
                else:
                    rep.ok(rule, f2.qname, desc, f2.loc(c2))
    return n


def kinds_not_confused(ctx: Ctx, rule: str, modules: Iterable[str], what: str, callees: Iterable[str] = ()) -> int:
    """The package gives each kind of name its own type (NewType / class): LocalDepPath (a name as written in a function),
    CanonicalPath (a resolved object), DDSPath (a store path), PyHash (a signature), ...  mypy reports no argument /
    assignment / return / index / item whose kind is another one than declared, in the given modules.  (The pinned tree is
    clean; a memo keyed by the local name instead of the canonical path, a path registered under a hash... are such errors.)"""
    import re
    rep = ctx.report
    kinds: List[str] = []
    st_mod = ctx.prog.modules.get("dds.structures")
    if st_mod is None:
        raise AnchorError("dds.structures not found")
    for mod_ in ctx.prog.modules.values():
        for name, sts in mod_.assigns.items():
            for st in sts:
                v = getattr(st, "value", None)
                if isinstance(v, ast.Call) and unparse(v.func).split(".")[-1] == "NewType" and name not in kinds:
                    kinds.append(name)
    for c in ctx.prog.classes.values():
        if c.module is st_mod and c.name.endswith("Path"):
            kinds.append(c.name)
    rels = {ctx.prog.module(m).relpath: m for m in modules if m in ctx.prog.modules}
    hits = []
    for e in getattr(ctx.types, "errors", []):
        m_ = re.match(r"(.*?):(\d+): error: (.*)\[(arg-type|index)\]\s*$", e)
        if not (m_ and m_.group(1).replace("\\", "/") in rels):
            continue
        msg_ = m_.group(3)
        t_ = re.search(r'has incompatible type "([^"]*)"; expected "([^"]*)"', msg_)
        if t_ is None:
            # a table of one kind of key indexed by another kind: `Invalid index type "ProtocolRef" for "Dict[SupportedType, ...]"; expected type "SupportedType"`
            t_ = re.search(r'Invalid index type "([^"]*)" for "[^"]*"; expected type "([^"]*)"', msg_)
        if t_ is None:
            continue
        got_k = {k for k in kinds if re.search(r"\b" + k + r"\b", t_.group(1))}
        exp_k = {k for k in kinds if re.search(r"\b" + k + r"\b", t_.group(2))}
        # an argument of one kind where another kind is declared (imprecise annotations - Any, unions that contain the declared kind - are not this)
        confused = bool(got_k) and bool(exp_k) and not (got_k & exp_k) and "Any" not in t_.group(1)
        if confused or any(f'"{c_}"' in msg_ for c_ in callees):
            hits.append((m_.group(1), int(m_.group(2)), msg_.strip()))
    if not hits:
        rep.ok(rule, "dds", f"no value of one kind ({', '.join(sorted(kinds))}) is used where another is declared, in {sorted(rels.values())}", "dds/")
    for rel, ln, msg in hits:
        mod = ctx.prog.module(rels[rel])
        f = None
        for g in ctx.prog.funcs.values():
            if g.module is mod and g.node.lineno <= ln <= getattr(g.node, "end_lineno", g.node.lineno):
                if f is None or g.node.lineno >= f.node.lineno:
                    f = g
        site_ = f.qname if f else rels[rel]
        rep.bad(rule, site_, "values are used as the kind of name they are declared to be", f"{rel}:{ln}", [f"{rel}:{ln}: mypy: {msg}", what],
                "kind:" + re.sub(r"\d+", "", msg)[:80], what="a name of one kind is used where another kind is expected: " + msg[:100])
    return len(kinds)


_PATH_MAP_FIELD = ["requested_paths"]  # set by Ctx users through roles.path_map_field (the field may be renamed)


def path_map_value(top: Func) -> Optional[ast.AST]:
    """the value given to the evaluation context's `requested_paths` field by the top-level function:
    `ctx._replace(requested_paths=X)` or a (re)construction `EvalContext(requested_paths=X, ...)` with a non-empty X"""
    req = None
    _pmf = _PATH_MAP_FIELD[0]
    for n in top.own_nodes():
        if isinstance(n, ast.Call):
            for k in n.keywords:
                if k.arg == _pmf:
                    v = k.value
                    empty = (isinstance(v, ast.Dict) and not v.keys) or (isinstance(v, ast.Call) and not v.args and not v.keywords)
                    if not empty:
                        req = v
    return req


def ctx_global_name(ctx: Ctx) -> str:
    """The module global of dds._api that marks a running evaluation (annotated with EvalContext)."""
    m = ctx.prog.module("dds._api")
    for name, sts in m.assigns.items():
        for st in sts:
            if isinstance(st, ast.AnnAssign) and "EvalContext" in unparse(st.annotation):
                return name
    if "_eval_ctx" in m.assigns:
        return "_eval_ctx"
    raise AnchorError("role evaluation-context-global not found in dds._api")


def forwarding_complete(ctx: Ctx, rule: str, why: str) -> int:
    """A package function that takes `*args` and `**kwargs` and hands one of them to a call hands over the other one too (in the same call):
    the public entry points, the decorators' wrappers and the internal API forward the user's arguments whole - a keyword argument that is
    dropped on the way is neither part of the key nor given to the user function, which then runs (and is keyed) with its default."""
    rep = ctx.report
    prog = ctx.prog
    n = 0
    for f in prog.funcs.values():
        if not f.module.name.startswith("dds") or f.module.name.startswith("dds_tests"):
            continue
        a = f.node.args
        if a.vararg is None or a.kwarg is None:
            continue
        va, kw = a.vararg.arg, a.kwarg.arg
        for c in f.own_nodes():
            if not isinstance(c, ast.Call):
                continue
            has_va = any((isinstance(x, ast.Starred) and isinstance(x.value, ast.Name) and x.value.id == va) or (isinstance(x, ast.Name) and x.id == va) for x in c.args) \
                or any(isinstance(k.value, ast.Name) and k.value.id == va and k.arg is not None for k in c.keywords)
            has_kw = any(k.arg is None and isinstance(k.value, ast.Name) and k.value.id == kw for k in c.keywords) or any(isinstance(x, ast.Name) and x.id == kw for x in c.args) \
                or any(isinstance(k.value, ast.Name) and k.value.id == kw and k.arg is not None for k in c.keywords)
            if not (has_va or has_kw):
                continue
            d = prog.dotted(f, c.func) or unparse(c.func)
            if d in ("len", "bool", "list", "tuple", "dict", "sorted", "repr", "str", "isinstance") or d.split(".")[-1] in ("debug", "info", "warning", "error", "format"):
                continue
            n += 1
            desc = f"{f.name}: `{unparse(c, 60)}` hands over both `*{va}` and `**{kw}`"
            if has_va and has_kw:
                rep.ok(rule, f.qname, desc, f.loc(c))
            else:
                missing = f"**{kw}" if has_va else f"*{va}"
                rep.bad(rule, f.qname, desc, f.loc(c), [f"{f.loc(c)}: `{unparse(c, 80)}` forwards {'*' + va if has_va else '**' + kw} but not {missing}", why],
                        stmt_key(c), what=f"{f.name} drops {missing} when it forwards the call")
    return n


def never_none_globals(ctx: Ctx, f: Func) -> Dict[str, bool]:
    """atoms `<name> is None` that are false for this function: <name> is a module-level variable of the package bound once, to the result of a
    constructor call (`_global_context = GlobalContext()`), and never assigned inside a function"""
    prog = ctx.prog
    world: Dict[str, bool] = {}
    for n in f.own_nodes():
        if isinstance(n, ast.Compare) and len(n.ops) == 1 and isinstance(n.ops[0], (ast.Is, ast.IsNot)) and isinstance(n.left, ast.Name) \
                and isinstance(n.comparators[0], ast.Constant) and n.comparators[0].value is None and not prog.is_local(f, n.left.id):
            d = prog.resolve_name(f, n.left.id)
            if d is None:
                continue
            mod, _, nm = d.rpartition(".")
            m = prog.modules.get(mod)
            if m is None or nm not in m.assigns or len(m.assigns[nm]) != 1:
                continue
            v = getattr(m.assigns[nm][0], "value", None)
            if not (isinstance(v, ast.Call) and isinstance(v.func, ast.Name) and v.func.id[:1].isupper()):
                continue
            rebound = any(isinstance(g_, ast.Global) and nm in g_.names for h in prog.funcs.values() if h.module is m for g_ in h.own_nodes())
            if not rebound:
                world[f"{n.left.id} is None"] = False
    return world


def refusal_live(ctx: Ctx, rule: str, why: str) -> int:
    """The resolution that refuses the callables of non-accepted modules (`ObjectRetrieval.retrieve_object_global`, called by the entry functions of the
    analysis for every path of the call tree) is live in each of them: there is a path from the entry to the call whose branch outcomes can hold
    when the module-level objects that are never None are not None.  A guard written `if <global> is None:` makes the block dead code."""
    from ..propdom import excluding_branches
    rep = ctx.report
    prog = ctx.prog
    n = 0
    for f in prog.funcs.values():
        if f.module.name != "dds.introspect":
            continue
        calls = [c for c in f.own_nodes() if isinstance(c, ast.Call) and isinstance(c.func, ast.Attribute) and c.func.attr == "retrieve_object_global"]
        if not calls:
            continue
        cfg = cfg_of(f)
        world = never_none_globals(ctx, f)
        avoid = excluding_branches(prog, f, cfg, world) if world else []
        for c in calls:
            n += 1
            desc = f"{f.name}: the resolution of the paths of the call tree (which refuses callables of modules that are not accepted) can run"
            tg = cfg.nodes_of(c)
            p = cfg.find_path([cfg.entry], tg, avoid=avoid) if tg else None
            if p is not None:
                rep.ok(rule, f.qname, desc, f.loc(c))
            else:
                dead = [b for b in avoid if b.ast is not None]
                rep.bad(rule, f.qname, desc, f.loc(c), [f"{f.loc(c)}: `{unparse(c, 60)}` is reached only through " + ", ".join(f"[{b.label}] {unparse(b.ast, 40)}" for b in dead[:3])
                        + f", which cannot hold: {sorted(world)} are never true (module-level objects bound once)", why], stmt_key(c),
                        what=f"the refusal of callables of non-accepted modules is dead code in {f.name}")
            # the kinds of callable for which the resolution is skipped (`not is_lambda(f) and ...`): they are refused by a test of their own
            skip_atoms = set()

            def _kind_test(y: ast.AST, f_=f) -> Optional[str]:
                if isinstance(y, ast.Call) and isinstance(y.func, ast.Name) and y.func.id.startswith("is_") and len(y.args) == 1 and isinstance(y.args[0], ast.Name) \
                        and y.args[0].id in f_.params:
                    return unparse(y)
                return None
            # (the test may be held in a local first: `lambda_fun = is_lambda(f)`, `if not lambda_fun: <resolution>`)
            for y in f.own_nodes():
                if _kind_test(y) is not None:
                    skip_atoms.add(unparse(y))
            for atom in sorted(skip_atoms):
                w2 = dict(world)
                w2[atom] = True
                av2 = excluding_branches(prog, f, cfg, w2, _kind_test)
                if cfg.find_path([cfg.entry], tg, avoid=av2) is not None:
                    continue   # the resolution also runs for this kind
                n += 1
                d2 = f"{f.name}: a callable for which `{atom}` holds (the resolution of the call tree is skipped for it) is refused when its module is not accepted"
                auth_T = [b for b in cfg.nodes if b.kind == "branch" and b.ast is not None and isinstance(b.ast, ast.expr) and "is_authorized_path" in unparse(b.ast) and (
                    (b.label == "T" and unparse(b.ast).startswith("not ")) or (b.label == "F" and not unparse(b.ast).startswith("not ")))]
                kind_T = [b for b in cfg.nodes if b.kind == "branch" and b.ast is not None and isinstance(b.ast, ast.expr) and b not in av2 and atom in unparse(b.ast)]
                raises = [r for r in f.own_nodes() if isinstance(r, ast.Raise)]
                good = [r for r in raises if auth_T and any(cfg.dominated_by(t_, auth_T) is None for t_ in cfg.nodes_of(r)) and cfg.find_path([cfg.entry], cfg.nodes_of(r), avoid=av2) is not None]
                if good:
                    rep.ok(rule, f.qname, d2, f.loc(good[0]))
                else:
                    rep.bad(rule, f.qname, d2, f.loc(c), [f"{f.loc(c)}: the resolution is not reached when `{atom}`, and no raise under a failed `is_authorized_path(..)` test is reached either",
                            "dds.keep('/p', lambda: 11) executed by code of a module that is not accepted is evaluated and stored, where a named function of that module is refused"],
                            f"kind-not-refused:{atom}", what=f"callables with `{atom}` of non-accepted modules are evaluated untracked")
    return n


def display_calls_are_dry(ctx: Ctx, rule: str) -> int:
    """The package's own calls of the evaluation API that throw the result away (they are made for the exported graph: `displayGraph`) are restricted to
    the analysis stage by a literal stage list: they run no user code, store no blob and commit no path."""
    rep = ctx.report
    prog = ctx.prog
    n = 0
    for f in prog.funcs.values():
        if not f.module.name.startswith("dds") or f.module.name.startswith("dds_tests") or f.module.name in ("dds", "dds._api"):
            continue
        for st in f.own_nodes():
            if not (isinstance(st, ast.Expr) and isinstance(st.value, ast.Call)):
                continue
            c = st.value
            d = prog.dotted(f, c.func) or ""
            if d not in ("dds._api.eval", "dds.eval", "dds._api._eval"):
                continue
            n += 1
            kws = {k.arg: k.value for k in c.keywords}
            stg = kws.get("dds_stages")
            desc = f"{f.name}: the evaluation made for its graph only is restricted to the analysis stage"
            names = None
            if isinstance(stg, (ast.List, ast.Tuple)):
                names = []
                for e in stg.elts:
                    if isinstance(e, ast.Constant) and isinstance(e.value, str):
                        names.append(e.value.lower())
                    elif isinstance(e, ast.Attribute):
                        names.append(e.attr.lower())
                    else:
                        names = None
                        break
            if names is not None and names and all(x == "analysis" for x in names):
                rep.ok(rule, f.qname, desc, f.loc(c))
            else:
                rep.bad(rule, f.qname, desc, f.loc(c), [f"{f.loc(c)}: dds_stages is `{unparse(stg, 40) if stg is not None else 'not given'}` (None / absent means every stage)",
                        "displaying the graph of a pipeline runs the user functions, writes their blobs and commits every path, while the caller only asked for a picture"],
                        stmt_key(c), what=f"{f.name} evaluates for real where it is meant to analyse only")
    return n


def collected_is_used(ctx: Ctx, rule: str, modules: Iterable[str], why: str) -> int:
    """A local collection that a function of the analysis fills (`xs = []` ... `xs.append(..)` in a loop) is read afterwards - returned, passed on,
    iterated: the interactions found in the methods of a class, the sub-calls of a function, the loaded paths are collected to become part of
    the record that the function returns.  A collection that is only ever appended to has been dropped from that record."""
    rep = ctx.report
    prog = ctx.prog
    n = 0
    MUT = ("append", "extend", "add", "update", "insert", "setdefault")
    for f in prog.funcs.values():
        if f.module.name not in modules:
            continue
        # functions that build the record they return (`return FunctionInteractions(...)` / `...IndirectInteractions(...)`)
        if not any(isinstance(r, ast.Return) and isinstance(r.value, ast.Call) and unparse(r.value.func).split(".")[-1].endswith("Interactions") for r in f.own_nodes()):
            continue
        inits = {}
        for st in f.own_nodes():
            if isinstance(st, (ast.Assign, ast.AnnAssign)) and st.value is not None:
                tg = st.targets[0] if isinstance(st, ast.Assign) and len(st.targets) == 1 else (st.target if isinstance(st, ast.AnnAssign) else None)
                v = st.value
                empty = (isinstance(v, (ast.List, ast.Dict, ast.Set)) and not (v.keys if isinstance(v, ast.Dict) else v.elts)) or (
                    isinstance(v, ast.Call) and not v.args and not v.keywords and unparse(v.func).split(".")[-1] in ("list", "dict", "set", "OrderedDict"))
                if isinstance(tg, ast.Name) and empty:
                    inits[tg.id] = st
        for name, st in inits.items():
            fills = reads = 0
            for y in f.own_nodes():
                if isinstance(y, ast.Name) and y.id == name and isinstance(y.ctx, ast.Load):
                    par = f.module.parent.get(y)
                    gp = f.module.parent.get(par) if par is not None else None
                    if isinstance(par, ast.Attribute) and par.attr in MUT and isinstance(gp, ast.Call) and gp.func is par:
                        fills += 1
                    elif isinstance(par, ast.Subscript) and isinstance(par.ctx, ast.Store) and par.value is y:
                        fills += 1
                    else:
                        reads += 1
            # also read when a nested function / lambda of f reads it
            for g in f.nested.values():
                for y in g.own_nodes():
                    if isinstance(y, ast.Name) and y.id == name and isinstance(y.ctx, ast.Load):
                        reads += 1
            if not fills:
                continue
            n += 1
            desc = f"{f.name}: the collection `{name}` that the function fills is used afterwards"
            if reads:
                rep.ok(rule, f.qname, desc, f.loc(st))
            else:
                rep.bad(rule, f.qname, desc, f.loc(st), [f"{f.loc(st)}: `{name}` is filled ({fills} site(s)) and never read", why], f"collected-unused:{name}",
                        what=f"{f.name} collects `{name}` and drops it")
    return n


_SHARE_CACHE_KEY = "_shared_runs"


def share_rules(ctx: Ctx, other_prop: str, prefix: str, only: Iterable[str], why: str) -> int:
    """Run the rules of another property on the same program (once per run, cached) and take over the obligations of the rules named in `only` under the rule
    identifier `prefix` (`<prefix>/<original rule>`): a rule of another property that is a necessary condition of this one as well.  The other module runs against a
    report of its own (its property-specific guards see its own property); floors of the adopted rules are adopted too.  Returns the number of adopted obligations."""
    import copy
    import importlib
    rep = ctx.report
    cache = ctx.__dict__.setdefault(_SHARE_CACHE_KEY, {})
    sub = cache.get(other_prop)
    if sub is None:
        sub = Report(other_prop, rep.tier, rep.seed, rep.repo)
        c2 = copy.copy(ctx)
        c2.report = sub
        mod = importlib.import_module(f"ddsverif.rules.{other_prop.lower()}")
        try:
            mod.run(c2)
        except AnalysisError as e:
            sub.error(f"{type(e).__name__}: {e}")
        # the sub-run may have computed the type facts: keep them
        if ctx._types is None and c2._types is not None:
            ctx._types = c2._types
        cache[other_prop] = sub
    only = list(only)

    def wanted(r: str) -> bool:
        return any(r == o or r.startswith(o + "/") or r.endswith("/" + o) for o in only)
    n = 0
    rep.rule(prefix, why + " (shared: " + ", ".join(only) + ")")
    for ob in sub.obligations:
        if wanted(ob.rule):
            ob2 = copy.copy(ob)
            ob2.rule = f"{prefix}/{ob.rule}"
            ob2.known = False
            rep.add(ob2)
            n += 1
    for r, fl in sub.floors.items():
        if wanted(r):
            rep.floor(f"{prefix}/{r}", fl["instances"], fl["floor"])
    for q, lab in sub.roles.items():
        rep.roles.setdefault(q, lab)
    for e in sub.errors:
        # an anchor that vanished inside an adopted rule is this run's problem too
        if any(o in e for o in only):
            rep.error(f"[shared {other_prop}] {e}")
    if n == 0:
        rep.error(f"shared rules {only} of {other_prop} produced no obligation (under {prefix})")
    return n


def no_dead_duplicate_dispatch(ctx: Ctx, rule: str, modules: Iterable[str], why: str) -> int:
    """In a statement list, two `if` statements with the same test where the body of the first always leaves (return / raise / continue / break) make the second
    one dead code: in a dispatch on the kind of a value (`if isinstance(obj, ModuleType): .. return`, `if isinstance(obj, FunctionType): .. return`,
    `if isinstance(obj, type): ..`) a copied test means that one kind is no longer handled."""
    rep = ctx.report
    prog = ctx.prog
    n = 0

    def leaves(body: List[ast.stmt]) -> bool:
        if not body:
            return False
        last = body[-1]
        if isinstance(last, (ast.Return, ast.Raise, ast.Continue, ast.Break)):
            return True
        if isinstance(last, ast.If) and last.orelse:
            return leaves(last.body) and leaves(last.orelse)
        return False
    for f in prog.funcs.values():
        if f.module.name not in modules:
            continue
        bodies: List[List[ast.stmt]] = []
        for y in [f.node] + [x for x in f.own_nodes() if isinstance(x, (ast.If, ast.For, ast.While, ast.With, ast.Try))]:
            for fld in ("body", "orelse", "finalbody"):
                b = getattr(y, fld, None)
                if isinstance(b, list) and b and isinstance(b[0], ast.stmt):
                    bodies.append(b)
        for b in bodies:
            ifs = [st for st in b if isinstance(st, ast.If) and any(isinstance(x, ast.Call) and unparse(x.func) == "isinstance" for x in ast.walk(st.test))]
            if len(ifs) < 2:
                continue
            n += 1
            seen: Dict[str, ast.If] = {}
            dup = None
            for st in ifs:
                t = unparse(st.test, 200)
                if t in seen and leaves(seen[t].body):
                    dup = (seen[t], st)
                    break
                seen.setdefault(t, st)
            desc = f"{f.name}: the kind tests `{[unparse(st.test, 40) for st in ifs][:4]}` of one dispatch are pairwise different"
            if dup is None:
                rep.ok(rule, f.qname, desc, f.loc(ifs[0]))
            else:
                rep.bad(rule, f.qname, desc, f.loc(dup[1]), [f"{f.loc(dup[1])}: `if {unparse(dup[1].test, 60)}` repeats the test at {f.loc(dup[0])}, whose branch always leaves: this branch is dead", why],
                        stmt_key(dup[1]), what=f"a kind of object is no longer handled by the dispatch in {f.name} (a test is duplicated)")
    return n


def replace_result_used(ctx: Ctx, rule: str) -> int:
    """`record._replace(..)` (NamedTuple) returns a NEW record: a statement that calls it and drops the result changes nothing.  Every `_replace` call of the package is
    the value of something (assigned, returned, passed)."""
    rep = ctx.report
    prog = ctx.prog
    n = 0
    for f in prog.funcs.values():
        if not f.module.name.startswith("dds") or f.module.name.startswith("dds_tests"):
            continue
        for st in f.own_nodes():
            for c in ([st.value] if isinstance(st, ast.Expr) and isinstance(st.value, ast.Call) else []):
                if isinstance(c.func, ast.Attribute) and c.func.attr == "_replace":
                    n += 1
                    rep.bad(rule, f.qname, f"the record built by `{unparse(c, 50)}` is used", f.loc(st), [f"{f.loc(st)}: the call is a statement of its own: the new record is dropped, "
                            f"`{unparse(c.func.value, 30)}` keeps its fields", "a path produced by `dds.keep(p, f)` is not recorded in the interactions of the first pass: a load of p later in the same "
                            "evaluation is taken for an external path (refused on a fresh store, served the previous content otherwise)"], stmt_key(st),
                            what="the result of a `_replace` is discarded: the field it sets keeps its old value")
        for c in f.own_nodes():
            if isinstance(c, ast.Call) and isinstance(c.func, ast.Attribute) and c.func.attr == "_replace":
                par = f.module.parent.get(c)
                if not isinstance(par, ast.Expr):
                    n += 1
                    rep.ok(rule, f.qname, f"the record built by `{unparse(c, 50)}` is used", f.loc(c))
    return n


def public_aliases_call(ctx: Ctx, rule: str) -> int:
    """A public function of the package front (`dds/__init__.py`) that hands its job to an internal function CALLS it: `return _accept_module` (the function object, no call)
    type-checks as a value, warns as documented, and does nothing."""
    rep = ctx.report
    prog = ctx.prog
    n = 0
    for f in prog.funcs.values():
        if f.module.name != "dds" or f.parent is not None:
            continue
        for r in f.own_nodes():
            if not (isinstance(r, ast.Return) and r.value is not None):
                continue
            v = r.value
            if isinstance(v, ast.Call):
                fs, _ = prog.callees(f, v, ctx._types)
                if any(g.module.name.startswith("dds") for g in fs):
                    n += 1
                    rep.ok(rule, f.qname, f"{f.name} calls the internal function it stands for", f.loc(r))
            elif isinstance(v, (ast.Name, ast.Attribute)):
                d = prog.dotted(f, v) or ""
                g = prog.funcs.get(d)
                if g is not None and g.module.name.startswith("dds") and g.parent is None:
                    n += 1
                    rep.bad(rule, f.qname, f"{f.name} calls the internal function it stands for", f.loc(r), [f"{f.loc(r)}: `{unparse(r, 50)}` returns the function `{d}` itself: it is never called",
                            "dds.whitelist_module('pkg') warns and returns: the package is not accepted, the edits of its functions and variables change no signature and stale results are served"],
                            stmt_key(r), what=f"the public function {f.name} returns an internal function instead of calling it")
    return n


def enum_listing_in_declaration_order(ctx: Ctx, rule: str, cls_q: str, why: str) -> int:
    """A method of an enumeration that lists its members (`all_phases`) lists every member once, in the order of their declaration - the documented order, which the
    parser of user-given lists compares positions with."""
    rep = ctx.report
    k = ctx.prog.cls(cls_q)
    if k is None:
        raise AnchorError(f"{cls_q} not found")
    members = [st.targets[0].id for st in k.node.body if isinstance(st, ast.Assign) and len(st.targets) == 1 and isinstance(st.targets[0], ast.Name) and isinstance(st.value, ast.Constant)]
    n = 0
    for m in k.methods.values():
        for r in m.own_nodes():
            val = r.value if isinstance(r, ast.Return) else None
            # (the list may be a module-level constant that the method returns, or a copy of it)
            if isinstance(val, ast.Call) and len(val.args) == 1 and not val.keywords and unparse(val.func) in ("list", "tuple"):
                val = val.args[0]
            if isinstance(val, ast.Name):
                sts = m.module.assigns.get(val.id, [])
                if len(sts) == 1 and getattr(sts[0], "value", None) is not None:
                    val = sts[0].value
            if isinstance(val, ast.Name) and val.id in (k.name, "cls") and isinstance(r, ast.Return) and isinstance(r.value, ast.Call):
                # `list(ProcessingStage)`: the members of an enumeration are iterated in the order of their declaration
                n += 1
                rep.ok(rule, m.qname, f"{k.name}.{m.name} lists the members in their declaration order (iteration over the enumeration)", m.loc(r))
                continue
            if isinstance(val, (ast.List, ast.Tuple)) and val.elts and all(
                    isinstance(e, ast.Attribute) and isinstance(e.value, ast.Name) and e.value.id in (k.name, "cls") for e in val.elts):
                n += 1
                got = [e.attr for e in val.elts]  # type: ignore
                desc = f"{k.name}.{m.name} lists the members in their declaration order"
                if got == members:
                    rep.ok(rule, m.qname, desc, m.loc(r))
                else:
                    rep.bad(rule, m.qname, desc, m.loc(r), [f"{m.loc(r)}: listed {got}", f"declared {members}", why], "enum-order", what=f"{k.name}.{m.name} lists the stages in another order than they run")
    return n

