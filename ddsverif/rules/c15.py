"""
C15 - restricting the stages makes an evaluation a side-effect-free dry run.

R1  every user call and store mutation of the top-level evaluation function is dominated by an outcome
    of a test that implies EVAL in stages.
R2  every path commit is dominated by an outcome that implies PATH_COMMIT in stages; paths are committed
    nowhere else (who-may-call).
R3  nothing that runs before the EVAL guard (analysis, graph export) can reach a store mutation or call
    user code.
R4  decode table of the stage list parser: every spelling of every prefix decodes to that prefix;
    out-of-order lists and unknown names are rejected with a DDSException.
R5  the stage list does not flow into any call made by the analysis region (so signatures cannot
    depend on it).
"""
from __future__ import annotations

import ast
from typing import Dict, List, Optional, Set, Tuple

from ..absint import Evaluator, Const, EnumMember, EnumClass, TOP, NOT_HANDLED
from ..cfg import cfg_of, Node
from ..model import unparse, stmt_key, Func, AnchorError
from .common import (
    Ctx, find_api_functions, user_calls, store_calls, effect_sites, unowned_holders, holders, is_store_impl,
    witness_path, dominated, STORE_MUT, done_nodes,
)

PROP = "C15"
STAGE_ENUM = "dds.structures.ProcessingStage"


def stage_tests(ctx: Ctx, f: Func, member: str) -> Tuple[List[Node], List[Node]]:
    """(branch nodes implying `member in stages`, all test nodes whose expression derives from the stage list)"""
    cfg = cfg_of(f)
    implying: List[Node] = []
    related: List[Node] = []
    stage_params = [p for p in f.params if "stage" in p]
    for n in cfg.nodes:
        if n.kind != "test" or n.ast is None:
            continue
        sl = ctx.slicer(follow_calls=False, through_compare=True).slice(f, n.ast)
        if not any(sl.has_param(f, p) for p in stage_params):
            continue
        related.append(n)
        e = n.ast
        if isinstance(e, ast.Compare) and len(e.ops) == 1 and isinstance(e.ops[0], (ast.In, ast.NotIn)):
            left = e.left
            if isinstance(left, ast.Attribute) and left.attr == member and (ctx.prog.dotted(f, left.value) or "").endswith("ProcessingStage"):
                want = "T" if isinstance(e.ops[0], ast.In) else "F"
                implying += [b for b in cfg.nodes if b.kind == "branch" and b.origin is n and b.label == want]
    return implying, related


def run(ctx: Ctx) -> None:
    rep = ctx.report
    prog = ctx.prog
    ctx.types
    top, nested = find_api_functions(ctx)
    cfg = cfg_of(top)
    rep.rule("C15.R1", "user call / store mutation dominated by an outcome implying ProcessingStage.EVAL in stages")
    rep.rule("C15.R2", "path commit dominated by an outcome implying ProcessingStage.PATH_COMMIT in stages; no other committer")
    rep.rule("C15.R3", "no callee of the analysis region reaches store_blob / sync_paths or calls a function parameter with *args")
    rep.rule("C15.R4", "abstract evaluation of the stage parser over spellings x prefixes x disorder")
    rep.rule("C15.R5", "the stage list is not an argument of any call of the analysis region")

    if not any("stage" in p for p in top.params):
        raise AnchorError(f"{top.qname} has no stage-list parameter")

    # ---- R1 -------------------------------------------------------------------------------
    eval_imp, related = stage_tests(ctx, top, "EVAL")
    targets: List[Tuple[str, ast.Call]] = [("user call", c) for c in user_calls(top)]
    targets += [("store mutation", c) for c in effect_sites(ctx, top, STORE_MUT)]
    for kind, t in targets:
        desc = f"{kind} `{unparse(t, 40)}` runs only when the EVAL stage was requested"
        w = dominated(ctx, top, t, eval_imp)
        if w is None:
            rep.ok("C15.R1", top.qname, desc, top.loc(t))
        else:
            rep.bad("C15.R1", top.qname, desc, top.loc(t), ["path on which the EVAL stage is not required:"] + w,
                    stmt_key(t), what=f"{kind} runs although the evaluation was restricted to the analysis stage")
    rep.floor("C15.R1", len(targets), 3)

    # ---- R2 -------------------------------------------------------------------------------
    pc_imp, _ = stage_tests(ctx, top, "PATH_COMMIT")
    syncs = effect_sites(ctx, top, ["sync_paths"])
    for t in syncs:
        desc = f"path commit `{unparse(t, 40)}` runs only when the PATH_COMMIT stage was requested"
        w = dominated(ctx, top, t, pc_imp)
        if w is None:
            rep.ok("C15.R2", top.qname, desc, top.loc(t))
        else:
            rep.bad("C15.R2", top.qname, desc, top.loc(t), ["path on which PATH_COMMIT is not required:"] + w,
                    stmt_key(t), what="paths are committed although the evaluation stops before the path-commit stage")
    strays = unowned_holders(ctx, ["sync_paths"], [top])
    for sf, call in strays:
        rep.bad("C15.R2", sf.qname, f"sync_paths is called only from {top.name} (where the stage guard is)", sf.loc(call),
                [f"{sf.loc(call)}: `{unparse(call, 70)}` is not covered by the PATH_COMMIT guard"], stmt_key(call),
                what="paths are committed by code that does not consult the requested stages")
    if not strays:
        rep.ok("C15.R2", "dds", f"sync_paths is called only from {top.name} (and delegating stores)", "dds/")
    rep.floor("C15.R2", len(syncs), 1)

    # ---- R3 / R5 ----------------------------------------------------------------------------
    guard_tests = [n for n in cfg.nodes if n.kind == "test" and any(b.origin is n for b in eval_imp)]
    region_calls: List[ast.Call] = []
    if guard_tests:
        for n in top.own_nodes():
            if isinstance(n, ast.Call):
                for cn in cfg.nodes_of(n):
                    if cfg.find_path([cn], guard_tests) is not None:
                        region_calls.append(n)
                        break
    mut_holders = holders(ctx, STORE_MUT)
    n3 = 0
    stage_params = [p for p in top.params if "stage" in p]
    for c in region_calls:
        fs, d = prog.callees(top, c, ctx._types)
        for g in fs:
            if is_store_impl(ctx, g):
                continue
            n3 += 1
            reach = ctx.reachable_funcs([g.qname])
            bad_mut = sorted(q for q in reach if q in mut_holders and mut_holders[q] & {q})
            bad_user = sorted(q for q in reach if user_calls(prog.funcs[q]))
            desc = f"`{g.qname}` (called before the stage guard) reaches no store mutation and no user call"
            if bad_mut or bad_user:
                pth = ctx.call_path(g.qname, lambda q: q in bad_mut or q in bad_user)
                rep.bad("C15.R3", top.qname, desc, top.loc(c), [f"call chain: {' -> '.join(pth or [])}"], stmt_key(c) + g.name,
                        what="the analysis stage can write to the store or run user code")
            else:
                rep.ok("C15.R3", top.qname, desc, top.loc(c))
        # R5
        for a in list(c.args) + [k.value for k in c.keywords]:
            sl = ctx.slicer(follow_calls=False).slice(top, a)
            hit = [p for p in stage_params if sl.has_param(top, p)]
            if hit and not (d or "").endswith((".debug", ".info", ".warning")) and not unparse(c.func).startswith("_logger"):
                rep.bad("C15.R5", top.qname, "the stage list does not reach the analysis", top.loc(c),
                        sl.has_param(top, hit[0]).chain(), stmt_key(c), what="the requested stages flow into the analysis (signatures may depend on them)")
    rep.ok("C15.R5", top.qname, f"{len(region_calls)} call(s) precede the stage guard; none receives the stage list", top.loc())
    rep.floor("C15.R3", n3, 4)

    # ---- R4 decode table ---------------------------------------------------------------------
    from .roles import stage_parser as _stage_parser
    parser = _stage_parser(ctx)
    ev = Evaluator(prog)
    enum = ev.enum_class(STAGE_ENUM)
    if enum is None:
        raise AnchorError(f"{STAGE_ENUM} is not an enumeration")
    phases_out = ev.run(prog.funcs[f"{STAGE_ENUM}.all_phases"], [])
    order = None
    if len(phases_out) == 1 and phases_out[0].kind == "return" and isinstance(phases_out[0].value, list):
        order = phases_out[0].value
    if not order or not all(isinstance(x, EnumMember) for x in order):
        rep.unknown("C15.R4", parser.qname, "cannot evaluate ProcessingStage.all_phases() abstractly", parser.loc())
        return
    names = [m.name for m in order]
    if set(names) != set(enum.members):
        rep.bad("C15.R4", f"{STAGE_ENUM}.all_phases", "all_phases lists every stage exactly once", parser.loc(),
                [f"members {list(enum.members)} vs all_phases {names}"], "all_phases", what="all_phases() does not enumerate all stages")
    spell = {
        "NAME": lambda m: Const(m.name), "name": lambda m: Const(m.name.lower()), "Name": lambda m: Const(m.name.capitalize()),
        "value": lambda m: Const(m.value), "member": lambda m: m,
    }
    n4 = 0

    def decode(lst):
        nonlocal n4
        n4 += 1
        arg = Const(None) if lst is None else list(lst)
        return Evaluator(prog).run(parser, [arg])

    def outcome_kind(outs):
        kinds = set()
        for o in outs:
            if o.kind == "return":
                kinds.add(("return", tuple(repr(x) for x in o.value) if isinstance(o.value, list) else repr(o.value)))
            else:
                kinds.add(("raise", o.exc.exc_type if o.exc else "?"))
        return kinds

    # None -> all phases
    k = outcome_kind(decode(None))
    want_all = ("return", tuple(repr(x) for x in order))
    if k == {want_all}:
        rep.ok("C15.R4", parser.qname, "dds_stages=None decodes to all stages", parser.loc())
    else:
        rep.bad("C15.R4", parser.qname, "dds_stages=None decodes to all stages", parser.loc(), [f"outcomes: {sorted(k)}"], "none", what="no stage list does not mean a full evaluation")
    bad: List[str] = []
    und: List[str] = []
    for sp_name, sp in spell.items():
        for plen in range(1, len(order) + 1):
            lst = [sp(m) for m in order[:plen]]
            k = outcome_kind(decode(lst))
            want = ("return", tuple(repr(x) for x in order[:plen]))
            if k == {want}:
                continue
            if any(x[0] == "return" and "TOP" in str(x[1]) for x in k):
                und.append(f"{sp_name} x prefix {plen}: {sorted(k)}")
            else:
                bad.append(f"spelling {sp_name}, prefix of length {plen} ({[repr(x) for x in lst]}): outcomes {sorted(k)}, expected {want}")
    if bad:
        rep.bad("C15.R4", parser.qname, "every spelling of every prefix of the stage order decodes to that prefix", parser.loc(), bad[:8],
                "spellings", what="a valid stage list is rejected or decoded to other stages")
    elif und:
        rep.unknown("C15.R4", parser.qname, "stage parser uses syntax outside the abstract evaluator", parser.loc(), und[:5])
    else:
        rep.ok("C15.R4", parser.qname, f"{len(spell)} spellings x {len(order)} prefixes decode to the prefix", parser.loc())
    # disorder and unknown names are rejected
    dis: List[Tuple[str, list]] = []
    if len(order) >= 3:
        dis.append(("swapped", [Const(order[1].name), Const(order[0].name)]))
        dis.append(("skipped", [Const(order[0].name), Const(order[2].name)]))
        dis.append(("not from the start", [Const(order[1].name)]))
    dis.append(("unknown name", [Const("BOGUS_STAGE")]))
    dis.append(("attribute that is not a stage", [Const("all_phases")]))
    badd: List[str] = []
    for nm, lst in dis:
        k = outcome_kind(decode(lst))
        if not k or not all(x == ("raise", "DDSException") for x in k):
            badd.append(f"{nm} {[repr(x) for x in lst]}: outcomes {sorted(k)} (expected a DDSException)")
    if badd:
        rep.bad("C15.R4", parser.qname, "stage lists that are not a prefix of the stage order are rejected with a DDSException", parser.loc(),
                badd, "disorder", what="an ill-formed stage list is accepted or fails with a low-level error")
    else:
        rep.ok("C15.R4", parser.qname, f"{len(dis)} ill-formed stage lists are rejected with a DDSException", parser.loc())
    rep.floor("C15.R4", n4, 20)

    # ---- R7 / R8 ------------------------------------------------------------------------------------------------------
    from .c04 import commit_rules
    rep.rule("C15.R7", "as C04.R1: a full evaluation commits its complete path map even when every blob is already stored - a run that stopped before "
                       "the path commit is exactly what leaves blobs without paths")
    commit_rules(ctx, top, "C15.R7")
    rep.rule("C15.R8", "the stage order handed out by all_phases() is a fresh list on every call, or no caller changes it in place: a restricted run "
                       "must not shorten the list that later evaluations take as 'all stages'")
    ap = prog.funcs.get(STAGE_ENUM + ".all_phases")
    if ap is None:
        raise AnchorError(f"{STAGE_ENUM}.all_phases not found")
    rets = [r for r in ap.own_nodes() if isinstance(r, ast.Return) and r.value is not None]
    fresh = bool(rets) and all(isinstance(r.value, (ast.List, ast.ListComp, ast.Tuple)) or (isinstance(r.value, ast.Call) and unparse(r.value.func) in ("list", "tuple", "sorted"))
                               for r in rets)
    if fresh:
        rep.ok("C15.R8", ap.qname, "all_phases() builds a new list on every call", ap.loc())
    else:
        MUT = {"append", "extend", "insert", "pop", "remove", "clear", "sort", "reverse"}
        wit8 = []
        for g in prog.funcs.values():
            holders_ = set()
            for n in g.own_nodes():
                if isinstance(n, (ast.Assign, ast.AnnAssign)) and n.value is not None and isinstance(n.value, ast.Call) and unparse(n.value.func).endswith("all_phases"):
                    for t in (n.targets if isinstance(n, ast.Assign) else [n.target]):
                        if isinstance(t, ast.Name):
                            holders_.add(t.id)
            for n in g.own_nodes():
                if isinstance(n, ast.Delete) and any(isinstance(t, ast.Subscript) and isinstance(t.value, ast.Name) and t.value.id in holders_ for t in n.targets):
                    wit8.append(f"{g.loc(n)}: `{unparse(n, 50)}` in {g.name}")
                elif isinstance(n, ast.Call) and isinstance(n.func, ast.Attribute) and n.func.attr in MUT and isinstance(n.func.value, ast.Name) and n.func.value.id in holders_:
                    wit8.append(f"{g.loc(n)}: `{unparse(n, 50)}` in {g.name}")
                elif isinstance(n, (ast.Assign, ast.AugAssign)) and any(isinstance(t, ast.Subscript) and isinstance(t.value, ast.Name) and t.value.id in holders_
                                                                         for t in (n.targets if isinstance(n, ast.Assign) else [n.target])):
                    wit8.append(f"{g.loc(n)}: `{unparse(n, 50)}` in {g.name}")
        if wit8:
            rep.bad("C15.R8", ap.qname, "the shared stage list returned by all_phases() is never changed in place", ap.loc(rets[0]) if rets else ap.loc(),
                    [f"{ap.loc(rets[0]) if rets else ap.loc()}: all_phases() returns `{unparse(rets[0].value, 40) if rets else '?'}` (one list object for the whole process)"] + wit8 + [
                     "after a run restricted to [analysis], the list is one element long for the rest of the process: every later 'full' evaluation stops after the analysis and returns None"],
                    "shared-stage-list", what="a restricted run truncates the process-wide stage list")
        else:
            rep.ok("C15.R8", ap.qname, "all_phases() returns a shared list, and no caller changes it in place", ap.loc())

    # ---- R6: an evaluation leaves no module-level state behind ------------------------------------------------------
    rep.rule("C15.R6", "every module global that an evaluation function sets to a value is reset on every exit (normal or exceptional): "
                       "nothing a restricted run computed can be picked up by a later evaluation")
    n6 = 0
    api = prog.module("dds._api")
    for f in (top, nested):
        declared: Set[str] = set()
        for n in f.own_nodes():
            if isinstance(n, ast.Global):
                declared.update(n.names)
        if not declared:
            continue
        fcfg = cfg_of(f)
        # per global: element-wise (target, value) pairs of its assignments
        per: Dict[str, List[Tuple[ast.stmt, Optional[ast.AST]]]] = {}
        for n in f.own_nodes():
            if isinstance(n, ast.Assign):
                for t in n.targets:
                    if isinstance(t, ast.Name) and t.id in declared:
                        per.setdefault(t.id, []).append((n, n.value))
                    elif isinstance(t, (ast.Tuple, ast.List)):
                        for i, e in enumerate(t.elts):
                            if isinstance(e, ast.Name) and e.id in declared:
                                v = n.value.elts[i] if isinstance(n.value, (ast.Tuple, ast.List)) and len(n.value.elts) == len(t.elts) else None
                                per.setdefault(e.id, []).append((n, v))
            elif isinstance(n, (ast.AnnAssign, ast.AugAssign)) and isinstance(n.target, ast.Name) and n.target.id in declared:
                per.setdefault(n.target.id, []).append((n, n.value))
        for g, assigns in sorted(per.items()):
            resets = [st for st, v in assigns if isinstance(v, ast.Constant) and v.value is None]
            reset_nodes = [x for r in resets for x in fcfg.nodes_of(r)]
            fin_tags = {x.tag for x in reset_nodes if x.tag}

            def edge_ok(a, b, lab, _ft=fin_tags):
                return not (lab == "exc" and a.tag in _ft)

            read_elsewhere = any(isinstance(x, ast.Name) and x.id == g and isinstance(x.ctx, ast.Load) for h in api.funcs.values() for x in h.own_nodes())
            for st, v in assigns:
                if isinstance(v, ast.Constant) and v.value is None:
                    continue
                n6 += 1
                desc = f"`{unparse(st, 50)}`: {g} is reset before the evaluation returns or raises"
                badp = None
                for d in done_nodes(fcfg, st):
                    pth = fcfg.find_path([d], [fcfg.exit, fcfg.exc_exit], avoid=reset_nodes, edge_ok=edge_ok)
                    if pth is not None:
                        badp = pth
                        break
                if badp is None:
                    rep.ok("C15.R6", f.qname, desc, f.loc(st))
                elif not read_elsewhere:
                    rep.ok("C15.R6", f.qname, f"`{unparse(st, 50)}`: {g} survives the evaluation but nothing reads it", f.loc(st), nontrivial=False)
                else:
                    rep.bad("C15.R6", f.qname, desc, f.loc(st), [f"{g} keeps the value after the evaluation ended, and is read again by the API module:"] + witness_path(fcfg, f, badp),
                            "global:" + g, what=f"module-level state `{g}` set by one evaluation (a dry run included) is visible to the next evaluation")
    rep.floor("C15.R6", n6, 1)
    from .common import kinds_not_confused
    rep.rule("C15.R9", "the stage parser is given the value of the `dds_stages` option - a value of its declared type (mypy: no argument of another type reaches "
                       "_parse_stages, nor another kind of name any call of the API module)")
    n9 = kinds_not_confused(ctx, "C15.R9", ("dds._api", "dds"), "the requested stage list is ignored: dds.eval(f, dds_stages=['analysis']) runs user code, writes blobs and commits paths",
                            callees=(parser.name,))
    rep.floor("C15.R9", n9, 3)
    from .common import display_calls_are_dry
    rep.rule("C15.R10", "the package's own analysis-only evaluations (made for the exported graph, result thrown away: displayGraph) pass a literal stage list that holds the analysis "
                        "stage only")
    n10 = display_calls_are_dry(ctx, "C15.R10")
    rep.floor("C15.R10", n10, 1)
    # a run that stops before the path commit leaves blobs that a later full evaluation serves: they are read back as they were computed
    from .c17 import codec_duals
    rep.rule("C15.R11", "as C17.R4/R5: what a restricted run stored is what the later full evaluation returns - every codec reads back what it wrote (binary mode, same encoding)")
    codec_duals(ctx, "C15.R11", "C15.R11")
    from .c16 import decode_set_store_local
    from . import storerules as _S15
    rep.rule("C15.R12", "as C16.R3: a run that stops before the path commit writes its blobs under the internal directory and nothing under the data directory: set_store('local') hands "
                        "each configured directory to the parameter of its name")
    decode_set_store_local(ctx, _S15.LocalView(ctx), "C15.R12")
    if ctx.report.prop == "C15":
        from .common import share_rules as _share8
        _share8(ctx, "C12", "C15.R13", ['C12.R1'], 'a blob stored by a run that stopped before the path commit is fetched through the object cache by the later full run: the cache inserts it under a None test only (the truth value of a table or array blob raises)')
    from .common import enum_listing_in_declaration_order as _elo
    rep.rule("C15.R14", "the list of stages that `_parse_stages` checks user lists against is the declaration order of the stages (analysis, store_inspect, eval, store_commit, path_commit): the documented prefixes are accepted and mean what they say")
    rep.floor("C15.R14", _elo(ctx, "C15.R14", "dds.structures.ProcessingStage", "dds_stages=['analysis', 'store_inspect', 'eval', 'store_commit'] - a documented prefix - is refused ('Wrong order'), and [.., 'eval', 'path_commit'] commits the paths of a run that stored nothing"), 1)
