"""
C04 - a committed path serves the value of the latest evaluation that kept it.

R1  single complete commit: one sync_paths site in the top-level evaluation function, outside loops; its argument is
    the same value as the mapping assigned to requested_paths, which derives from all_store_paths(<interactions with
    the root path attached>); every path from "root value obtained" to the normal exit passes it (or the explicit
    PATH_COMMIT-not-requested branch); no other committer (who-may-call).
R2  load resolves path -> key -> blob through the store (or the running evaluation's own map).
R3  writer / reader agreement per store (same location term).
R4  destructive effects of sync_paths are confined to the entry of the committed path.
"""
from __future__ import annotations

import ast
from typing import List, Optional

from ..cfg import cfg_of
from ..flow import flow_of
from ..model import unparse, stmt_key, AnchorError, Func
from . import storerules as S
from .common import (
    Ctx, find_api_functions, user_calls, store_calls, effect_sites, unowned_holders, done_nodes, dominated, witness_path,
    ancestors, calls_to,
)
from .c15 import stage_tests
from ..fsmodel import StoreModel, show, mentions_sym

PROP = "C04"


def _presence_filtered_loop(ctx: Ctx, top: Func, fl, arg: ast.Name, req: ast.Name) -> bool:
    """the loop form of the same restriction: `arg` starts empty and is filled by `arg[p] = k` in a loop over `req.items()` (target `(p, k)`); in an iteration where
    store.has_blob(k) holds the store is always reached (no other filter), in one where it does not hold it is never reached"""
    from ..propdom import excluding_branches
    prog = ctx.prog
    cfg = cfg_of(top)
    stores = [st for st in top.own_nodes() if isinstance(st, ast.Assign) and len(st.targets) == 1 and isinstance(st.targets[0], ast.Subscript)
              and isinstance(st.targets[0].value, ast.Name) and st.targets[0].value.id == arg.id]
    if len(stores) != 1:
        return False
    st = stores[0]
    loops = [lp for lp in top.own_nodes() if isinstance(lp, ast.For) and any(st is y for b_ in lp.body for y in ast.walk(b_))]
    if not loops:
        return False
    lp = loops[-1]
    it = lp.iter
    if not (isinstance(it, ast.Call) and isinstance(it.func, ast.Attribute) and it.func.attr == "items" and isinstance(it.func.value, ast.Name)
            and set(fl.root_defs(it.func.value)) == set(fl.root_defs(req))):
        return False
    if not (isinstance(lp.target, (ast.Tuple, ast.List)) and len(lp.target.elts) == 2 and all(isinstance(x, ast.Name) for x in lp.target.elts)):
        return False
    pv, kv = lp.target.elts[0].id, lp.target.elts[1].id
    if not (isinstance(st.targets[0].slice, ast.Name) and st.targets[0].slice.id == pv and isinstance(st.value, ast.Name) and st.value.id == kv):
        return False

    def atom(e: ast.AST) -> Optional[str]:
        if isinstance(e, ast.Call) and isinstance(e.func, ast.Attribute) and e.func.attr == "has_blob" and len(e.args) == 1 and isinstance(e.args[0], ast.Name) and e.args[0].id == kv:
            return "present"
        return None
    tb = [x for x in cfg.nodes if x.kind == "branch" and x.ast is lp and x.label == "T"]
    heads = [x for x in cfg.nodes if x.kind == "loop" and x.ast is lp]
    st_nodes = cfg.nodes_of(st)
    if not tb or not heads or not st_nodes:
        return False
    # present -> the store is reached on every path of the iteration
    av_t = excluding_branches(prog, top, cfg, {"present": True}, atom)
    if cfg.find_path(tb, heads + [cfg.exit], avoid=av_t + st_nodes, include_src=False) is not None:
        return False
    # absent -> the store is not reached
    av_f = excluding_branches(prog, top, cfg, {"present": False}, atom)
    if cfg.find_path(tb, st_nodes, avoid=av_f, include_src=False) is not None:
        return False
    # the test exists at all
    return any(atom(y) is not None for b_ in lp.body for y in ast.walk(b_))


def _presence_filtered(ctx: Ctx, top: Func, fl, arg: ast.Name, req: ast.Name) -> bool:
    """`arg` is defined once, as the (path, key) pairs of the evaluation's path map `req` whose key satisfies store.has_blob(key) - and nothing else"""
    v = None
    for _ in range(5):
        ds = [d for d in fl.defs_of_use(arg) if d.kind != "item"]   # (`m[k] = v` fills the mapping, it does not define it)
        if len(ds) != 1 or ds[0].value is None:
            return False
        v = ds[0].value
        if isinstance(v, ast.Name):
            arg = v  # a plain copy (parameter binding of an expanded helper)
            continue
        break
    if isinstance(v, ast.Call) and unparse(v.func).split(".")[-1] in ("OrderedDict", "dict") and len(v.args) == 1 and not v.keywords:
        v = v.args[0]
    empty_map = (isinstance(v, ast.Dict) and not v.keys) or (isinstance(v, ast.Call) and not v.args and not v.keywords and unparse(v.func).split(".")[-1] in ("OrderedDict", "dict"))
    if empty_map:
        return _presence_filtered_loop(ctx, top, fl, arg, req)
    if not isinstance(v, (ast.ListComp, ast.GeneratorExp, ast.DictComp)) or len(v.generators) != 1:
        return False
    g = v.generators[0]
    it = g.iter
    if not (isinstance(it, ast.Call) and isinstance(it.func, ast.Attribute) and it.func.attr == "items" and isinstance(it.func.value, ast.Name)
            and set(fl.root_defs(it.func.value)) == set(fl.root_defs(req))):
        return False
    if not (isinstance(g.target, (ast.Tuple, ast.List)) and len(g.target.elts) == 2 and all(isinstance(x, ast.Name) for x in g.target.elts)):
        return False
    pv, kv = g.target.elts[0].id, g.target.elts[1].id
    if isinstance(v, ast.DictComp):
        same = isinstance(v.key, ast.Name) and v.key.id == pv and isinstance(v.value, ast.Name) and v.value.id == kv
    else:
        same = isinstance(v.elt, ast.Tuple) and len(v.elt.elts) == 2 and [getattr(x, "id", None) for x in v.elt.elts] == [pv, kv]
    if not same or len(g.ifs) != 1:
        return False
    t = g.ifs[0]
    return isinstance(t, ast.Call) and isinstance(t.func, ast.Attribute) and t.func.attr == "has_blob" and len(t.args) == 1 and isinstance(t.args[0], ast.Name) and t.args[0].id == kv


def commit_rules(ctx: Ctx, top: Func, rule: str) -> None:
    rep = ctx.report
    prog = ctx.prog
    cfg = cfg_of(top)
    fl = flow_of(prog, top)
    # ---- R1 -------------------------------------------------------------------------------
    syncs = effect_sites(ctx, top, ["sync_paths"])
    where = top.loc()
    if len(syncs) != 1:
        rep.bad(rule, top.qname, "exactly one path commit in the top-level evaluation function", where,
                [f"{top.loc(c)}: {unparse(c, 60)}" for c in syncs] or ["no sync_paths call"], "n-sync",
                what=f"{len(syncs)} path commits in one evaluation (paths of a failed or partial evaluation can be committed)")
    else:
        sc = syncs[0]
        in_loop = any(isinstance(a, (ast.For, ast.While)) for a in ancestors(top.module, sc))
        if in_loop:
            rep.bad(rule, top.qname, "the path commit is outside any loop", top.loc(sc), [unparse(sc)], "sync-loop", what="paths are committed one by one")
        else:
            rep.ok(rule, top.qname, "exactly one path commit, outside loops", top.loc(sc))
        # the committed mapping is the complete map of the evaluation
        from .common import path_map_value
        req = path_map_value(top)
        arg = sc.args[0] if sc.args else None
        desc = "the committed mapping is the evaluation's complete path map (the value assigned to requested_paths)"
        if req is None or arg is None:
            rep.unknown(rule, top.qname, "cannot find the requested_paths assignment / the sync_paths argument", top.loc(sc))
        elif isinstance(req, ast.Name) and isinstance(arg, ast.Name) and set(fl.root_defs(req)) == set(fl.root_defs(arg)):
            # the whole static map, unfiltered: a keep the evaluation did not reach (under a false condition) is committed to a key whose blob was never written
            rep.bad(rule, top.qname, "the committed mapping is the evaluation's path map restricted to the keys whose blob is in the store", top.loc(sc),
                    [f"{top.loc(sc)}: `{unparse(sc, 60)}` commits every path found by the analysis, whether or not its keep ran",
                     "history: /p is committed; the code of its producer is edited and the nested dds.keep('/p', ..) now sits under a condition that is false: the evaluation runs no keep for /p, "
                     "yet /p is linked to the new key (no blob): the path that the evaluation did not keep loses its previous content (dds.load fails)"], "static-map-committed",
                    what="paths whose keep did not run are committed to a key that has no blob: their previous content is lost")
        elif isinstance(req, ast.Name) and isinstance(arg, ast.Name) and _presence_filtered(ctx, top, fl, arg, req):
            sl = ctx.slicer(follow_calls=False).slice(top, arg)
            asp = sl.find(lambda f_, n_: isinstance(n_, ast.Call) and (prog.dotted(f_, n_.func) or "").endswith("all_store_paths"))
            if asp is None:
                rep.bad(rule, top.qname, "the path map derives from all_store_paths(interactions)", top.loc(sc),
                        [f"definitions of {arg.id}: " + "; ".join(unparse(d.stmt, 60) for d in fl.defs_of_use(arg))], "map-src",
                        what="the committed map is not the collection of every (path, signature) of the evaluation")
            else:
                call = asp.node
                inter = call.args[0] if call.args else None
                has_root = False
                if isinstance(inter, ast.Name):
                    for d in fl.defs_of_use(inter):
                        if d.value is not None and isinstance(d.value, ast.Call) and isinstance(d.value.func, ast.Attribute) and d.value.func.attr == "_replace" and any(
                                k.arg == "store_path" for k in d.value.keywords):
                            has_root = True
                if has_root:
                    rep.ok(rule, top.qname, desc + ", root path attached", top.loc(sc))
                else:
                    rep.bad(rule, top.qname, "the root path of dds.keep is attached before the paths are collected", top.loc(call),
                            [f"{top.loc(call)}: {unparse(call, 70)}: no reaching definition attaches store_path to the interactions"], "root-path",
                            what="the path kept by the outermost dds.keep is not part of the committed / checked map")
        else:
            wit = [f"requested_paths = {unparse(req, 50)}", f"sync_paths argument = {unparse(arg, 50)}"]
            if isinstance(arg, ast.Name):
                wit += [f"{top.loc(d.stmt)}: {unparse(d.stmt, 80)}" for d in fl.defs_of_use(arg)]
            rep.bad(rule, top.qname, desc, top.loc(sc), wit, "map-same", what="sync_paths receives another (filtered / partial) mapping than the evaluation's path map")
        # must pass through the commit on every normal path after the root value exists
        roots = [d for u in user_calls(top) for d in done_nodes(cfg, u)]
        roots += [d for c in store_calls(ctx, top, ["fetch_blob"]) for d in done_nodes(cfg, c)]
        pc_imp, _ = stage_tests(ctx, top, "PATH_COMMIT")
        not_requested = []
        for b in pc_imp:
            for o in cfg.nodes:
                if o.kind == "branch" and o.origin is b.origin and o.label != b.label:
                    not_requested.append(o)
        via = cfg.nodes_of(sc) + not_requested
        bad_path = None
        for r in roots:
            p = cfg.find_path([r], [cfg.exit], avoid=via)
            if p is not None:
                bad_path = p
                break
        desc = "every normal path from 'root value obtained' to the return commits the paths (unless PATH_COMMIT was not requested)"
        if bad_path is None and roots:
            rep.ok(rule, top.qname, desc, top.loc(sc))
        elif not roots:
            rep.unknown(rule, top.qname, "cannot locate where the root value is obtained", where)
        else:
            rep.bad(rule, top.qname, desc, top.loc(sc), witness_path(cfg, top, bad_path), "skip-commit",
                    what="an evaluation can return its value without committing its paths (e.g. on a cache hit): the path keeps serving an older result")
        # commit after the blob of the root was stored
        for st in effect_sites(ctx, top, ["store_blob"]):
            for sn in cfg.nodes_of(sc):
                back = cfg.find_path([sn], cfg.nodes_of(st))
                desc = "the root blob is stored before the paths are committed"
                if back is None:
                    rep.ok(rule, top.qname, desc, top.loc(st))
                else:
                    rep.bad(rule, top.qname, desc, top.loc(st), witness_path(cfg, top, back), "commit-before-store", what="paths are committed before the blob they point to is stored")
    strays = unowned_holders(ctx, ["sync_paths"], [top])
    for sf, call in strays:
        rep.bad(rule, sf.qname, f"sync_paths is called only from {top.name}", sf.loc(call), [f"{sf.loc(call)}: {unparse(call, 70)}"], stmt_key(call),
                what="a second committer writes paths outside the single end-of-evaluation commit")
    if not strays:
        rep.ok(rule, "dds", f"sync_paths is called only from {top.name} (and delegating stores)", "dds/")



def run(ctx: Ctx) -> None:
    rep = ctx.report
    prog = ctx.prog
    ctx.types
    top, nested = find_api_functions(ctx)
    cfg = cfg_of(top)
    fl = flow_of(prog, top)
    rep.rule("C04.R1", "one sync_paths of the complete path map, after the root value exists, on every normal path; no other committer")
    rep.rule("C04.R2", "load: key = evaluation map / fetch_paths([p]).get(p); value = fetch_blob(key) of that key")
    rep.rule("C04.R3", "per store: location published by sync_paths == location probed by fetch_paths")
    rep.rule("C04.R4", "REMOVE / RENAME / LINK targets in sync_paths are terms of the current path")

    commit_rules(ctx, top, "C04.R1")
    if rep.prop == "C04":
        # the has_blob filter (F23) is a stand-in for "the paths this run kept": a blob stored by an EARLIER evaluation under the key of a keep that this run did
        # not reach makes its path be committed again
        rep.rule("C04.R12", "the paths committed are the paths this run kept: the restriction of the path map is a run-time record of the keeps that ran, not only the "
                            "presence of a blob under the planned key (an earlier evaluation may have stored it)")
        from .common import effect_sites as _es, path_map_value as _pmv
        _syncs = _es(ctx, top, ["sync_paths"])
        _fl = flow_of(prog, top)
        _req = _pmv(top)
        n12 = 0
        for _sc in _syncs:
            _arg = _sc.args[0] if _sc.args else None
            if isinstance(_req, ast.Name) and isinstance(_arg, ast.Name) and _presence_filtered(ctx, top, _fl, _arg, _req):
                n12 += 1
                rep.bad("C04.R12", top.qname, "the committed paths are restricted by a record of the keeps that ran", top.loc(_sc),
                        [f"{top.loc(_sc)}: `{unparse(_sc, 60)}`: the only restriction of the path map is has_blob(key)",
                         "`if reach: dds.keep('/w1/x', h)`: evaluate with reach true; dds.keep('/w1/x', other) re-points the path; evaluate with reach false: the keep does not run, "
                         "h's blob of the first evaluation is still there, '/w1/x' is committed to it again and serves 'from-h'"], "presence-proxy",
                        what="a keep that the run did not reach is committed again when an earlier evaluation left its blob: it takes back a path that was re-pointed since")
            elif _arg is not None:
                n12 += 1
                rep.ok("C04.R12", top.qname, "the committed paths are not restricted by blob presence alone", top.loc(_sc))
        rep.floor("C04.R12", n12, 1)
    # ---- R2 -------------------------------------------------------------------------------
    load = prog.func("dds._api.load")
    if load is None:
        raise AnchorError("dds._api.load not found")
    lfl = flow_of(prog, load)
    fetches = store_calls(ctx, load, ["fetch_blob"])
    if len(fetches) != 1 or not fetches[0].args:
        rep.unknown("C04.R2", load.qname, "load does not contain exactly one fetch_blob(key)", load.loc())
    else:
        k = fetches[0].args[0]
        sl = ctx.slicer(follow_calls=False).slice(load, k)
        via_store = sl.find(lambda f_, n_: isinstance(n_, ast.Call) and isinstance(n_.func, ast.Attribute) and n_.func.attr == "fetch_paths")
        path_param = load.params[0] if load.params else None
        derives = path_param is not None and sl.has_param(load, path_param) is not None
        desc = "load returns fetch_blob(key) where key is resolved from the given path through fetch_paths (or the running evaluation's map)"
        ret_ok = any(isinstance(n, ast.Return) and n.value is fetches[0] for n in load.own_nodes())
        if via_store is not None and derives and ret_ok:
            rep.ok("C04.R2", load.qname, desc, load.loc(fetches[0]))
        else:
            rep.bad("C04.R2", load.qname, desc, load.loc(fetches[0]),
                    [f"key `{unparse(k)}`: via fetch_paths={via_store is not None}, derives from the path argument={derives}, returned directly={ret_ok}"], "load-chain",
                    what="dds.load does not resolve path -> key -> blob through the store")
    # ---- R3 / R4 ----------------------------------------------------------------------------
    v = S.LocalView(ctx)
    S.writer_reader_agree(ctx, v, "C04.R3")
    S.confined_destruction(ctx, v, "C04.R4")
    from .c12 import passthrough_rules, insertion_rule
    passthrough_rules(ctx, "C04.R3", only=["sync_paths", "fetch_paths"])
    rep.rule("C04.R5", "as C12.R1: the object cache holds a key only with evidence that the wrapped store holds it (else a path is committed to a key without blob)")
    insertion_rule(ctx, "C04.R5")
    rep.rule("C04.R7", "as C08.R5: store_blob returns normally only after the commit marker is published (a path is never linked to an entry without metadata)")
    S.store_always_publishes(ctx, v, "C04.R7")
    rep.rule("C04.R8", "every path of a commit batch is committed: no early exit from the loop of sync_paths, in any store")
    n8 = S.every_path_processed(ctx, "C04.R8")
    rep.floor("C04.R8", n8, 2)
    rep.rule("C04.R10", "as C08.R14 / C17.R9: a stored blob is reported present whatever its value (None in the memory store, a zero-length file in the local store): the commit "
                        "keeps only the paths whose blob is present, so a blob wrongly reported absent leaves its path serving the previous value")
    n10 = S.memory_presence_by_membership(ctx, "C04.R10") + S.presence_ignores_size(ctx, v, "C04.R10")
    rep.floor("C04.R10", n10, 3)
    from .c03 import store_paths_lexical as _spl
    rep.rule("C04.R14", "as C08.R10 / C03.R8: a path object is turned into a store path by its lexical methods only (absolute / as_posix): `resolve`, `realpath`, `expanduser` ... ask the "
                      "file system, and make the store path - and whether two paths overlap - depend on the symbolic links of the machine")
    _n_spl = _spl(ctx, "C04.R14")
    rep.floor("C04.R14", _n_spl, 1)
    rep.rule("C04.R11", "as C08.R13: a path has one spelling - kept through a pathlib.Path or through its text (with or without empty segments) it is the same entry of the store, so "
                        "that keeping it again replaces what every spelling serves")
    n11 = S.one_spelling_per_path(ctx, "C04.R11")
    rep.floor("C04.R11", n11, 1)
    from .c16 import default_dirs_agree as _dda
    rep.rule("C04.R13", "as C16.R12: the implicit default store and set_store('local') without directories are one store (same internal and data directories, in the same roles): what one "
                        "commits the other serves")
    n13 = _dda(ctx, v, "C04.R13")
    rep.floor("C04.R13", n13, 2)
    if rep.prop == "C04":
        # the DBFS store: each documented commit type is accepted and does what it names (a commit type that silently commits nothing
        # leaves every kept path unresolvable), redirect records are written where they are read, ...
        from . import c19 as _c19
        rep.rule("C04.R9", "as C19.R1-R11: with the Databricks store every documented commit type selects the documented behaviour, and the redirect record of a "
                           "committed path is the one fetch_paths / load read")
        before = len(rep.obligations)
        _c19.run(ctx)
        for o in rep.obligations[before:]:
            o.rule = "C04.R9/" + o.rule
        for k in [k for k in rep.floors if k.startswith("C19.")]:
            rep.floors["C04.R9/" + k] = rep.floors.pop(k)
    from .c17 import codec_duals
    rep.rule("C04.R6", "as C17.R4/R5: every codec reads back what it wrote (binary mode, same encoding, dual operations): the value a committed path "
                       "serves equals the value keep returned")
    codec_duals(ctx, "C04.R6", "C04.R6")
    mem = prog.cls("dds.store.MemoryStore")
    if mem is not None and "sync_paths" in mem.methods and "fetch_paths" in mem.methods:
        w = _dict_attr(mem.methods["sync_paths"], store=True)
        r = _dict_attr(mem.methods["fetch_paths"], store=False)
        desc = "MemoryStore: sync_paths writes the dictionary fetch_paths reads, keyed by the path"
        if w and r and w == r:
            rep.ok("C04.R3", mem.qname, desc, mem.module.relpath)
        else:
            rep.bad("C04.R3", mem.qname, desc, mem.module.relpath, [f"written: {w}, read: {r}"], "mem", what="MemoryStore commits paths where fetch_paths does not look")
        # ... for every path of the batch, whether the path is already known or not
        sp = mem.methods["sync_paths"]
        scfg = cfg_of(sp)
        stores_ = [st for st in sp.own_nodes() if isinstance(st, ast.Assign) and any(
            isinstance(t, ast.Subscript) and isinstance(t.value, ast.Attribute) and isinstance(t.value.value, ast.Name) and t.value.value.id == "self" for t in st.targets)]
        for loop in [x for x in sp.own_nodes() if isinstance(x, ast.For)]:
            tb = [x for x in scfg.nodes if x.kind == "branch" and x.ast is loop and x.label == "T"]
            heads = [x for x in scfg.nodes if x.kind == "loop" and x.ast is loop]
            desc = "MemoryStore.sync_paths records every path of the batch (already known or not)"
            if not tb or not heads or not stores_:
                rep.unknown("C04.R3", sp.qname, "path table update of MemoryStore.sync_paths not found", sp.loc(loop))
                continue
            pth = scfg.find_path(tb, heads + [scfg.exit], avoid=[g for st in stores_ for g in scfg.nodes_of(st)], include_src=False)
            if pth is None:
                rep.ok("C04.R3", sp.qname, desc, sp.loc(stores_[0]))
            else:
                from .common import witness_path
                rep.bad("C04.R3", sp.qname, desc, sp.loc(loop), ["an iteration that records nothing:"] + witness_path(scfg, sp, pth)[-8:] + [
                        "a path that was committed before keeps its old key: after a re-keep with changed code, keep returns the new value and load the old one"],
                        "mem-skip", what="MemoryStore.sync_paths does not update a path that is already known")
    c = prog.cls("dds.codecs.databricks.DBFSStore")
    if c is not None:
        m = StoreModel(prog, c, ctx._types)
        puts = {e.term for e in m.effects_of("sync_paths") if e.kind == "PUT" and mentions_sym(e.term, "PATH")}
        heads = {e.term for e in m.effects_of("fetch_paths") if e.kind == "HEAD" and mentions_sym(e.term, "PATH")}
        desc = "DBFSStore: redirect record written by sync_paths is the one fetch_paths reads"
        if puts and puts == heads:
            rep.ok("C04.R3", c.qname, desc, c.module.relpath)
        else:
            rep.bad("C04.R3", c.qname, desc, c.module.relpath, [f"written {[show(t) for t in puts]}", f"read {[show(t) for t in heads]}"], "dbfs", what="DBFS redirect record written where fetch_paths does not read")
    if ctx.report.prop == "C04":
        from .common import share_rules as _share8
        _share8(ctx, "C01", "C04.R15", ['C01.R5'], 'the key under which a nested keep stores its result is the key the evaluation resolved for the path (no other value reaches store_blob): else the path is committed to a key that has no blob and keeps serving its previous content')


def _dict_attr(f: Func, store: bool) -> Optional[str]:
    for n in f.own_nodes():
        if isinstance(n, ast.Subscript) and isinstance(n.value, ast.Attribute) and isinstance(n.value.value, ast.Name) and n.value.value.id == "self":
            if isinstance(n.ctx, ast.Store) == store:
                return n.value.attr
    return None
