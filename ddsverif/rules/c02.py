"""
C02 - nothing is recomputed unless something it depends on changed.

R1  no location / module identity in a signature: in the def-use slice of every signature sink there is no file position
    (__file__, co_firstlineno, inspect.getfile, a line number used as a value ...), no module / function identity
    (__module__, __qualname__, __name__, function_path, _mod_path) and no value whose static type is a module, a code
    object or a canonical path.  Declared exception: the value hashed next to an `ext_dep_<name>` key (the qualified name
    of *untracked* code is that dependency's content) - only for dependencies built with sig=None.
    Object resolution reads no interpreter state (sys.modules, sys.path, environment): such reads in the analysis modules
    must stay inside lookups / comparisons of the function that makes them.
R2  the call-context key enters a signature only when some argument has no static hash; a plain call descends with an
    empty binding.
R3  literal arguments seen in source hash like values passed at run time (= C13.R1 - R3).
R4  the presence test dominates execution: every user call is preceded by `key is None` or a false has_blob(key).
R5  visitors: the local-variable visitor descends wherever the external-variable visitor does.
"""
from __future__ import annotations

import ast
from typing import List, Optional, Tuple

from ..cfg import cfg_of
from ..model import unparse, stmt_key, Func, AnchorError
from ..taint import Forward
from . import sigflow, visitors
from .common import Ctx, find_api_functions, user_calls, dominated, done_nodes

PROP = "C02"
RESOLVER_MODULES = ("dds._retrieve_objects", "dds.introspect", "dds._introspect_indirect", "dds._eval_ctx", "dds.structures_utils", "dds.fun_args", "dds._lambda_funs")


def composer(ctx: Ctx) -> Func:
    from .roles import composer as _role_composer
    return _role_composer(ctx)


def sink_rule(ctx: Ctx, rule: str, kinds: Tuple[str, ...], what: str) -> int:
    """kinds: which source classes to accuse ('location', 'name', 'type', 'process')"""
    rep = ctx.report
    n = 0
    exempt = {id(c) for _, c in sigflow.exempt_sinks(ctx)}
    for s in sigflow.sinks(ctx):
        if id(s.call) in exempt:
            continue
        n += 1
        sl = sigflow.local_slice(ctx, s.func, s.arg, follow_callers=True)
        found: List[Tuple[str, str, List[str]]] = []
        for it in sl.items:
            c = sigflow.classify_node(ctx, it.func, it.node)
            if c is not None and c[0] in kinds:
                found.append((c[0], c[1], it.chain()))
                continue
            if "type" in kinds:
                ty = sigflow.identity_type(ctx, it.func, it.node)
                if ty is not None and not _is_called_or_deref(it.func, it.node):
                    found.append(("type", f"value of type {ty}", it.chain()))
        desc = f"sink `{unparse(s.call, 50)}`: no {'/'.join(kinds)} source in its def-use slice ({len(sl.items)} nodes)"
        if sl.truncated:
            rep.unknown(rule, s.func.qname, f"slice of `{unparse(s.call, 40)}` truncated", s.where())
        elif found:
            k, d, chain = found[0]
            rep.bad(rule, s.func.qname, desc, s.where(), [f"{d} reaches the sink:"] + chain[-12:], stmt_key(s.call) + k, what=f"{what}: {d} flows into `{unparse(s.call, 40)}`")
        else:
            rep.ok(rule, s.func.qname, desc, s.where())
    return n


def _is_called_or_deref(f: Func, n: ast.AST) -> bool:
    """the identity-typed value is only called / dereferenced (f(...), inspect.getsource(f), mod.__dict__): its content is used, not its identity"""
    par = f.module.parent.get(n)
    if isinstance(par, ast.Call):
        if par.func is n:
            return True
        d = unparse(par.func)
        if d.endswith(("getsource", "getsource_class", "signature", "getmodule", "is_lambda", "inspect_lambda_condition", "isinstance", "findsource", "unwrap",
                       "get_arg_list", "getfullargspec")):
            return True
    if isinstance(par, ast.Attribute) and par.attr in ("__dict__", "__wrapped__", "__code__"):
        return True
    return False


def _name_only_restricted(ctx: Ctx, g: Func, a: ast.AST) -> bool:
    """the collection passed as `ext_deps=` only holds dependencies whose `.sig is None`: either it is built by a
    comprehension with that filter, or it starts empty and every statement that fills it is dominated by the
    outcome `<dep>.sig is None` of a test (loop idiom)"""
    sl = ctx.slicer(follow_calls=False).slice(g, a)
    comps = [x for _, x in sl.nodes() if isinstance(x, (ast.ListComp, ast.GeneratorExp, ast.DictComp))]
    if any(any(isinstance(c_, ast.Compare) and unparse(c_).endswith(".sig is None") for c_ in gen.ifs) for comp in comps for gen in comp.generators):
        return True
    if not isinstance(a, ast.Name):
        return False
    v = a.id
    cfg = cfg_of(g)
    none_br = []
    for b in cfg.nodes:
        if b.kind == "branch" and isinstance(b.ast, ast.Compare) and len(b.ast.ops) == 1 and isinstance(b.ast.left, ast.Attribute) and b.ast.left.attr == "sig" \
                and isinstance(b.ast.comparators[0], ast.Constant) and b.ast.comparators[0].value is None:
            if (isinstance(b.ast.ops[0], ast.Is) and b.label == "T") or (isinstance(b.ast.ops[0], ast.IsNot) and b.label == "F"):
                none_br.append(b)
    fills = []
    for n in g.own_nodes():
        if isinstance(n, (ast.Assign, ast.AnnAssign)):
            tgts = n.targets if isinstance(n, ast.Assign) else [n.target]
            for t in tgts:
                if isinstance(t, ast.Name) and t.id == v and n.value is not None:
                    val = n.value
                    empty = (isinstance(val, (ast.Dict, ast.List)) and not (val.keys if isinstance(val, ast.Dict) else val.elts)) or (
                        isinstance(val, ast.Call) and not val.args and not val.keywords and unparse(val.func).split(".")[-1] in ("dict", "OrderedDict", "list"))
                    if not empty:
                        return False
                if isinstance(t, ast.Subscript) and isinstance(t.value, ast.Name) and t.value.id == v:
                    fills.append(n)
        elif isinstance(n, ast.Expr) and isinstance(n.value, ast.Call) and isinstance(n.value.func, ast.Attribute) and isinstance(n.value.func.value, ast.Name) \
                and n.value.func.value.id == v and n.value.func.attr in ("append", "update", "setdefault", "extend", "insert", "add"):
            fills.append(n)
        elif isinstance(n, ast.AugAssign) and isinstance(n.target, ast.Name) and n.target.id == v:
            return False
    if not fills or not none_br:
        return False
    return all(dominated(ctx, g, st, none_br) is None for st in fills)


def exempt_rule(ctx: Ctx, rule: str, sites_only: bool = False) -> None:
    """the ext_dep value: only sig=None dependencies reach it; accepted code must not be among them"""
    rep = ctx.report
    prog = ctx.prog
    ex = sigflow.exempt_sinks(ctx)
    if len(ex) != 1:
        rep.unknown(rule, "dds.introspect", f"expected one `ext_dep_` pair, found {len(ex)}", "dds/introspect.py")
        return
    f, call = ex[0]
    # structural guard at the composer call sites
    bad_sites = []
    n_sites = 0
    for g in prog.funcs.values():
        for n in g.own_nodes():
            if isinstance(n, ast.Call) and (prog.dotted(g, n.func) or "") == f.qname:
                kws = {k.arg: k.value for k in n.keywords}
                a = kws.get("ext_deps")
                if a is None:
                    continue
                n_sites += 1
                ok = _name_only_restricted(ctx, g, a)
                empty = isinstance(a, ast.Dict) and not a.keys
                if not ok and not empty:
                    bad_sites.append(f"{g.loc(n)}: ext_deps={unparse(a, 50)} is not restricted to dependencies without a value signature")
    desc = "only name-tracked dependencies (sig is None) reach the `ext_dep_` value, the one place where a qualified name is hashed"
    if bad_sites:
        rep.bad(rule, f.qname, desc, f.loc(call), bad_sites, "ext-dep-guard", what="qualified names of value-tracked (accepted) objects are hashed into signatures")
    else:
        rep.ok(rule, f.qname, desc + f" ({n_sites} composer call sites)", f.loc(call))
    if sites_only:
        return
    # which resolver outcomes build such dependencies: ExternalObject(path) constructed although the path is authorised
    from .roles import resolver_rec as _resolver_rec
    try:
        rec = _resolver_rec(ctx)
    except AnchorError:
        rec = None
    if rec is None:
        return
    cfg = cfg_of(rec)
    for n in rec.own_nodes():
        if isinstance(n, ast.Return) and isinstance(n.value, ast.Call) and unparse(n.value.func).endswith("ExternalObject"):
            auth_T = [b for b in cfg.nodes if b.kind == "branch" and b.label == "T" and b.ast is not None and "is_authorized_path" in unparse(b.ast)
                      and not unparse(b.ast).startswith("not ")]
            for t in cfg.nodes_of(n):
                if auth_T and cfg.dominated_by(t, auth_T) is None:
                    rep.bad(rule, rec.qname, "an object found at an accepted path is never recorded by its module-qualified name", rec.loc(n),
                            [f"{rec.loc(n)}: `{unparse(n, 60)}` under the authorised-path branch (its type is not tracked)",
                             "the qualified name <accepted module>.<name> is hashed (ext_dep value): copying the code to another accepted module changes the signature "
                             "although nothing the function can observe changed"], "accepted-path-external",
                            what="a variable of untracked type in an accepted module leaks the module path into signatures (code copied to another accepted module is re-executed)")

    # an object known to be defined in ANOTHER module than the one that mentions it is never named after the mentioning module
    ctx_param = next((p_ for p_ in rec.params if "mod" in p_ and p_ != "self" and p_ != "cls"), None)
    if ctx_param is not None:
        elsewhere = []
        for b in cfg.nodes:
            if b.kind == "branch" and isinstance(b.ast, ast.Compare) and len(b.ast.ops) == 1 and isinstance(b.ast.comparators[0], ast.Name) and b.ast.comparators[0].id == ctx_param:
                if (isinstance(b.ast.ops[0], ast.IsNot) and b.label == "T") or (isinstance(b.ast.ops[0], ast.Is) and b.label == "F"):
                    elsewhere.append(b)
        n_re = 0
        for n in rec.own_nodes():
            if isinstance(n, ast.Return) and isinstance(n.value, ast.Call) and unparse(n.value.func).endswith("ExternalObject") and n.value.args:
                if not elsewhere or dominated(ctx, rec, n, elsewhere) is not None:
                    continue
                n_re += 1
                sl = ctx.slicer(follow_calls=False).slice(rec, n.value.args[0])
                it = sl.find(lambda f_, x: f_ is rec and isinstance(x, ast.Name) and x.id == ctx_param)
                desc = "an object imported from another module is named after its defining module, never after the module that mentions it"
                if it is None:
                    rep.ok(rule, rec.qname, desc, rec.loc(n))
                else:
                    rep.bad(rule, rec.qname, desc, rec.loc(n), it.chain() + [
                        f"{rec.loc(n)}: `{unparse(n, 70)}` is reached when the object was found to live in another module than `{ctx_param}`, yet its recorded path is built from `{ctx_param}`",
                        "the importing module's name is hashed (ext_dep value): the same code copied to another accepted module gets new signatures and every kept function that mentions the import runs again"],
                        "reexport-named-after-importer", what="a re-exported external object is recorded under the importing module's name")


# declared exceptions of the process-state rule: (function, source) -> reason (one named symbol each)
PROCESS_EXCEPTIONS = {
    ("dds.introspect._new_getfile", "sys.modules"): "looks up the module object named by the class's own __module__ only to locate the class's source text "
                                                    "(content dereference in the notebook fallback of getsource_class)",
}


def process_reads(ctx: Ctx, rule: str, modules: Tuple[str, ...]) -> int:
    """reads of interpreter / process state in the analysis modules stay inside lookups, comparisons and logging of their function"""
    rep = ctx.report
    prog = ctx.prog
    n = 0
    for f in prog.funcs.values():
        if f.module.name not in modules:
            continue
        for node in f.own_nodes():
            c = sigflow.classify_node(ctx, f, node)
            if c is None or c[0] != "process":
                continue
            n += 1
            exc = PROCESS_EXCEPTIONS.get((f.qname, c[1]))
            if exc is not None:
                rep.info(rule, f.qname, f"declared exception: `{unparse(node, 40)}` {exc}", f.loc(node))
                continue
            root = f
            while root.parent is not None:
                root = root.parent
            fam = {q for q in prog.funcs if q == root.qname or q.startswith(root.qname + ".")}
            hits_ = []

            def is_sink(g, call, pos, kw):
                d = prog.dotted(g, call.func) or ""
                if d in sigflow.SINK_FUNCS or d in sigflow._digest_names(ctx):
                    return f"{d.split('.')[-1]} at {g.loc(call)}"
                return None

            fw = Forward(prog, ctx._types, is_sink=is_sink, funcs=fam)
            hits = fw.run([(f, node, c[1])])
            desc = f"`{unparse(node, 40)}` ({c[1]}) is only used for lookups / comparisons / logging inside {root.name}"
            esc = [o for o in fw.escaped if not _benign_escape(o)]
            if hits:
                rep.bad(rule, f.qname, desc, f.loc(node), hits[0][1].chain(), stmt_key(node), what=f"{c[1]} reaches a signature")
            elif esc:
                rep.bad(rule, f.qname, desc, f.loc(node), esc[0].chain() + [f"the value leaves {root.name} (returned / stored / passed on): what the analysis resolves then depends on "
                        "interpreter state (e.g. which modules happen to be loaded), so an unchanged pipeline can change signature within one process"],
                        stmt_key(node), what=f"object resolution / analysis depends on {c[1]}")
            else:
                rep.ok(rule, f.qname, desc, f.loc(node))
    return n


def _benign_escape(o) -> bool:
    # arguments of logging helpers and exception messages
    cur = o
    while cur is not None:
        if "DDSException" in unparse(cur.node) or "_logger" in unparse(cur.node):
            return True
        cur = cur.parent
        break
    return False


def run(ctx: Ctx) -> None:
    rep = ctx.report
    prog = ctx.prog
    ctx.types
    top, nested = find_api_functions(ctx)
    rep.rule("C02.R1", "def-use slices of signature sinks hold no location / identity source; resolver reads no interpreter state")
    rep.rule("C02.R2", "inner_call_key reaches the pair list only under `some argument hash is None`; plain calls bind nothing")
    rep.rule("C02.R3", "as C13.R1-R3")
    rep.rule("C02.R4", "user call dominated by `key is None` or a false has_blob(key)")
    rep.rule("C02.R5", "LocalVarsVisitor prunes nothing that ExternalVarsVisitor visits")
    n1 = sink_rule(ctx, "C02.R1", ("location", "name", "type"), "module identity / file position in a signature")
    rep.floor("C02.R1", n1, 20)
    exempt_rule(ctx, "C02.R1")
    process_reads(ctx, "C02.R1", RESOLVER_MODULES)

    # ---- R2 -------------------------------------------------------------------------------
    comp0 = composer(ctx)
    # the composer, and the helpers of its module that it hands the argument context to (`... + _arg_sig_pairs(arg_ctx, body_sig)`)
    scopes2 = [comp0]
    for c_ in comp0.own_nodes():
        if isinstance(c_, ast.Call):
            for g_ in prog.callees(comp0, c_, ctx._types)[0]:
                if g_.module is comp0.module and g_ not in scopes2 and any(isinstance(n, ast.Attribute) and n.attr == "inner_call_key" for n in g_.own_nodes()):
                    scopes2.append(g_)
    n2 = 0
    for comp in scopes2:
      uses = [n for n in comp.own_nodes() if isinstance(n, ast.Attribute) and n.attr == "inner_call_key"]
      cfg = cfg_of(comp)
      from ..flow import flow_of as _flow2
      fl2 = _flow2(prog, comp)

      def _about_args(e_: ast.AST) -> bool:
          if "named_args" in unparse(e_, 300):
              return True
          for y_ in ast.walk(e_):
              if isinstance(y_, ast.Name) and isinstance(y_.ctx, ast.Load):
                  try:
                      if any(d_.value is not None and "named_args" in unparse(d_.value, 200) for d_ in fl2.defs_of_use(y_)):
                          return True
                  except Exception:
                      pass
          return False
      for u in uses:
        st = prog.enclosing_stmt(comp.module, u)
        if isinstance(st, ast.Assert):
            continue
        n2 += 1
        guard = [b for b in cfg.nodes if b.kind == "branch" and b.label == "T" and b.ast is not None and "is None" in unparse(b.ast) and "named_args" in unparse(b.ast)]
        # `if all(sig is not None for sig in <the argument hashes>): return <the pairs>` - what follows runs when some hash is None
        guard += [b for b in cfg.nodes if b.kind == "branch" and b.ast is not None and _about_args(b.ast) and (
            (b.label == "T" and "any(" in unparse(b.ast) and "is None" in unparse(b.ast)) or (b.label == "F" and unparse(b.ast).startswith("all(") and "is not None" in unparse(b.ast)))]
        w = dominated(ctx, comp, u, guard)
        desc = "the call-context key enters the signature only when an argument has no static hash"
        if w is None:
            rep.ok("C02.R2", comp.qname, desc, comp.loc(u))
        else:
            rep.bad("C02.R2", comp.qname, desc, comp.loc(u), w + ["a zero-argument callee then inherits its caller's context: edits outside its dependency cone re-execute it"],
                    stmt_key(st), what="the caller's context is hashed into callees whose arguments are all known")
    rep.floor("C02.R2", n2, 1)
    # (the binding of a plain call's arguments - constants bound, the rest keyed by the calling context - is decided by C13.R4, run below as C02.R3)

    # ---- R3 -------------------------------------------------------------------------------
    from . import c13
    before = len(rep.obligations)
    c13.run(ctx)
    for o in rep.obligations[before:]:
        o.rule = "C02.R3/" + o.rule
    for k in [k for k in rep.floors if k.startswith("C13.")]:
        rep.floors["C02.R3/" + k] = rep.floors.pop(k)

    # ---- R4 -------------------------------------------------------------------------------
    n4 = 0
    for f in (top, nested):
        cfg = cfg_of(f)
        for uc in user_calls(f):
            n4 += 1
            doms = []
            for b in cfg.nodes:
                if b.kind == "branch" and b.ast is not None:
                    txt = unparse(b.ast)
                    if "has_blob" in txt and b.label == "F":
                        doms.append(b)
                    if b.label == "F" and txt.endswith("is not None") and "key" in txt:
                        doms.append(b)
                    if b.label == "T" and txt.endswith("is None") and "key" in txt:
                        doms.append(b)
            w = dominated(ctx, f, uc, doms)
            desc = "the user function runs only when its key is absent from the store (or it has no key)"
            if w is None:
                rep.ok("C02.R4", f.qname, desc, f.loc(uc))
            else:
                rep.bad("C02.R4", f.qname, desc, f.loc(uc), w, stmt_key(uc), what="a kept function can run although its result is in the store")
    rep.floor("C02.R4", n4, 2)
    rep.rule("C02.R6", "a kept result is stored in the store before control returns to the caller (a later failure must not lose completed sub-results)")
    from .common import effect_sites
    for f in (top, nested):
        cfg = cfg_of(f)
        ucs = user_calls(f)
        sites = effect_sites(ctx, f, ["store_blob"])
        nokey = [b for b in cfg.nodes if b.kind == "branch" and b.ast is not None and "key" in unparse(b.ast) and (
            (b.label == "F" and unparse(b.ast).endswith("is not None")) or (b.label == "T" and unparse(b.ast).endswith("is None")))]
        # ... or has no path at all (dds.eval): the key of the root is looked up by its path
        fa_ = f.node.args
        path_params = [x.arg for x in fa_.posonlyargs + fa_.args + fa_.kwonlyargs if x.annotation is not None and "DDSPath" in unparse(x.annotation, 100)]
        for b in cfg.nodes:
            if b.kind == "branch" and isinstance(b.ast, ast.Compare) and len(b.ast.ops) == 1 and isinstance(b.ast.left, ast.Name) and b.ast.left.id in path_params \
                    and isinstance(b.ast.comparators[0], ast.Constant) and b.ast.comparators[0].value is None:
                if (isinstance(b.ast.ops[0], ast.IsNot) and b.label == "F") or (isinstance(b.ast.ops[0], ast.Is) and b.label == "T"):
                    nokey.append(b)
        for uc in ucs:
            bad_p = None
            for d in done_nodes(cfg, uc):
                p_ = cfg.find_path([d], [cfg.exit], avoid=[x for s_ in sites for x in cfg.nodes_of(s_)] + nokey)
                if p_ is not None:
                    bad_p = p_
            desc = "every normal path from the user call to the return stores the result (unless the call has no key)"
            if bad_p is None:
                rep.ok("C02.R6", f.qname, desc, f.loc(uc))
            else:
                from .common import witness_path
                rep.bad("C02.R6", f.qname, desc, f.loc(uc), witness_path(cfg, f, bad_p) + ["if a later node of the evaluation raises, this completed result is lost and its function body runs again on the retry"],
                        stmt_key(uc) + "store", what="a computed kept result is not stored before returning to the caller")
    visitors.sibling_pruning(ctx, "C02.R5")
    nb = visitors.body_only(ctx, "C02.R5")
    rep.floor("C02.R5", nb, 4)

    # ---- R8: the call-site context ends at the call ------------------------------------------------------------------
    from .c01 import context_extent
    rep.rule("C02.R8", "the body text hashed as context of a kept call with run-time arguments stops at the end of that call: code below the call cannot "
                       "influence the call and must not change its key")
    n8 = 0
    for (m_, n, kind, fn_, e_) in context_extent(ctx):
        n8 += 1
        desc = "the call-site context is bounded by the end line of the call"
        if kind == "whole":
            rep.bad("C02.R8", m_.qname, desc, m_.loc(n), [f"{m_.loc(n)}: `{unparse(n, 60)}` hashes every line of the caller",
                    "editing a string literal four lines below `dds.keep(p, summarize, rows)` changes the key of that keep: summarize is executed again although nothing it can observe changed"],
                    "context-whole-body", what="the context of a kept call covers the whole calling function")
        else:
            rep.ok("C02.R8", m_.qname, desc, m_.loc(n))
    rep.floor("C02.R8", n8, 1)
    from .c09 import registered_with_signature
    rep.rule("C02.R9", "as C09.R2: a path produced during the analysis is registered with the RETURN signature of its producer - the one the store records for the "
                       "path: a function that loads the path gets the same signature whether it is evaluated inside the pipeline or on its own")
    n9 = registered_with_signature(ctx, "C02.R9")
    rep.floor("C02.R9", n9, 2)

    # ---- R10 / R11: the presence answer that decides re-execution ----------------------------------------------------------------
    from . import storerules as S_
    v_ = S_.LocalView(ctx)
    rep.rule("C02.R10", "as C17.R9: the local store reports a stored blob present whatever its size - a kept function that returns '' or b'' (a zero-length file) is not "
                        "executed again at every evaluation")
    n10 = S_.presence_ignores_size(ctx, v_, "C02.R10")
    rep.floor("C02.R10", n10, 2)
    from .c16 import default_dirs_agree
    rep.rule("C02.R11", "as C16.R12: the implicit default store and set_store('local') without directories are one store: naming the default store (e.g. to switch the object "
                        "cache on) does not hide the results of earlier runs and re-execute the unchanged pipeline")
    n11 = default_dirs_agree(ctx, v_, "C02.R11")
    rep.floor("C02.R11", n11, 2)

    if rep.prop == "C02":
        from .common import share_rules
        share_rules(ctx, "C01", "C02.R12", ["C01.R5"], "the blob of a kept call is stored under the key it is looked up with (memo protocol): a result stored under another key is "
                    "never found again and the call is re-executed at every evaluation")
        share_rules(ctx, "C09", "C02.R13", ["C09.R16"], "the call-site context of a kept call covers what the enclosing function did before the call - and nothing of what other "
                    "branches of the evaluation did: an edit in an unrelated branch re-executes nothing here")
        share_rules(ctx, "C14", "C02.R14", ["C14.R3"], "accept_module accepts the module it is given (its __name__), not its parent package: edits of non-accepted siblings re-execute nothing")
    # ---- R7: committed paths are those of the latest evaluation -------------------------------------------------
    from .c04 import commit_rules
    rep.rule("C02.R7", "as C04.R1: the complete path map is committed on every evaluation, cache hit or not: the key a later evaluation reads through "
                       "dds.load (and hashes into its signature) is the one of the code as it is now, not of an earlier edit")
    commit_rules(ctx, top, "C02.R7")
    if ctx.report.prop == "C02":
        from .common import share_rules as _share8
        _share8(ctx, "C03", "C02.R16", ["C03.R2"], "nothing on the way to a signature is enumerated in the iteration order of a set (string hash randomisation): the same unchanged pipeline gets the same "
                "signatures in the next process, and nothing is executed again")
        _share8(ctx, "C08", "C02.R15", ["C08.R14"], "the memory store reports a stored blob present whatever its value (membership, not a look-up of the value): a kept function that returns None is not executed again at every evaluation")

