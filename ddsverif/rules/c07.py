"""
C07 - processes sharing a local store never observe partial or foreign results.

R1  no check-then-act on shared names.   R2  idempotent directory creation.
R3  process-unique temporaries beside their target.   R4  = C06.R1 / R2 (reader between blob and marker).
"""
from .common import Ctx
from . import storerules as S

PROP = "C07"


def run(ctx: Ctx) -> None:
    rep = ctx.report
    ctx.types
    v = S.LocalView(ctx)
    rep.analysed["store_class"] = v.cls.qname
    rep.analysed["fs_effects_summarised"] = v.n_effects
    rep.rule("C07.R1", "a non-idempotent effect guarded by a probe of the same name must tolerate FileExistsError / FileNotFoundError")
    rep.rule("C07.R2", "every directory creation is idempotent")
    rep.rule("C07.R3", "rename sources are writer-unique (uuid / mkstemp; a bare pid is not) and built beside their target")
    rep.rule("C07.R4", "atomic publication and marker-last (as C06.R1 / C06.R2)")
    S.check_then_act(ctx, v, "C07.R1")
    n2 = S.mkdir_idempotent(ctx, v, "C07.R2")
    rep.floor("C07.R2", n2, 2)
    n3 = S.unique_temporaries(ctx, v, "C07.R3")
    rep.floor("C07.R3", n3, 3)
    n4 = S.atomic_publication(ctx, v, "C07.R4")
    S.marker_last(ctx, v, "C07.R4")
    rep.floor("C07.R4", n4, 3)
    rep.rule("C07.R5", "no removal of names the call did not create itself (other processes' committed entries / in-flight temporaries)")
    S.no_shared_removal(ctx, v, "C07.R5")
    rep.rule("C07.R6", "the cache wrapper answers path queries from the wrapped store every time (another process may have re-committed the path)")
    from .c12 import passthrough_rules
    passthrough_rules(ctx, "C07.R6", only=["sync_paths", "fetch_paths"])
    rep.rule("C07.R7", "typestate exploration: every interleaving of two processes over the extracted effect sequences (store_blob / sync_paths / store creation)")
    n7 = S.interleaving_sweep(ctx, v, "C07.R7")
    rep.analysed["interleaved_states_explored"] = n7
    rep.floor("C07.R7", n7, 100)
    rep.rule("C07.R10", "as C08.R5: store_blob returns normally only after the commit marker is published - seeing the blob file of another writer that has "
                        "not published its metadata yet is not a reason to return")
    S.store_always_publishes(ctx, v, "C07.R10")
    rep.rule("C07.R11", "every directory of the store is created by the constructor whatever the state of the other ones (two processes opening a fresh store)")
    n11 = S.dirs_created_unconditionally(ctx, v, "C07.R11")
    rep.floor("C07.R11", n11, 2)
    rep.rule("C07.R8", "as C06.R7: the reading methods modify no entry of the store (two readers, or a reader and a writer, never race on a committed entry)")
    n8 = S.readers_read_only(ctx, v, "C07.R8")
    rep.floor("C07.R8", n8, 3)
    rep.rule("C07.R9", "as C04.R1: an evaluation that finds its blobs already stored still commits its complete path map - the process that stored them "
                       "may not have reached its own path commit yet (or may never reach it)")
    from .common import find_api_functions
    from .c04 import commit_rules
    top_, _n = find_api_functions(ctx)
    commit_rules(ctx, top_, "C07.R9")
    # processes that share the internal directory only: no foreign results
    rep.rule("C07.R12", "as C16.R2 / R3 / R12: a process that shares only the internal directory with another sees none of its paths (path entries are built from the data "
                        "directory, blobs from the internal one; set_store('local') hands each directory to the parameter of its name; both default stores use the same directories)")
    n12 = S.independent_views(ctx, v, "C07.R12")
    rep.floor("C07.R12", n12, 3)
    from .c16 import decode_set_store_local, default_dirs_agree
    decode_set_store_local(ctx, v, "C07.R12")
    default_dirs_agree(ctx, v, "C07.R12")
    from .c09 import load_uses_resolved_keys
    rep.rule("C07.R13", "as C09.R17: while an evaluation runs, a path that another process re-points is still read under the key resolved at the start (no result is stored under "
                        "the key of other inputs)")
    load_uses_resolved_keys(ctx, "C07.R13")
    from .common import share_rules
    share_rules(ctx, "C06", "C07.R15", ["C06.R3"], "a name that readers test is published only when its content is complete: the rename of the metadata (the commit marker) is dominated by "
                "the completion of its write (a reader between the two sees has_blob true and an empty marker)")
    from .c09 import load_uses_normalised_path as _lunp
    rep.rule("C07.R16", "as C09.R12: load looks the snapshot of the evaluation up with the normalised path: a miss makes it resolve the path again from the store while the function runs "
                        "(another process may have re-pointed it: the result is stored under the key of the old content)")
    n16 = _lunp(ctx, "C07.R16")
    rep.floor("C07.R16", n16, 1)
    rep.rule("C07.R14", "a reader that arrives between two publications of a writer is told 'absent': fetch_blob opens the metadata / the blob, and fetch_paths resolves a link, only "
                        "under conditions that imply that this very name exists")
    n14 = S.reads_after_presence(ctx, v, "C07.R14")
    rep.floor("C07.R14", n14, 4)
    f = ctx.prog.func("dds._api._store")
    if f is not None:
        rep.info("C07.R1", f.qname, "delayed creation of the default store is a check-then-set on a module global inside one process (listed, not judged: the property is about processes)", f.loc())
