"""
C11 - ill-formed evaluations are rejected before anything runs, whatever the order.

R1  itertools.groupby only over input sorted with the same key (overlap detector; package-wide in thorough).
R2  every descent of the two call inspectors passes call_stack + [P] and is dominated by the
    rejection `P in call_stack -> CIRCULAR_CALL`.
R3  nested eval: both inspectors reject the dds.eval path before any descent; _eval rejects a
    path-less nested evaluation before its user call.
R4  in the top-level evaluation function both analysis passes and the overlap rejection dominate
    every user call and every store mutation.
R5  the two inspectors dispatch on the same dds API paths and raise the same codes.
"""
from __future__ import annotations

import ast
from typing import List, Optional, Set, Tuple, Dict, Any

from ..cfg import cfg_of, Node
from ..flow import flow_of, bind_arg
from ..model import unparse, stmt_key, Func, AnchorError, const_str
from .common import (
    Ctx, find_api_functions, user_calls, store_calls, done_nodes, witness_path, pass_outcomes,
    raises_with_code, calls_to, dominated, error_code_of, ancestors, STORE_MUT,
)

PROP = "C11"
ANALYSIS_FUNCS = ["dds._introspect_indirect.introspect_indirect", "dds.introspect.introspect"]


def _norm_key(k: Optional[ast.AST]) -> str:
    if k is None:
        return "<none>"
    if isinstance(k, ast.Lambda) and len(k.args.args) == 1:
        nm = k.args.args[0].arg
        body = ast.parse(unparse(k.body, 10000), mode="eval").body

        class R(ast.NodeTransformer):
            def visit_Name(self, n: ast.Name) -> ast.AST:
                return ast.Name(id="_x", ctx=n.ctx) if n.id == nm else n

        return "lambda:" + ast.dump(R().visit(body))
    return ast.dump(k)


def _kw(call: ast.Call, name: str, pos: Optional[int]) -> Optional[ast.AST]:
    for k in call.keywords:
        if k.arg == name:
            return k.value
    if pos is not None and pos < len(call.args):
        return call.args[pos]
    return None


def check_groupby(ctx: Ctx, f: Func, call: ast.Call) -> None:
    rep = ctx.report
    where = f.loc(call)
    desc = "groupby input is sorted by the grouping key (groups are only formed from adjacent elements)"
    if not call.args:
        rep.unknown("C11.R1", f.qname, "groupby call shape not understood", where)
        return
    x = call.args[0]
    k = _norm_key(_kw(call, "key", 1))
    fl = flow_of(ctx.prog, f)
    cfg = cfg_of(f)

    def sorted_key(e: ast.AST) -> Optional[str]:
        if isinstance(e, ast.Call) and ctx.prog.dotted(f, e.func) == "sorted":
            return _norm_key(_kw(e, "key", None))
        return None

    verdict_keys: List[Optional[str]] = []
    wit: List[str] = []
    if isinstance(x, ast.Name):
        defs = fl.defs_of_use(x)
        # an in-place X.sort(key=..) that dominates the groupby with the same reaching definitions
        sort_stmt = None
        for n in f.own_nodes():
            if (
                isinstance(n, ast.Expr) and isinstance(n.value, ast.Call) and isinstance(n.value.func, ast.Attribute)
                and n.value.func.attr == "sort" and isinstance(n.value.func.value, ast.Name)
                and n.value.func.value.id == x.id
            ):
                if dominated(ctx, f, call, done_nodes(cfg, n)) is None and set(fl.defs_of_use(n.value.func.value)) == set(defs):
                    sort_stmt = n
        if sort_stmt is not None:
            verdict_keys.append(_norm_key(_kw(sort_stmt.value, "key", None)))  # type: ignore
        else:
            for d in defs:
                sk = sorted_key(d.value) if d.kind == "assign" and d.value is not None else None
                verdict_keys.append(sk)
                if sk is None:
                    wit.append(f"{f.loc(d.stmt)}: `{unparse(d.stmt, 80)}` reaches the groupby unsorted")
            if not defs:
                verdict_keys.append(None)
                wit.append(f"{x.id} has no local definition that sorts it")
    else:
        sk = sorted_key(x)
        verdict_keys.append(sk)
        if sk is None:
            wit.append(f"groupby input `{unparse(x, 70)}` is not a sorted(...) value")
    if all(v is not None for v in verdict_keys):
        if all(v == k for v in verdict_keys):
            rep.ok("C11.R1", f.qname, desc, where)
        else:
            rep.bad("C11.R1", f.qname, desc, where,
                    [f"grouping key {k} differs from sort key(s) {verdict_keys}"], stmt_key(call),
                    what="groupby input sorted with a different key than it is grouped by")
    else:
        wit.append("counterexample shape: ['/f', '/h', '/f/g'] -> the two '/f' entries are not adjacent, overlap not reported")
        rep.bad("C11.R1", f.qname, desc, where, wit, stmt_key(call), what="groupby over unsorted input: non-adjacent overlapping paths are not detected")


def find_overlap_detector(ctx: Ctx, top: Func) -> Tuple[Func, ast.Raise]:
    rs = raises_with_code(top, "OVERLAPPING_PATH")
    if not rs:
        raise AnchorError("role overlap-rejection (raise with OVERLAPPING_PATH in the top-level evaluation function) not found")
    r = rs[0]
    sl = ctx.slicer(follow_calls=False).slice(top, _guard_test(top, r))
    for fn, n in sl.nodes():
        if fn is top and isinstance(n, ast.Call):
            fs, _ = ctx.prog.callees(top, n, ctx._types)
            for c in fs:
                if c.module.name.startswith("dds") and c.module.name not in ("dds._config",) and c.positional_params():
                    return c, r
    raise AnchorError("role overlap-detector (callee whose result guards the OVERLAPPING_PATH raise) not found")


def _guard_test(f: Func, stmt: ast.AST) -> ast.AST:
    for a in ancestors(f.module, stmt):
        if isinstance(a, ast.If):
            return a.test
    raise AnchorError(f"statement at {f.loc(stmt)} is not guarded by an if")


class Family:
    """A call inspector: the method the visitors call (holder) plus the handler methods it dispatches to through a
    table {constant API path: handler} (`h = TABLE.get(path); if h is not None: return h(...)`)."""

    def __init__(self, holder: Func):
        self.holder = holder
        self.handlers: Dict[str, Tuple[Func, Tuple[str, ...]]] = {}  # qname -> (method, key path)
        self.table_keys: Set[Tuple[str, ...]] = set()
        self.lookup_vars: Set[str] = set()  # names defined by TABLE.get(path)
        self.dispatch_calls: List[ast.Call] = []
        self.entry_calls: Dict[str, List[ast.Call]] = {}  # handler qname -> the calls of the holder through which it is entered

    def members(self) -> List[Func]:
        return [self.holder] + [m for m, _ in self.handlers.values()]


def families(ctx: Ctx) -> List[Family]:
    prog = ctx.prog
    out: List[Family] = []
    for cq in ("dds.introspect.InspectFunction", "dds._introspect_indirect.InspectFunctionIndirect"):
        c = prog.classes.get(cq)
        if c is None or "inspect_call" not in c.methods:
            raise AnchorError(f"role call-inspector ({cq}.inspect_call) not found")
        # the method the visitors call may only hand the call to the object that does the work (`return _Inspector(ctx..).inspect(node)`)
        from .common import unfacade
        fam = Family(unfacade(ctx, c.methods["inspect_call"]))
        h = fam.holder
        if h.cls is not None:
            c = h.cls
        tables: Dict[str, Dict[Tuple[str, ...], Func]] = {}
        # dispatch tables: a dictionary {constant API path: handler method} bound in the holder or in the body of its class
        for n in list(h.own_nodes()) + list(c.node.body):
            if isinstance(n, (ast.Assign, ast.AnnAssign)) and isinstance(n.value, ast.Dict):
                tgt = n.targets[0] if isinstance(n, ast.Assign) else n.target
                entries: Dict[Tuple[str, ...], Func] = {}
                for k, v in zip(n.value.keys, n.value.values):
                    kp = _const_path(k) if k is not None else None
                    if kp is not None and isinstance(v, ast.Attribute) and v.attr in c.methods:
                        entries[kp] = c.methods[v.attr]
                    elif kp is not None and isinstance(v, ast.Name) and v.id in c.methods and n in c.node.body:
                        entries[kp] = c.methods[v.id]
                if entries and isinstance(tgt, ast.Name):
                    tables[tgt.id] = entries
        # ... or at module level, with functions of the module as handlers
        for n in h.module.tree.body:
            if isinstance(n, (ast.Assign, ast.AnnAssign)) and isinstance(n.value, ast.Dict):
                tgt = n.targets[0] if isinstance(n, ast.Assign) else n.target
                entries = {}
                for k, v in zip(n.value.keys, n.value.values):
                    kp = _const_path(k) if k is not None else None
                    g_ = prog.func(f"{h.module.name}.{v.id}") if isinstance(v, ast.Name) else None
                    if kp is not None and g_ is not None:
                        entries[kp] = g_
                if entries and isinstance(tgt, ast.Name) and len(entries) == len(n.value.keys) and tgt.id not in tables:
                    tables[tgt.id] = entries
        for n in h.own_nodes():
            if isinstance(n, ast.Assign) and isinstance(n.value, ast.Call) and isinstance(n.value.func, ast.Attribute) and n.value.func.attr == "get" \
                    and ((isinstance(n.value.func.value, ast.Name) and n.value.func.value.id in tables) or (
                        isinstance(n.value.func.value, ast.Attribute) and isinstance(n.value.func.value.value, ast.Name)
                        and n.value.func.value.value.id in ("self", "cls", c.name) and n.value.func.value.attr in tables)) and isinstance(n.targets[0], ast.Name):
                fam.lookup_vars.add(n.targets[0].id)
                tname = n.value.func.value.id if isinstance(n.value.func.value, ast.Name) else n.value.func.value.attr
                for kp, m in tables[tname].items():
                    fam.handlers[m.qname] = (m, kp)
                    fam.table_keys.add(kp)
        for n in h.own_nodes():
            if isinstance(n, ast.Call) and isinstance(n.func, ast.Name) and n.func.id in fam.lookup_vars:
                fam.dispatch_calls.append(n)
        # a branch of the holder moved into a method of the same class: `if path == <API path>: return cls._handle_keep(.., call_stack)`
        stack_param = "call_stack" if "call_stack" in h.params else None
        for n in h.own_nodes():
            if isinstance(n, ast.Call) and isinstance(n.func, ast.Attribute) and isinstance(n.func.value, ast.Name) and n.func.value.id in ("cls", "self", c.name) \
                    and n.func.attr in c.methods and c.methods[n.func.attr] is not h:
                m_ = c.methods[n.func.attr]
                passes_stack = stack_param is not None and any(isinstance(a, ast.Name) and a.id == stack_param for a in list(n.args) + [k.value for k in n.keywords])
                if not passes_stack or "call_stack" not in m_.params:
                    continue
                kp: Tuple[str, ...] = ()
                for a in ancestors(h.module, n):
                    if isinstance(a, ast.If) and isinstance(a.test, ast.Compare) and len(a.test.ops) == 1 and isinstance(a.test.ops[0], ast.Eq):
                        cp_ = _const_path(a.test.comparators[0]) or _const_path(a.test.left)
                        if cp_ is not None and any(x is n for b_ in a.body for x in ast.walk(b_)):
                            kp = cp_
                            break
                    if isinstance(a, (ast.FunctionDef, ast.AsyncFunctionDef)):
                        break
                fam.handlers[m_.qname] = (m_, kp)
                fam.entry_calls.setdefault(m_.qname, []).append(n)
                if kp:
                    fam.table_keys.add(kp)
        for hq in fam.handlers:
            if hq not in fam.entry_calls:
                fam.entry_calls[hq] = list(fam.dispatch_calls)
        out.append(fam)
    return out


def inspectors(ctx: Ctx) -> List[Func]:
    """every method that takes part in call inspection (holders and their dispatch handlers)"""
    out: List[Func] = []
    for fam in families(ctx):
        out += fam.members()
    return out


def family_of(ctx: Ctx, f: Func) -> Family:
    for fam in families(ctx):
        if f in fam.members():
            return fam
    raise AnchorError(f"{f.qname} is not part of a call inspector")


def entry_path(ctx: Ctx, f: Func) -> Optional[Tuple[str, ...]]:
    """the constant API path under which a handler is reached (None for the holder)"""
    fam = family_of(ctx, f)
    if f.qname in fam.handlers:
        return fam.handlers[f.qname][1]
    return None


def not_in_table_nodes(ctx: Ctx, f: Func):
    """branch nodes of the holder on which the callee path is known NOT to be a key of the dispatch table"""
    fam = family_of(ctx, f)
    if f is not fam.holder or not fam.lookup_vars:
        return []
    cfg = cfg_of(f)
    out = []
    for b in cfg.nodes:
        if b.kind != "branch" or b.ast is None:
            continue
        a = b.ast
        if isinstance(a, ast.Compare) and isinstance(a.left, ast.Name) and a.left.id in fam.lookup_vars and len(a.ops) == 1 \
                and isinstance(a.comparators[0], ast.Constant) and a.comparators[0].value is None:
            if (isinstance(a.ops[0], ast.IsNot) and b.label == "F") or (isinstance(a.ops[0], ast.Is) and b.label == "T"):
                out.append(b)
        if isinstance(a, ast.Name) and a.id in fam.lookup_vars and b.label == "F":
            out.append(b)
    return out


def descents(ctx: Ctx, f: Func) -> List[ast.Call]:
    """Calls in f that re-enter introspection: the callee can reach f's inspector (holder or handlers) again in the call graph."""
    try:
        fam = {m.qname for m in family_of(ctx, f).members()}
    except AnchorError:
        fam = {f.qname}
    out = []
    for n in f.own_nodes():
        if isinstance(n, ast.Call):
            fs, _ = ctx.prog.callees(f, n, ctx._types)
            for c in fs:
                if c.qname not in fam and (fam & ctx.reachable_funcs([c.qname])) and "call_stack" in c.params:
                    out.append(n)
                    break
    return sorted(out, key=lambda c: c.lineno)


def _dict_grouping(f: Func) -> Optional[ast.AST]:
    """`groups.setdefault(key, [])` / `defaultdict(list)` / `if key not in groups: groups[key] = []` followed by an append:
    grouping by a mapping does not depend on the order of the input (unlike groupby)"""
    for n in f.own_nodes():
        if isinstance(n, ast.Call) and isinstance(n.func, ast.Attribute) and n.func.attr == "setdefault" and len(n.args) == 2 and isinstance(n.args[1], ast.List) and not n.args[1].elts:
            return n
        if isinstance(n, ast.Call) and unparse(n.func).endswith("defaultdict") and n.args and unparse(n.args[0]) == "list":
            return n
    return None


def _neighbour_scan(f: Func) -> Optional[ast.AST]:
    """`for (p, q) in zip(xs, xs[1:])` (or xs[i] / xs[i + 1]) with a `startswith` test, where xs is `sorted(..)` of whole
    path strings (no key, or a key that does not split the path): the loop / comprehension node, else None."""
    sorted_plain = False
    for n in f.own_nodes():
        if isinstance(n, ast.Call) and isinstance(n.func, ast.Name) and n.func.id == "sorted":
            key = [k.value for k in n.keywords if k.arg == "key"]
            if not key or not any(isinstance(x, ast.Attribute) and x.attr in ("split", "parts") or (isinstance(x, ast.Name) and "split" in x.id) for x in ast.walk(key[0])):
                sorted_plain = True
        if isinstance(n, ast.Call) and isinstance(n.func, ast.Attribute) and n.func.attr == "sort" and not n.keywords:
            sorted_plain = True
    if not sorted_plain:
        return None
    has_prefix_test = any(isinstance(n, ast.Call) and isinstance(n.func, ast.Attribute) and n.func.attr == "startswith" for n in f.own_nodes())
    if not has_prefix_test:
        return None
    for n in f.own_nodes():
        it = None
        if isinstance(n, ast.For):
            it = n.iter
        elif isinstance(n, ast.comprehension):
            it = n.iter
        if isinstance(it, ast.Call) and isinstance(it.func, ast.Name) and it.func.id == "zip" and len(it.args) == 2:
            a, b = it.args
            if isinstance(a, ast.Name) and isinstance(b, ast.Subscript) and isinstance(b.value, ast.Name) and b.value.id == a.id and isinstance(b.slice, ast.Slice) \
                    and isinstance(b.slice.lower, ast.Constant) and b.slice.lower.value == 1:
                return n if isinstance(n, ast.For) else it
        if isinstance(n, ast.Subscript) and isinstance(n.slice, ast.BinOp) and isinstance(n.slice.op, ast.Add) and isinstance(n.slice.right, ast.Constant) and n.slice.right.value == 1:
            return n
    return None


def _run_scan(ctx: Ctx, f: Func) -> Optional[Tuple[ast.AST, Optional[ast.AST], str]]:
    """The grouping idiom "scan of runs": a loop whose test compares a component of `xs[j]` with a local that was read from
    the same component of `xs[i]` (`head = xs[start][0]` ... `while .. xs[end][0] == head`). Such a scan forms a group from
    adjacent elements only - like groupby - so `xs` has to be sorted by that component before the scan.
    Returns (scan loop, the sort that dominates it or None, why) or None when the idiom is not there."""
    def comp_of(e: ast.AST) -> Optional[Tuple[str, str]]:
        # xs[<index>][<c>]  ->  (xs, dump(c))
        if isinstance(e, ast.Subscript) and isinstance(e.value, ast.Subscript) and isinstance(e.value.value, ast.Name):
            return e.value.value.id, ast.dump(e.slice)
        return None
    heads: Dict[str, Tuple[str, str]] = {}
    for n in f.own_nodes():
        if isinstance(n, ast.Assign) and len(n.targets) == 1 and isinstance(n.targets[0], ast.Name):
            c = comp_of(n.value)
            if c is not None:
                heads[n.targets[0].id] = c
    for n in f.own_nodes():
        if not isinstance(n, ast.While):
            continue
        for t in ast.walk(n.test):
            if isinstance(t, ast.Compare) and len(t.ops) == 1 and isinstance(t.ops[0], ast.Eq):
                sides = [t.left, t.comparators[0]]
                for a, b in (sides, sides[::-1]):
                    ca = comp_of(a)
                    if ca is not None and isinstance(b, ast.Name) and heads.get(b.id) == ca:
                        xs, comp = ca
                        want = "lambda:" + comp
                        cfg = cfg_of(f)
                        for m in f.own_nodes():
                            call = None
                            if isinstance(m, ast.Expr) and isinstance(m.value, ast.Call) and isinstance(m.value.func, ast.Attribute) and m.value.func.attr == "sort" \
                                    and isinstance(m.value.func.value, ast.Name) and m.value.func.value.id == xs:
                                call = m.value
                            elif isinstance(m, ast.Assign) and len(m.targets) == 1 and isinstance(m.targets[0], ast.Name) and m.targets[0].id == xs \
                                    and isinstance(m.value, ast.Call) and ctx.prog.dotted(f, m.value.func) == "sorted":
                                call = m.value
                            if call is None or dominated(ctx, f, n, done_nodes(cfg, m)) is not None:
                                continue
                            key = _kw(call, "key", None)
                            got = None
                            if isinstance(key, ast.Lambda) and len(key.args.args) == 1 and isinstance(key.body, ast.Subscript) \
                                    and isinstance(key.body.value, ast.Name) and key.body.value.id == key.args.args[0].arg:
                                got = "lambda:" + ast.dump(key.body.slice)
                            if got == want:
                                return n, m, f"`{unparse(m, 70)}` dominates the scan and sorts by the component the runs are formed on"
                            return n, None, f"`{unparse(m, 70)}` does not sort by the component `{xs}[..]{unparse(a, 30)[len(unparse(a.value, 30)):]}` the runs are formed on"
                        return n, None, f"`{xs}` is not sorted on every path to the scan of runs"
    return None


def _run_scan_in(ctx: Ctx, detector: Func) -> Optional[Tuple[Func, Tuple[ast.AST, Optional[ast.AST], str]]]:
    """the scan of runs in the detector itself or in a package function it hands the paths to (call graph, same module)"""
    names = [detector.qname] + sorted(q for q in ctx.reachable_funcs([detector.qname]) if q != detector.qname)
    for q in names:
        g = ctx.prog.funcs.get(q)
        if g is None or g.module is not detector.module:
            continue
        r = _run_scan(ctx, g)
        if r is not None:
            return g, r
    return None


def run(ctx: Ctx) -> None:
    rep = ctx.report
    prog = ctx.prog
    ctx.types
    top, nested = find_api_functions(ctx)
    rep.rule("C11.R1", "itertools.groupby(X, key=k): X is sorted(..., key=k) (alpha-equivalent key) on every reaching definition")
    rep.rule("C11.R2", "each descent passes call_stack + [P] and is dominated by `P in call_stack -> raise CIRCULAR_CALL`")
    rep.rule("C11.R3", "EVAL_IN_EVAL rejection dominates every descent (static, x2) and the nested user call (dynamic)")
    rep.rule("C11.R4", "both analysis calls and the overlap rejection dominate every user call and store mutation")
    rep.rule("C11.R5", "the two call inspectors dispatch on the same dds API paths and raise the same error codes")

    for code in ("OVERLAPPING_PATH", "CIRCULAR_CALL", "EVAL_IN_EVAL"):
        holders = [f for f in prog.funcs.values() if raises_with_code(f, code)]
        if holders:
            rep.ok("C11.R0", "dds", f"some function raises DDSException with code {code} ({len(holders)} site(s))", holders[0].loc(), nontrivial=False)
        else:
            rep.bad("C11.R0", "dds", f"some function raises DDSException with code {code}", "dds/", [f"no `raise DDSException(..., DDSErrorCode.{code})` anywhere in the package: such evaluations cannot be rejected with this code"],
                    code, what=f"no rejection with code {code} exists")
    if not raises_with_code(top, "OVERLAPPING_PATH"):
        rep.bad("C11.R0", top.qname, "the top-level evaluation function rejects overlapping paths (raise with OVERLAPPING_PATH guarded by the overlap detector)", top.loc(),
                [f"no `raise DDSException(.., DDSErrorCode.OVERLAPPING_PATH)` in {top.qname}: a path that is a strict prefix of another is accepted, user functions run and the "
                 "commit fails half way"], "OVERLAPPING_PATH-top", what="no rejection of overlapping paths before the evaluation runs")
    if any(o.rule == "C11.R0" and o.verdict == "violated" for o in rep.obligations):
        return
    # ---- R1 -------------------------------------------------------------------------------
    detector, overlap_raise = find_overlap_detector(ctx, top)
    n_gb = 0
    scope = list(prog.funcs.values()) if ctx.tier == "thorough" else [detector]
    for f in scope:
        for n in f.own_nodes():
            if isinstance(n, ast.Call) and (prog.dotted(f, n.func) or "").endswith("itertools.groupby"):
                n_gb += 1
                check_groupby(ctx, f, n)
    in_detector = sum(
        1 for n in detector.own_nodes()
        if isinstance(n, ast.Call) and (prog.dotted(detector, n.func) or "").endswith("itertools.groupby")
    )
    if in_detector == 0 and _dict_grouping(detector) is not None:
        n_gb += 1
        g_ = _dict_grouping(detector)
        rep.ok("C11.R1", detector.qname, f"the overlap detector groups by a dictionary (`{unparse(g_, 50)}`): every path is filed under its key whatever the input order", detector.loc(g_))
    elif in_detector == 0:
        w = _neighbour_scan(detector)
        if w is not None:
            # a known-wrong idiom, decided as such: one pass over the string-sorted paths comparing neighbours
            n_gb += 1
            rep.bad("C11.R1", detector.qname, "the overlap detector groups each path with all of its sub-paths", detector.loc(w),
                    [f"{detector.loc(w)}: `{unparse(w, 70)}` compares each path with its successor in plain string order",
                     "string order does not keep a path next to its sub-paths: every character below '/' (space ! \" # $ % & ' ( ) * + , - .) sorts a sibling in between",
                     "counterexample: sorted(['/model', '/model/weights', '/model.meta']) == ['/model', '/model.meta', '/model/weights']: '/model' is a prefix of "
                     "'/model/weights' and no neighbour pair shows it: the evaluation is not rejected"],
                    "neighbour-scan", what="overlapping paths separated by a sibling that sorts below '/' are not detected")
        elif _run_scan_in(ctx, detector) is not None:
            scanner, (loop, srt, why) = _run_scan_in(ctx, detector)  # type: ignore
            n_gb += 1
            desc = "the runs of equal first segments are formed over input sorted by that segment (a run is made of adjacent elements only)"
            if srt is not None:
                rep.ok("C11.R1", scanner.qname, desc + ": " + why, scanner.loc(loop))
            else:
                rep.bad("C11.R1", scanner.qname, desc, scanner.loc(loop),
                        [why, "counterexample shape: ['/f', '/h', '/f/g'] -> the two '/f' entries are not adjacent, overlap not reported"],
                        "run-scan", what="runs formed over unsorted input: non-adjacent overlapping paths are not detected")
        else:
            rep.unknown("C11.R1", detector.qname, "overlap detector does not use groupby: grouping idiom not recognised", detector.loc())
    rep.floor("C11.R1", n_gb, 1)

    # ---- R6: the overlap test covers the complete path map (root path of dds.keep included) ----
    rep.rule("C11.R6", "the overlap detector is applied to the map that is committed (all_store_paths of the interactions with the root path attached)")
    _overlap_input(ctx, top, detector)

    # ---- R8: both passes analyse the program as it is now ----
    from .c03 import global_cache_rule
    rep.rule("C11.R8", "as C03.R3(i): no process-wide cache whose entries are returned as analysis results (resolved functions, interactions) has a writer: "
                       "both passes must analyse the functions that python will run, not those of an earlier evaluation")
    global_cache_rule(ctx, "C11.R8")

    # ---- R10: the detectors look at every element ----
    from .common import loops_can_iterate
    rep.rule("C11.R10", "every loop of the path utilities and of the two analysis passes can reach its next element (no unconditional return / break at the end of a loop body)")
    n10 = loops_can_iterate(ctx, "C11.R10", ("dds.structures_utils", "dds._introspect_indirect", "dds.introspect"),
                            "overlap detection: with a sibling that sorts before the overlapping pair (`/a` next to `/m`, `/m/x`) only the first group is searched and the overlap is accepted")
    rep.floor("C11.R10", n10, 10)

    # ---- R11: the stack of calls is handed down as the stack of calls ----
    from .common import kinds_not_confused
    rep.rule("C11.R11", "both passes hand each kind of value to the parameter of its kind (mypy): the stack of canonical paths that the cycle test consults is passed "
                        "as `call_stack`, never as the list of local names (and vice versa)")
    n11 = kinds_not_confused(ctx, "C11.R11", ("dds.introspect", "dds._introspect_indirect", "dds._retrieve_objects", "dds.structures_utils", "dds._api"),
                             "a descent that receives an empty stack never finds its callee on it: a cycle through this call is analysed for ever (RecursionError instead of CIRCULAR_CALL)")
    rep.floor("C11.R11", n11, 3)

    # ---- R14: every decorator is looked at ----
    rep.rule("C11.R14", "the search for the dds decorator of a function examines every decorator of the list: inside the loop over `decorator_list` nothing returns "
                        "'no path' (a decorator of another library stacked above @dds.data_function must not hide the path from the overlap test)")
    n14 = 0
    for f_ in prog.funcs.values():
        if f_.module.name not in ("dds.introspect", "dds._introspect_indirect"):
            continue
        for lp in [x for x in f_.own_nodes() if isinstance(x, ast.For) and isinstance(x.iter, ast.Attribute) and x.iter.attr == "decorator_list"]:
            n14 += 1
            early = [r for st in lp.body for r in ast.walk(st) if isinstance(r, ast.Return) and (r.value is None or (isinstance(r.value, ast.Constant) and r.value.value is None))]
            desc = f"{f_.name}: the loop over the decorators ends only when the dds decorator is found"
            if early:
                rep.bad("C11.R14", f_.qname, desc, f_.loc(early[0]), [f"{f_.loc(early[0])}: `return None` inside the loop: the decorators after this one are not examined",
                        "`@other.deco(1)` above `@dds.data_function('/w/a')`: the path '/w/a' is not seen, '/w/a/b' kept elsewhere is not reported as overlapping, user functions run and "
                        "the evaluation dies later with KeyError"], stmt_key(early[0]), what="a decorator stacked above the dds decorator hides the function's path from the analysis")
            else:
                rep.ok("C11.R14", f_.qname, desc, f_.loc(lp))
    rep.floor("C11.R14", n14, 1)
    from .c03 import store_paths_lexical as _spl
    rep.rule("C11.R16", "as C08.R10 / C03.R8: a path object is turned into a store path by its lexical methods only (absolute / as_posix): `resolve`, `realpath`, `expanduser` ... ask the "
                      "file system, and make the store path - and whether two paths overlap - depend on the symbolic links of the machine")
    _n_spl = _spl(ctx, "C11.R16")
    rep.floor("C11.R16", _n_spl, 1)
    rep.rule("C11.R20", "cycles of length 1 through a reference by name are analysed like every other reference: the seen-names set of a visitor does not start with the function's own name")
    n20 = seen_names_start_empty(ctx, "C11.R20")
    rep.floor("C11.R20", n20, 2)
    rep.rule("C11.R19", "a method called on the value of a dds call (`dds.load(p).upper()`) is not taken for that dds call: the dispatch of both inspectors on the API paths is "
                        "passed only by calls whose function expression is not the result of another call (a well-formed evaluation is not refused, no stray path is loaded)")
    n19 = method_on_result_is_not_the_call(ctx, "C11.R19")
    rep.floor("C11.R19", n19, 2)
    rep.rule("C11.R18", "circular calls are refused whatever the kind of edge: the visitors hand their own call stack to every inspection they start (calls and references by name)")
    n18 = visitors_hand_over_stack(ctx, "C11.R18")
    rep.floor("C11.R18", n18, 4)
    from .common import no_dead_duplicate_dispatch
    rep.rule("C11.R17", "the resolver handles every kind of object it dispatches on (module, function, class): no kind test of a dispatch is a copy of an earlier one whose branch "
                        "always leaves")
    n17 = no_dead_duplicate_dispatch(ctx, "C11.R17", ("dds._retrieve_objects", "dds.introspect", "dds._introspect_indirect"),
                                     "a call written on the class itself (`Stage.run(n)`) resolves to nothing: the subtree disappears from both analyses - a cycle through a static method runs, "
                                     "a path kept in a static method is not collected and overlapping paths are not reported before the run")
    rep.floor("C11.R17", n17, 1)
    from . import storerules as _S11
    rep.rule("C11.R15", "as C08.R13: a path is made well-formed or refused when it is made - one spelling per path, and the path without segment ('/', a prefix of every "
                        "other path) is refused by DDSPathUtils.create, i.e. before anything runs")
    n15 = _S11.one_spelling_per_path(ctx, "C11.R15")
    rep.floor("C11.R15", n15, 1)

    # ---- R13: the functions of every accepted module are followed ----
    if rep.prop == "C11":
        from . import c14 as _c14
        rep.rule("C11.R13", "as C14.R1-R13: both passes follow the functions of exactly the accepted modules (a module registered under another name than its own is never "
                            "followed: cycles inside it, a nested dds.eval or an overlapping keep are executed instead of rejected)")
        before = len(rep.obligations)
        _c14.run(ctx)
        for o in rep.obligations[before:]:
            o.rule = "C11.R13/" + o.rule
        for k in [k for k in rep.floors if k.startswith("C14.")]:
            rep.floors["C11.R13/" + k] = rep.floors.pop(k)

    # ---- R12: the path splitter keeps the whole remainder ----
    rep.rule("C11.R12", "abstract evaluation of the path splitter used by the overlap detector: '/s1/s2/../sn' splits into s1 and '/s2/../sn' for every depth (a truncated "
                        "remainder hides overlaps below the second level)")
    sp = prog.func("dds.structures_utils.DDSPathUtils.split")
    if sp is None:
        raise AnchorError("dds.structures_utils.DDSPathUtils.split not found")
    from ..absint import Evaluator as _Ev, Const as _Const
    n12 = 0
    bad12, und12 = [], []
    for depth in range(1, 6):
        segs = [f"s{i}" for i in range(1, depth + 1)]
        pth = "/" + "/".join(segs)
        want = (segs[0], ("/" + "/".join(segs[1:])) if depth > 1 else None)
        try:
            outs = _Ev(prog).run(sp, [_Const(pth)])
        except Exception as e:
            und12.append(f"{pth}: {type(e).__name__}: {e}")
            continue
        got = {repr(o.value.v) if o.kind == "return" and isinstance(o.value, _Const) else f"{o.kind}:{o.value if o.kind == 'return' else o.exc}" for o in outs}
        if got == {repr(want)}:
            n12 += 1
        elif any("TOP" in g for g in got):
            und12.append(f"{pth}: {sorted(got)}")
        else:
            n12 += 1
            bad12.append(f"split({pth!r}) gives {sorted(got)}, expected {want!r}")
    desc12 = "DDSPathUtils.split returns the first segment and the complete remainder"
    if bad12:
        rep.bad("C11.R12", sp.qname, desc12, sp.loc(), bad12 + ["the overlap detector recurses on the remainder: '/a/b' and '/a/b/c' are compared as 'b' and 'b': no overlap is reported, user functions run "
                "and the commit fails half way"], "split", what="the path splitter truncates the remainder: deeper overlaps are not detected")
    elif und12:
        rep.info("C11.R12", sp.qname, f"path splitter not evaluated abstractly ({und12[0]}): not judged", sp.loc())
    else:
        rep.ok("C11.R12", sp.qname, desc12 + " (depths 1..5)", sp.loc())
    rep.floor("C11.R12", n12, 0)

    # ---- R9: both passes resolve every name of the module ----
    from .c01 import dismiss_rule
    rep.rule("C11.R9", "as C01.R6: the resolver dismisses a name only after it was not found in the module's namespace (a module-level `eval` imported "
                       "from dds, or user functions named like builtins, stay visible to both passes)")
    dismiss_rule(ctx, "C11.R9")

    # ---- R7: both detections rely on the same local-variable classification ----
    from . import visitors
    rep.rule("C11.R7", "names bound by import / def / class are not classified as local variables (calls through them stay visible to both passes); visitors descend everywhere")
    visitors.only_value_binders(ctx, "C11.R7")
    visitors.traversal_complete(ctx, "C11.R7")

    # ---- R2 / R3 (static) / R5 -----------------------------------------------------------------
    insp = inspectors(ctx)
    n_desc = 0
    api_paths: Dict[str, Set[Tuple[str, ...]]] = {}
    codes: Dict[str, Set[str]] = {}
    for f in insp:
        cfg = cfg_of(f)
        fl = flow_of(prog, f)
        circ = raises_with_code(f, "CIRCULAR_CALL")
        evalr = raises_with_code(f, "EVAL_IN_EVAL")
        guards = []
        for r in circ:
            t = _guard_test(f, r)
            outs, atoms = pass_outcomes(cfg, f.module, r)
            # atomic test `P in call_stack`
            for a in atoms:
                if isinstance(a, ast.Compare) and len(a.ops) == 1 and isinstance(a.ops[0], ast.In) and isinstance(a.left, ast.Name):
                    guards.append((a.left, a.comparators[0], [o for o in outs if o.ast is a], r))
        eval_outs: List[Node] = []
        eval_vars: Set[str] = set()
        for r in evalr:
            o, atoms = pass_outcomes(cfg, f.module, r)
            for a_ in atoms:
                if (
                    isinstance(a_, ast.Compare) and isinstance(a_.left, ast.Name) and len(a_.ops) == 1
                    and isinstance(a_.ops[0], ast.Eq) and _const_path(a_.comparators[0]) == ("dds", "eval")
                ):
                    eval_vars.add(a_.left.id)
                    eval_outs += [x for x in o if x.ast is a_]
        # a branch conditioned on the callee path being another constant API path excludes dds.eval as well
        for n_ in cfg.nodes:
            if n_.kind == "branch" and n_.label == "T" and isinstance(n_.ast, ast.Compare):
                c_ = n_.ast
                if (
                    len(c_.ops) == 1 and isinstance(c_.ops[0], ast.Eq) and isinstance(c_.left, ast.Name)
                    and c_.left.id in eval_vars and _const_path(c_.comparators[0]) not in (None, ("dds", "eval"))
                ):
                    eval_outs.append(n_)
        # ... also when the comparison is held in a boolean local (`is_keep = callee_path == <keep>`; `is_load = not is_keep and callee_path == <load>`; `if is_keep or is_load:`)
        for n_ in cfg.nodes:
            if n_.kind == "branch" and n_.label == "T" and isinstance(n_.ast, ast.Name):
                try:
                    ds_ = fl.defs_of_use(n_.ast)
                except Exception:
                    ds_ = []
                if len(ds_) == 1 and ds_[0].value is not None and getattr(ds_[0], "kind", "assign") == "assign":
                    v_ = ds_[0].value
                    conj_ = v_.values if isinstance(v_, ast.BoolOp) and isinstance(v_.op, ast.And) else [v_]
                    for c_ in conj_:
                        if isinstance(c_, ast.Compare) and len(c_.ops) == 1 and isinstance(c_.ops[0], ast.Eq) and isinstance(c_.left, ast.Name) \
                                and _const_path(c_.comparators[0]) not in (None, ("dds", "eval")) and (not eval_vars or c_.left.id in eval_vars):
                            eval_outs.append(n_)
                            break
        fam_ = family_of(ctx, f)
        ep_ = entry_path(ctx, f)
        if ep_ is not None and ep_ != ("dds", "eval"):
            eval_outs.append(cfg.entry)  # the handler is only reached for its own (other) API path
        if ("dds", "eval") in fam_.table_keys:
            eval_outs += not_in_table_nodes(ctx, f)
        for call in descents(ctx, f):
            n_desc += 1
            where = f.loc(call)
            fs, _ = prog.callees(f, call, ctx._types)
            callee = fs[0]
            args = bind_arg(callee, call, "call_stack")
            desc = f"descent `{unparse(call, 60)}` extends the stack with the callee and is preceded by the membership rejection"
            if len(args) != 1:
                rep.unknown("C11.R2", f.qname, "cannot bind the call_stack argument of the descent", where)
                continue
            a = args[0]
            exprs: List[ast.AST] = []
            if isinstance(a, ast.Name):
                for d in fl.defs_of_use(a):
                    if d.value is not None:
                        exprs.append(d.value)
                    else:
                        exprs.append(a)
            else:
                exprs.append(a)
            pushed: List[ast.Name] = []
            undecided = False
            ok_shape = bool(exprs)
            wit: List[str] = []
            self_guarded: Set[str] = set()
            for e in exprs:
                p = _stack_push(e)
                if p is None:
                    gp = guarded_push(ctx, f, e)
                    if isinstance(gp, ast.Name):
                        p = gp
                        self_guarded.add(gp.id)  # the helper holds the membership rejection itself
                if p is None:
                    ok_shape = False
                    if _record_push(f, e, call):
                        undecided = True
                    wit.append(f"{where}: stack argument `{unparse(e, 60)}` is not `call_stack + [callee path]`: a cycle through this call is never seen")
                else:
                    pushed.append(p)
            if not ok_shape and undecided:
                rep.unknown("C11.R2", f.qname, f"the stack is extended with a field of a local record (`{unparse(exprs[0], 50)}`), as the descended object is: this analysis does not relate "
                            "the two fields of a record", where)
                continue
            if not ok_shape:
                rep.bad("C11.R2", f.qname, desc, where, wit, stmt_key(call), what="descent does not extend the call stack with the callee")
                continue
            bad = False
            obj_arg = call.args[0] if call.args else None
            for p in pushed:
                pb, ob = _pair_base(fl, p), (_pair_base(fl, obj_arg) if isinstance(obj_arg, ast.Name) else None)
                if pb is None or ob is None:
                    rep.unknown("C11.R2", f.qname, f"cannot relate the descended object `{unparse(obj_arg, 30)}` to the pushed path `{p.id}`", where)
                elif pb[:2] != ob[:2] or {pb[2], ob[2]} != {"object_val", "resolved_path"}:
                    bad = True
                    wit.append(f"{where}: the stack is extended with `{p.id}` (from {pb[0]}.{pb[2]}) but the analysis descends into `{unparse(obj_arg, 30)}` (from {ob[0]}.{ob[2]}): the callee itself is never on the stack")
            for p in pushed:
                pdefs = set(fl.defs_of_use(p))
                doms: List[Node] = []
                for (left, right, outs, r) in guards:
                    if left.id == p.id and set(fl.defs_of_use(left)) == pdefs:
                        doms += outs
                w = None if p.id in self_guarded else dominated(ctx, f, call, doms)
                if w is not None:
                    bad = True
                    wit += [f"no `{p.id} in call_stack` rejection on this path to the descent:"] + w
            if bad:
                rep.bad("C11.R2", f.qname, desc, where, wit, stmt_key(call), what="descent not guarded by the cycle test: (co-)recursion is not rejected (infinite analysis)")
            else:
                rep.ok("C11.R2", f.qname, desc, where)
            # R3 static
            desc3 = f"descent `{unparse(call, 50)}` is preceded by the dds.eval rejection"
            w = dominated(ctx, f, call, eval_outs)
            if w is None:
                rep.ok("C11.R3", f.qname, desc3, where)
            else:
                rep.bad("C11.R3", f.qname, desc3, where, ["path to the descent that skips the EVAL_IN_EVAL rejection:"] + w,
                        stmt_key(call), what="nested dds.eval inside the call tree is not rejected statically")
        fam_raises = [m_ for m_ in fam_.members() if raises_with_code(m_, "EVAL_IN_EVAL")]
        if f is fam_.holder and not fam_raises:
            rep.bad("C11.R3", f.qname, "inspector rejects calls that resolve to dds.eval", f.loc(), ["no raise with EVAL_IN_EVAL in this inspector"],
                    "no-eval-reject", what="inspector has no EVAL_IN_EVAL rejection")
        if f is fam_.holder:
            for hq, (hm, kp) in fam_.handlers.items():
                if kp == ("dds", "eval"):
                    hcfg = cfg_of(hm)
                    if not raises_with_code(hm, "EVAL_IN_EVAL") or hcfg.find_path([hcfg.entry], [hcfg.exit]) is not None:
                        rep.bad("C11.R3", hm.qname, "the handler of the dds.eval path always raises EVAL_IN_EVAL", hm.loc(), ["a normal return path exists"], "eval-handler",
                                what="nested dds.eval inside the call tree is not rejected statically")
                    else:
                        rep.ok("C11.R3", hm.qname, "the handler of the dds.eval path always raises EVAL_IN_EVAL", hm.loc())
        paths: Set[Tuple[str, ...]] = set()
        for n in f.own_nodes():
            if isinstance(n, ast.Call) and isinstance(n.func, ast.Attribute) and n.func.attr == "from_list" and n.args:
                l = n.args[0]
                if isinstance(l, ast.List) and all(const_str(e) is not None for e in l.elts):
                    paths.add(tuple(const_str(e) for e in l.elts))  # type: ignore
        hq_ = fam_.holder.qname
        api_paths.setdefault(hq_, set()).update(paths | fam_.table_keys)
        codes.setdefault(hq_, set()).update({c for c in (error_code_of(n) for n in f.own_nodes() if isinstance(n, ast.Raise)) if c})
        for n in f.own_nodes():
            if isinstance(n, ast.Call) and guarded_push(ctx, f, n) is not None:
                codes[hq_].add("CIRCULAR_CALL")
    rep.floor("C11.R2", n_desc, 4)
    fams_ = families(ctx)
    a, b = fams_[0].holder, fams_[1].holder
    if api_paths[a.qname] == api_paths[b.qname] and {("dds", "keep"), ("dds", "load"), ("dds", "eval")} <= api_paths[a.qname]:
        rep.ok("C11.R5", f"{a.qname} ~ {b.qname}", f"both dispatch on {sorted(api_paths[a.qname])}", a.loc())
    else:
        rep.bad("C11.R5", f"{a.qname} ~ {b.qname}", "both inspectors dispatch on keep / load / eval", a.loc(),
                [f"{a.qname}: {sorted(api_paths[a.qname])}", f"{b.qname}: {sorted(api_paths[b.qname])}"], "api-paths",
                what="the two analysis passes disagree on which dds API calls they recognise")
    ca, cb = codes[a.qname] & {"CIRCULAR_CALL", "EVAL_IN_EVAL"}, codes[b.qname] & {"CIRCULAR_CALL", "EVAL_IN_EVAL"}
    if ca == cb == {"CIRCULAR_CALL", "EVAL_IN_EVAL"}:
        rep.ok("C11.R5", f"{a.qname} ~ {b.qname}", "both raise CIRCULAR_CALL and EVAL_IN_EVAL", a.loc(), nontrivial=False)
    else:
        rep.bad("C11.R5", f"{a.qname} ~ {b.qname}", "both inspectors raise CIRCULAR_CALL and EVAL_IN_EVAL", a.loc(),
                [f"{a.qname}: {sorted(ca)}", f"{b.qname}: {sorted(cb)}"], "codes", what="the two analysis passes raise different rejection codes")

    # ---- R3 dynamic -----------------------------------------------------------------------------
    cfgn = cfg_of(nested)
    evr = raises_with_code(nested, "EVAL_IN_EVAL")
    outs: List[Node] = []
    for r in evr:
        o, _ = pass_outcomes(cfgn, nested.module, r)
        outs += o
    for uc in user_calls(nested):
        desc = "the nested user call is preceded by the rejection of path-less (dds.eval) nesting"
        w = dominated(ctx, nested, uc, outs) if evr else ["no raise with EVAL_IN_EVAL in the nested-evaluation function"]
        if w is None:
            rep.ok("C11.R3", nested.qname, desc, nested.loc(uc))
        else:
            rep.bad("C11.R3", nested.qname, desc, nested.loc(uc), w, stmt_key(uc), what="dds.eval nested at run time is executed instead of rejected")

    # ---- R4 -------------------------------------------------------------------------------
    cfg = cfg_of(top)
    acalls = {q: calls_to(ctx, top, [q]) for q in ANALYSIS_FUNCS}
    for q, cs in acalls.items():
        if not cs:
            raise AnchorError(f"role analysis-call {q} not found in {top.qname}")
    ov_all, ov_atoms = pass_outcomes(cfg, top.module, overlap_raise)
    ov_outs = []
    for a_ in ov_atoms:
        sl_ = ctx.slicer(follow_calls=False).slice(top, a_)
        derives = False
        for fn_, n_ in sl_.nodes():
            if fn_ is top and isinstance(n_, ast.Call):
                fs_, _d = prog.callees(top, n_, ctx._types)
                if detector in fs_:
                    derives = True
        if derives:
            ov_outs += [o for o in ov_all if o.ast is a_]
    targets: List[Tuple[str, ast.Call]] = [("user call", c) for c in user_calls(top)]
    from .common import effect_sites
    targets += [("store mutation", c) for c in effect_sites(ctx, top, STORE_MUT)]
    for kind, t in targets:
        where = top.loc(t)
        for q, cs in acalls.items():
            desc = f"{kind} `{unparse(t, 40)}` happens only after {q.split('.')[-1]} completed"
            w = dominated(ctx, top, t, [d for c in cs for d in done_nodes(cfg, c)])
            if w is None:
                rep.ok("C11.R4", top.qname, desc, where)
            else:
                rep.bad("C11.R4", top.qname, desc, where, w, stmt_key(t) + q[-8:], what=f"{kind} can run before the analysis finished")
        desc = f"{kind} `{unparse(t, 40)}` happens only after the overlap rejection was passed"
        w = dominated(ctx, top, t, ov_outs)
        if w is None:
            rep.ok("C11.R4", top.qname, desc, where)
        else:
            rep.bad("C11.R4", top.qname, desc, where, w, stmt_key(t) + "ov", what=f"{kind} can run before overlapping paths are rejected")
    rep.floor("C11.R4", len(targets), 3)


def _overlap_input(ctx: Ctx, top: Func, detector: Func) -> None:
    rep = ctx.report
    prog = ctx.prog
    fl = flow_of(prog, top)
    dcalls = [n for n in top.own_nodes() if isinstance(n, ast.Call) and detector in prog.callees(top, n, ctx._types)[0]]
    from .common import path_map_value
    req = path_map_value(top)
    if not dcalls or req is None or not isinstance(req, ast.Name):
        rep.unknown("C11.R6", top.qname, "cannot relate the overlap detector's input to the evaluation's path map", top.loc())
        return
    dc = dcalls[0]
    # whichever argument carries the paths (positional order is the detector's own business)
    arg = dc.args[0] if dc.args else None
    same = False
    for a_ in list(dc.args) + [k.value for k in dc.keywords]:
        sl = ctx.slicer(follow_calls=False).slice(top, a_)
        if sl.find(lambda f_, n_: isinstance(n_, ast.Name) and n_.id == req.id and set(fl.defs_of_use(n_)) == set(fl.defs_of_use(req))) is not None:
            same, arg = True, a_
            break
    desc = "the overlap test examines the keys of the evaluation's complete path map"
    if not same:
        rep.bad("C11.R6", top.qname, desc, top.loc(dc), [f"detector input `{unparse(arg, 60)}` does not derive from `{req.id}` (the map assigned to requested_paths)"],
                "overlap-input", what="the overlap test does not see every kept path of the evaluation")
        return
    # the map itself includes the root path: all_store_paths(<interactions with store_path attached>)
    root_ok = False
    for d in fl.defs_of_use(req):
        v = d.value
        if isinstance(v, ast.Call) and unparse(v.func).endswith("all_store_paths") and v.args and isinstance(v.args[0], ast.Name):
            for d2 in fl.defs_of_use(v.args[0]):
                if isinstance(d2.value, ast.Call) and isinstance(d2.value.func, ast.Attribute) and d2.value.func.attr == "_replace" and any(k.arg == "store_path" for k in d2.value.keywords):
                    root_ok = True
    if root_ok:
        rep.ok("C11.R6", top.qname, desc + " (root path of dds.keep attached before collection)", top.loc(dc))
    else:
        rep.bad("C11.R6", top.qname, desc, top.loc(dc), [f"the map `{req.id}` examined at {top.loc(dc)} is collected before / without the path of the outermost dds.keep",
                "an overlap that involves the outermost kept path is not rejected: user code runs and blobs are stored before a low-level error at path commit"],
                "overlap-root", what="the outermost kept path is not part of the overlap test")


def _pair_base(fl, name: ast.Name):
    """x defined by `.. = z.attr` (possibly inside a tuple assignment): (z, frozenset(defs of z), attr)"""
    v = None
    for _ in range(5):
        defs = fl.defs_of_use(name)
        if len(defs) != 1 or defs[0].value is None:
            return None
        v = defs[0].value
        if isinstance(v, ast.Name):
            name = v  # a plain copy (the parameter binding of an expanded helper): the value is the copied one
            continue
        break
    if isinstance(v, ast.Attribute) and isinstance(v.value, ast.Name):
        return (v.value.id, frozenset(id(d) for d in fl.defs_of_use(v.value)), v.attr)
    return None


def _const_path(e: ast.AST) -> Optional[Tuple[str, ...]]:
    if isinstance(e, ast.Call) and isinstance(e.func, ast.Attribute) and e.func.attr == "from_list" and e.args:
        l = e.args[0]
        if isinstance(l, ast.List) and all(const_str(x) is not None for x in l.elts):
            return tuple(const_str(x) for x in l.elts)  # type: ignore
    return None


def guarded_push(ctx: Ctx, f: Func, e: ast.AST) -> Optional[ast.AST]:
    """`helper(call_stack, P)` where helper raises CIRCULAR_CALL when P is already on the stack and otherwise returns
    `stack + [P]` on every normal path: the pushed expression P, else None"""
    if not isinstance(e, ast.Call):
        return None
    fs, _ = ctx.prog.callees(f, e, ctx._types)
    if len(fs) != 1:
        return None
    g = fs[0]
    rets = [r for r in g.own_nodes() if isinstance(r, ast.Return)]
    if not rets:
        return None
    pushed_param = None
    for r in rets:
        pv = _stack_push(r.value) if r.value is not None else None
        if pv is None or pv.id not in g.params:
            return None
        if pushed_param not in (None, pv.id):
            return None
        pushed_param = pv.id
    gcfg = cfg_of(g)
    outs: List[Node] = []
    for r in raises_with_code(g, "CIRCULAR_CALL"):
        o, atoms = pass_outcomes(gcfg, g.module, r)
        for a in atoms:
            if isinstance(a, ast.Compare) and len(a.ops) == 1 and isinstance(a.ops[0], ast.In) and isinstance(a.left, ast.Name) and a.left.id == pushed_param:
                outs += [x for x in o if x.ast is a]
    if not outs or any(dominated(ctx, g, r, outs) is not None for r in rets):
        return None
    args = bind_arg(g, e, pushed_param)  # type: ignore
    return args[0] if len(args) == 1 else None


def _record_push(f: Func, e: ast.AST, call: ast.Call) -> bool:
    """`call_stack + [R.path_field]` where the descent is into `R.other_field` of the same local record R"""
    if not (isinstance(e, ast.BinOp) and isinstance(e.op, ast.Add)):
        return False
    for lst in (e.left, e.right):
        if isinstance(lst, ast.List) and len(lst.elts) == 1 and isinstance(lst.elts[0], ast.Attribute) and isinstance(lst.elts[0].value, ast.Name):
            rec = lst.elts[0].value.id
            obj = call.args[0] if call.args else None
            if rec not in f.params and isinstance(obj, ast.Attribute) and isinstance(obj.value, ast.Name) and obj.value.id == rec and obj.attr != lst.elts[0].attr:
                return True
    return False


def seen_names_start_empty(ctx: Ctx, rule: str) -> int:
    """The set of names that `visit_Name` of a visitor skips (`name not in self.<seen>`) must not hold the analysed function's own name before the walk starts: the reference
    `map(f, xs)` inside f is a cycle of length 1, which is rejected only if the reference is analysed (the inspector then finds f on the call stack)."""
    rep = ctx.report
    prog = ctx.prog
    n = 0
    for q in ("dds.introspect.IntroVisitor", "dds._introspect_indirect.IntroVisitorIndirect"):
        k = prog.cls(q)
        if k is None or "__init__" not in k.methods or "visit_Name" not in k.methods:
            continue
        vn, init = k.methods["visit_Name"], k.methods["__init__"]
        seen = {c.comparators[0].attr for c in vn.own_nodes() if isinstance(c, ast.Compare) and len(c.ops) == 1 and isinstance(c.ops[0], (ast.NotIn, ast.In))
                and isinstance(c.comparators[0], ast.Attribute) and isinstance(c.comparators[0].value, ast.Name) and c.comparators[0].value.id == "self"}
        ia = init.node.args
        path_params = {x.arg for x in ia.posonlyargs + ia.args + ia.kwonlyargs if x.annotation is not None and unparse(x.annotation, 60).endswith("CanonicalPath")}
        fl = flow_of(prog, init)
        for st in init.own_nodes():
            if not isinstance(st, (ast.Assign, ast.AnnAssign)) or st.value is None:
                continue
            tg = st.targets[0] if isinstance(st, ast.Assign) else st.target
            if not (isinstance(tg, ast.Attribute) and isinstance(tg.value, ast.Name) and tg.value.id == "self" and tg.attr in seen):
                continue
            # only the sets that the constructor fills itself (a parameter - the local variables of the function - is another matter)
            if isinstance(st.value, ast.Name) and st.value.id in init.params:
                continue
            if isinstance(st.value, ast.Call) and st.value.args and all(isinstance(a, ast.Name) and a.id in init.params for a in st.value.args):
                continue
            n += 1
            own = []
            for y in ast.walk(st.value):
                if isinstance(y, ast.Name) and isinstance(y.ctx, ast.Load):
                    try:
                        roots = [d.value for d in fl.root_defs(y) if d.value is not None]
                    except Exception:
                        roots = []
                    if any(isinstance(z, ast.Name) and z.id in path_params for r_ in roots + [y] for z in ast.walk(r_)):
                        own.append(y.id)
            desc = f"{k.name}: the names already seen (`self.{tg.attr}`) do not include the analysed function itself before the walk"
            if own:
                rep.bad(rule, init.qname, desc, init.loc(st), [f"{init.loc(st)}: `{unparse(st, 70)}`: `{own[0]}` is the last segment of the path of the function being analysed",
                        "`def f(n): return list(map(f, range(n)))`: the reference to f inside f is skipped, dds.eval(f, 2) runs the user function; the cycle g -> map(h), h -> map(g) is refused "
                        "with CIRCULAR_CALL (demo: /verif/findings/K11_self_reference_by_name.py)"], "own-name-seen", what="a function that refers to itself by name (a cycle of length 1) is not rejected")
            else:
                rep.ok(rule, init.qname, desc, init.loc(st))
    return n


def method_on_result_is_not_the_call(ctx: Ctx, rule: str) -> int:
    """`dds.load(p).upper()`: the visitors name a call by the chain of names of its function expression and go THROUGH the calls in it (`dds/load/upper`); the
    resolver stops at the function `dds.load`.  The outer call - a method of the loaded value - must not be dispatched as the dds call: in each call inspector,
    every dispatch on a constant API path is passed only by calls whose function expression is not (an attribute of) the result of another call, or whose callee
    path is none of the API paths the inspector dispatches on."""
    rep = ctx.report
    prog = ctx.prog
    # the predicate: descends `.value` of ast.Attribute nodes and answers isinstance(.., ast.Call)
    preds: List[Func] = []
    for g in prog.funcs.values():
        if not g.module.name.startswith("dds") or g.module.name.startswith("dds_tests"):
            continue
        txt_ret = [unparse(r.value, 80) for r in g.own_nodes() if isinstance(r, ast.Return) and r.value is not None]
        if any(t.startswith("isinstance(") and t.endswith("ast.Call)") for t in txt_ret) \
                and any(isinstance(w, (ast.While, ast.If)) and "ast.Attribute" in unparse(w.test, 80) for w in g.own_nodes()) \
                and any(isinstance(a, ast.Attribute) and a.attr == "value" for a in g.own_nodes()):
            preds.append(g)
    n = 0
    for fam in families(ctx):
        f = fam.holder
        cfg = cfg_of(f)
        node_p = next((p_ for p_ in f.positional_params() if p_ not in ("cls", "self")), "node")
        dispatch = [c for c in f.own_nodes() if isinstance(c, ast.Compare) and len(c.ops) == 1 and isinstance(c.ops[0], ast.Eq)
                    and (_const_path(c.comparators[0]) or _const_path(c.left) or ())[:1] == ("dds",)]
        dispatch += list(fam.dispatch_calls)
        D = {(_const_path(c.comparators[0]) or _const_path(c.left)) for c in dispatch if isinstance(c, ast.Compare)} | set(fam.table_keys)
        if not dispatch:
            continue
        n += 1
        desc = f"{f.name}: a call on the value of another call (`dds.load(p).upper()`) is not dispatched as a dds call"
        lets_through: List[Node] = []
        why = "no test of the shape of the called expression (`isinstance(<function expression, below its attributes>, ast.Call)`) precedes the dispatch"
        for st in f.own_nodes():
            if not isinstance(st, ast.If) or not st.body or not isinstance(st.body[-1], (ast.Return, ast.Raise)):
                continue
            atoms = st.test.values if isinstance(st.test, ast.BoolOp) and isinstance(st.test.op, ast.And) else [st.test]
            pcalls = [a for a in atoms if isinstance(a, ast.Call) and any(g in preds for g in prog.callees(f, a, ctx._types)[0]) and a.args
                      and unparse(a.args[0]) == f"{node_p}.func"]
            if not pcalls:
                continue
            others = [a for a in atoms if a not in pcalls]
            covered = True
            for a in others:
                ok_a = False
                if isinstance(a, ast.Compare) and len(a.ops) == 1 and isinstance(a.ops[0], ast.In) and isinstance(a.comparators[0], (ast.Tuple, ast.List, ast.Set)):
                    S = {_const_path(e) for e in a.comparators[0].elts}
                    ok_a = None not in S and D <= S
                    if not ok_a:
                        why = f"{f.loc(a)}: the exemption covers {sorted(x for x in S if x)} only; the inspector dispatches on {sorted(D)}"
                if not ok_a:
                    covered = False
            if not covered:
                continue
            for a in pcalls + others:
                lets_through += [b for b in cfg.nodes if b.kind == "branch" and b.ast is a and b.label == "F"]
        w = None
        if lets_through:
            for d_ in dispatch:
                w = w or dominated(ctx, f, d_, lets_through)
        if lets_through and w is None:
            rep.ok(rule, f.qname, desc, f.loc(dispatch[0]))
        else:
            rep.bad(rule, f.qname, desc, f.loc(dispatch[0]), ([why] if not lets_through else ["a path reaches the dispatch without the test:"] + (w or [])) + [
                    "`def shout(): return dds.load('/w/p').upper()` kept by an evaluation: the call `.upper()` is named dds/load/upper, resolved to dds.load and refused with 'Wrong number of "
                    "args: expected 1, got []'; `dds.load('/w/p').startswith('/zzz')` makes the analysis ask the store for '/zzz' (demo: /verif/findings/F48_method_on_loaded_value.py)"],
                    "method-on-result", what="a method called on the value of a dds call is analysed as that dds call")
    return n


def _stack_push(e: ast.AST) -> Optional[ast.Name]:
    """`call_stack + [P]` -> P"""
    if isinstance(e, ast.BinOp) and isinstance(e.op, ast.Add):
        l, r = e.left, e.right
        def _stack(x: ast.AST) -> bool:
            # the stack: a local / parameter, or the attribute that holds it (`self._call_stack`)
            return isinstance(x, ast.Name) or (isinstance(x, ast.Attribute) and isinstance(x.value, ast.Name) and x.value.id in ("self", "cls"))
        if _stack(l) and isinstance(r, ast.List) and len(r.elts) == 1 and isinstance(r.elts[0], ast.Name):
            return r.elts[0]
        if _stack(r) and isinstance(l, ast.List) and len(l.elts) == 1 and isinstance(l.elts[0], ast.Name):
            return l.elts[0]
    return None


def visitors_hand_over_stack(ctx: Ctx, rule: str) -> int:
    """Every call that a visitor makes to an inspector's `inspect_call` hands over the call stack the visitor was given (the attribute its constructor binds to the
    parameter of type List[CanonicalPath]): with an empty stack at a reference edge (`map(g, xs)`), a cycle that goes through it is never closed by the first pass."""
    from ..flow import bind_arg
    rep = ctx.report
    prog = ctx.prog
    n = 0
    for q in ("dds.introspect.IntroVisitor", "dds._introspect_indirect.IntroVisitorIndirect"):
        k = prog.cls(q)
        if k is None or "__init__" not in k.methods:
            continue
        init = k.methods["__init__"]
        ia = init.node.args
        stack_params = [x.arg for x in ia.posonlyargs + ia.args + ia.kwonlyargs if x.annotation is not None and "CanonicalPath" in unparse(x.annotation, 100) and "List" in unparse(x.annotation, 100)]
        stack_attrs = set()
        for st in init.own_nodes():
            if isinstance(st, (ast.Assign, ast.AnnAssign)) and isinstance(st.value, ast.Name) and st.value.id in stack_params:
                t = st.targets[0] if isinstance(st, ast.Assign) else st.target
                if isinstance(t, ast.Attribute):
                    stack_attrs.add(t.attr)
        if not stack_attrs:
            continue
        for m in k.methods.values():
            for c in m.own_nodes():
                if not (isinstance(c, ast.Call) and isinstance(c.func, ast.Attribute) and c.func.attr == "inspect_call"):
                    continue
                fs, _ = prog.callees(m, c, ctx._types)
                for g in fs:
                    ga = g.node.args
                    cs = [x.arg for x in ga.posonlyargs + ga.args + ga.kwonlyargs if x.annotation is not None and "CanonicalPath" in unparse(x.annotation, 100) and "List" in unparse(x.annotation, 100)]
                    if not cs:
                        continue
                    vals = bind_arg(g, c, cs[0])
                    n += 1
                    desc = f"{k.name}.{m.name}: the inspector is handed the visitor's call stack"
                    if vals and all(any(isinstance(y, ast.Attribute) and y.attr in stack_attrs for y in ast.walk(v)) for v in vals):
                        rep.ok(rule, m.qname, desc, m.loc(c))
                    else:
                        rep.bad(rule, m.qname, desc, m.loc(c), [f"{m.loc(c)}: `{cs[0]}` is given `{unparse(vals[0], 40) if vals else 'nothing'}` instead of self.{sorted(stack_attrs)[0]}",
                                "a cycle with a reference edge (`def f(n): return sum(map(g, [n]))`, `def g(n): return f(n - 1)`) is not closed by the first pass: RecursionError instead of "
                                "the coded CIRCULAR_CALL refusal"], stmt_key(c), what="a visitor starts the inspection of a referenced function with an empty call stack")
    return n
