"""
C19 - the DBFS store honours its commit type and keeps legacy blobs readable.

R1  every documented commit type (read from the set_store docstring) decodes, through set_store, to a DBFSStore built
    with a distinct enumeration member; no commit type means 'full'.
R2  legacy codec aliases: the alias 'x.<kind>' points to the codec class whose own reference ends with '<kind>'.
R3  effects of sync_paths under the data directory per commit type: none / redirect record only / copy then record;
    the documented names map to the members with these effect classes.
R4  the blob's metadata is the commit marker (has_blob = metadata readable; metadata written last);
    the redirect record (which is also the up-to-date marker of a path) is written after the copy;
    the way a blob is read is decided by the class of the codec resolved from the reference.
"""
from __future__ import annotations

import ast
import re
from typing import Any, Dict, List, Optional, Tuple

from ..absint import Evaluator, Const, Sym, Obj, EnumMember, TOP, NOT_HANDLED
from ..fsmodel import StoreModel, Effect, show, mentions_sym, mentions_attr
from ..flow import flow_of
from ..model import unparse, AnchorError, const_str, Func, f_cls, stmt_key
from .common import Ctx, ancestors
from .c17 import ref_literal, _class_of_expr, check_reader

PROP = "C19"
DBFS = "dds.codecs.databricks.DBFSStore"
CT = "dds.codecs.databricks.CommitType"


def documented_commit_types(ctx: Ctx) -> List[str]:
    f = ctx.prog.func("dds.set_store")
    if f is None:
        raise AnchorError("dds.set_store (public API) not found")
    doc = ast.get_docstring(f.node) or ""
    m = re.search(r"commit_type:\s*\(([^)]*)\)", doc)
    if not m:
        raise AnchorError("the set_store docstring has no 'commit_type: (...)' paragraph")
    names = re.findall(r"'([a-z_]+)'", m.group(1))
    out = []
    for n in names:
        if n not in out:
            out.append(n)
    return out



def _alias_tables(ctx: Ctx, init: Func):
    """The legacy-alias tables of the DBFS store: (function, [(old reference, codec expression, node)], container node,
    the per-entry registration statement or None, statements that use the entry variables after the loop).

    Two shapes are read, in the constructor or in a module-level function it calls (two levels):
      * `for (old, codec) in [("dbfs.x", c), ...]: table[Ref(old)] = codec`
      * `aliases = {"dbfs.x": c, ...}` consumed entry by entry by a loop or a comprehension over `aliases.items()` that
        stores / builds `Ref(old): codec` (the comprehension being handed to `.update(...)`)."""
    prog = ctx.prog
    funcs: List[Func] = [init]
    for _ in range(2):
        for g in list(funcs):
            for n in g.own_nodes():
                if isinstance(n, ast.Call):
                    d = prog.dotted(g, n.func)
                    h = prog.funcs.get(d) if d else None
                    if h is not None and h.cls is None and h.module is init.module and h not in funcs:
                        funcs.append(h)
    out = []
    for g in funcs:
        for n in g.own_nodes():
            if isinstance(n, ast.For) and isinstance(n.iter, (ast.List, ast.Tuple)):
                pairs = [(const_str(e.elts[0]), e.elts[1], e) for e in n.iter.elts
                         if isinstance(e, ast.Tuple) and len(e.elts) == 2 and const_str(e.elts[0]) is not None]
                if not pairs:
                    continue
                tv = {x.id for x in ast.walk(n.target) if isinstance(x, ast.Name)}
                inside = [st for st in ast.walk(ast.Module(body=n.body, type_ignores=[])) if isinstance(st, ast.Assign) and any(isinstance(t, ast.Subscript) for t in st.targets)
                          and tv <= {x.id for x in ast.walk(st) if isinstance(x, ast.Name)}]
                after = [st for st in g.own_nodes() if isinstance(st, ast.Assign) and any(isinstance(t, ast.Subscript) for t in st.targets)
                         and tv & {x.id for x in ast.walk(st) if isinstance(x, ast.Name)} and st.lineno > n.lineno]
                out.append((g, pairs, n, inside[0] if inside else None, after))
            elif isinstance(n, ast.Assign) and isinstance(n.value, ast.Dict) and len(n.targets) == 1 and isinstance(n.targets[0], ast.Name) and n.value.keys:
                ks = [const_str(k) if k is not None else None for k in n.value.keys]
                if any(k is None for k in ks) or not all(isinstance(v, (ast.Name, ast.Call)) for v in n.value.values):
                    continue
                fl = flow_of(prog, g)
                if not any(_class_of_expr(ctx, g, fl, v) is not None for v in n.value.values):
                    continue
                pairs = [(k, v, v) for k, v in zip(ks, n.value.values)]
                name = n.targets[0].id
                registered = None
                for m in g.own_nodes():
                    gens = []
                    if isinstance(m, ast.DictComp):
                        gens = [(m.generators[0], [m.key, m.value], m)] if len(m.generators) == 1 else []
                    elif isinstance(m, ast.For):
                        stores = [st for st in ast.walk(ast.Module(body=m.body, type_ignores=[])) if isinstance(st, ast.Assign) and any(isinstance(t, ast.Subscript) for t in st.targets)]
                        if stores:
                            t0 = [t for t in stores[0].targets if isinstance(t, ast.Subscript)][0]
                            gens = [(m, [t0.slice, stores[0].value], stores[0])]
                        else:
                            # the store is made by a thin setter of the registry (`registry._add_alias(ref, codec)`: `self._protocols[ref] = codec`)
                            from ..flow import bind_arg as _ba
                            for cst in [x for x in ast.walk(ast.Module(body=m.body, type_ignores=[])) if isinstance(x, ast.Call)]:
                                hs_, _ = prog.callees(g, cst, ctx._types)
                                for h_ in hs_:
                                    if not h_.module.name.startswith("dds"):
                                        continue
                                    sets_ = [st for st in h_.own_nodes() if isinstance(st, ast.Assign) and len(st.targets) == 1 and isinstance(st.targets[0], ast.Subscript)
                                             and isinstance(st.targets[0].slice, ast.Name) and isinstance(st.value, ast.Name) and st.targets[0].slice.id in h_.params and st.value.id in h_.params]
                                    if len(sets_) == 1:
                                        ka = _ba(h_, cst, sets_[0].targets[0].slice.id)
                                        va = _ba(h_, cst, sets_[0].value.id)
                                        if len(ka) == 1 and len(va) == 1:
                                            gens = [(m, [ka[0], va[0]], cst)]
                    for (gen, (kx, vx), where) in gens:
                        it = gen.iter
                        if not (isinstance(it, ast.Call) and isinstance(it.func, ast.Attribute) and it.func.attr == "items"
                                and isinstance(it.func.value, ast.Name) and it.func.value.id == name):
                            continue
                        tg = gen.target
                        if not (isinstance(tg, (ast.Tuple, ast.List)) and len(tg.elts) == 2 and all(isinstance(x, ast.Name) for x in tg.elts)):
                            continue
                        kv, vv = tg.elts[0].id, tg.elts[1].id
                        if kv in {x.id for x in ast.walk(kx) if isinstance(x, ast.Name)} and isinstance(vx, ast.Name) and vx.id == vv:
                            registered = where
                out.append((g, pairs, n, registered, []))
    return out

def _scope_of_test(prog, test: ast.AST, *cands):
    """the function whose body holds this test node (the conditions of an effect that happens inside a helper / a held object belong to the caller)"""
    for g in cands:
        if g is None:
            continue
        try:
            if any(n is test for n in g.own_nodes()):
                return g
        except Exception:
            continue
    return cands[0] if cands else None


def _ct_expand(prog, f_scope, test: ast.AST, depth: int = 0) -> ast.AST:
    """`test` with the boolean locals that hold a comparison of the commit type replaced by that comparison (`full = self._commit_type == CommitType.FULL`
    ... `if full:`): the commit-type tests are recognised whether they are written in the `if` or held in a local first"""
    import copy
    from ..flow import flow_of
    if f_scope is None or depth > 2:
        return test
    fl = flow_of(prog, f_scope)
    repl = {}
    for n in ast.walk(test):
        if isinstance(n, ast.Name) and isinstance(n.ctx, ast.Load):
            try:
                ds = fl.defs_of_use(n)
            except Exception:
                continue
            if len(ds) == 1 and ds[0].value is not None and "_commit_type" in ast.unparse(ds[0].value) and not any(
                    isinstance(x, ast.Call) for x in ast.walk(ds[0].value)):
                repl[id(n)] = ds[0].value
            elif len(ds) == 1 and isinstance(ds[0].value, (ast.BoolOp, ast.UnaryOp, ast.Compare, ast.Name)) and depth < 2 and not any(
                    isinstance(x, ast.Call) for x in ast.walk(ds[0].value)):
                inner = _ct_expand(prog, f_scope, ds[0].value, depth + 1)
                if "_commit_type" in ast.unparse(inner):
                    repl[id(n)] = inner
    if not repl:
        return test

    class T(ast.NodeTransformer):
        def visit_Name(self, node):
            return repl.get(id(node), node)

    # (transform a shallow copy of the spine only: the leaves keep their identity, the replaced names are swapped)
    def rebuild(n):
        if id(n) in repl:
            return repl[id(n)]
        if isinstance(n, ast.BoolOp):
            return ast.BoolOp(op=n.op, values=[rebuild(v) for v in n.values])
        if isinstance(n, ast.UnaryOp):
            return ast.UnaryOp(op=n.op, operand=rebuild(n.operand))
        return n
    return rebuild(test)


def mentions_ct(prog, f_scope, test: ast.AST) -> bool:
    return "_commit_type" in ast.unparse(_ct_expand(prog, f_scope, test))


def cond_under(ev: Evaluator, f_scope, test: ast.AST, member: EnumMember) -> Optional[bool]:
    """truth of a branch condition when self._commit_type is `member` (None when it does not depend on it / is unknown).  Three-valued over
    and / or / not: the parts that do not mention the commit type are unknown, `full and not copied` is False under a non-full member and
    unknown under the full one"""
    from ..absint import Env
    test = _ct_expand(ev.prog, f_scope, test)

    def k(t: ast.AST) -> Optional[bool]:
        if isinstance(t, ast.BoolOp):
            vs = [k(v) for v in t.values]
            if isinstance(t.op, ast.And):
                return False if any(v is False for v in vs) else (True if all(v is True for v in vs) else None)
            return True if any(v is True for v in vs) else (False if all(v is False for v in vs) else None)
        if isinstance(t, ast.UnaryOp) and isinstance(t.op, ast.Not):
            v = k(t.operand)
            return None if v is None else (not v)
        if "_commit_type" not in ast.unparse(t):
            return None
        env = Env()
        env.vars["self"] = Obj("self", [], {"_commit_type": member})
        try:
            return ev.truth(ev.eval(t, env, f_scope))
        except Exception:
            return None
    return k(test)


def full_copy_vouched(ctx: Ctx, rule: str, ev: Evaluator, enum, full_name: str) -> int:
    """Under the full commit an iteration of sync_paths ends without copying the data only when something vouches for the copy that is there: a
    field of the redirect record other than the key, or a look at the copy's location.  The redirect record alone (`recorded key == key`)
    does not: a links-only commit writes the same record without any copy.

    Decided on the CFG of sync_paths: there is no path from the loop head to the next iteration that avoids every copy and every branch
    outcome which - as a propositional formula over {commit type is full, a voucher holds, <other tests>} - excludes `full and not vouched`."""
    import itertools
    from ..cfg import cfg_of
    from ..flow import flow_of
    from .common import witness_path
    rep = ctx.report
    prog = ctx.prog
    cls = prog.classes.get(DBFS)
    if cls is None or "sync_paths" not in cls.methods:
        raise AnchorError(f"{DBFS}.sync_paths not found")
    f = cls.methods["sync_paths"]
    cfg = cfg_of(f)
    fl = flow_of(prog, f)
    m = StoreModel(prog, cls, ctx._types)
    effs = m.effects_of("sync_paths")
    data_attrs = [a for a, d in m.attr_defs.items() if d[:2] == ("ctor", 1)]
    copy_asts = [e.root_node for e in effs if e.kind in ("CP", "WRITE_INPLACE") and any(mentions_attr(e.term, a) for a in data_attrs) and e.root_func is f]
    full_mem = EnumMember(enum, full_name)
    loops = [x for x in f.own_nodes() if isinstance(x, ast.For) and isinstance(x.target, (ast.Tuple, ast.List)) and len(x.target.elts) == 2
             and isinstance(x.target.elts[1], ast.Name)]
    n = 0
    for loop in loops:
        keyv = loop.target.elts[1].id

        # the record field(s) that hold the key: constants subscripted on the way to a value compared with the key
        key_fields = set()
        for c_ in f.own_nodes():
            if isinstance(c_, ast.Compare) and len(c_.ops) == 1 and isinstance(c_.ops[0], (ast.Eq, ast.NotEq)):
                sides = [c_.left, c_.comparators[0]]
                if any(isinstance(x, ast.Name) and x.id == keyv for x in sides):
                    for x in sides:
                        if isinstance(x, ast.Name) and x.id != keyv:
                            for d in fl.root_defs(x):
                                if d.value is not None:
                                    for y in ast.walk(d.value):
                                        if isinstance(y, ast.Subscript) and isinstance(y.slice, ast.Constant) and isinstance(y.slice.value, str):
                                            key_fields.add(y.slice.value)
                                        if isinstance(y, ast.Call) and isinstance(y.func, ast.Attribute) and y.func.attr == "get" and y.args and isinstance(y.args[0], ast.Constant):
                                            key_fields.add(y.args[0].value)

        def is_voucher(e: ast.AST) -> bool:
            """reads a record field other than the key, or looks at a location of the data directory (head / ls / exists of the copy)"""
            for y in ast.walk(e):
                if isinstance(y, ast.Subscript) and isinstance(y.slice, ast.Constant) and isinstance(y.slice.value, str) and y.slice.value not in key_fields:
                    return True
                if isinstance(y, ast.Call) and isinstance(y.func, ast.Attribute) and y.func.attr == "get" and y.args and isinstance(y.args[0], ast.Constant) \
                        and isinstance(y.args[0].value, str) and y.args[0].value not in key_fields:
                    return True
            return False

        atoms: Dict[str, int] = {}

        def form(e: ast.AST, depth: int = 0):
            if isinstance(e, ast.BoolOp):
                return ("and" if isinstance(e.op, ast.And) else "or", [form(v, depth) for v in e.values])
            if isinstance(e, ast.UnaryOp) and isinstance(e.op, ast.Not):
                return ("not", form(e.operand, depth))
            if isinstance(e, ast.Call) and isinstance(e.func, ast.Name) and e.func.id == "bool" and len(e.args) == 1:
                return form(e.args[0], depth)
            if "_commit_type" in ast.unparse(e):
                t = cond_under(ev, f, e, full_mem)
                if t is not None:
                    # a pure commit-type test: true under full -> the atom `full`; false under full -> its negation is implied by full
                    return ("atom", "full") if t else ("not", ("atom", "full"))
            if isinstance(e, ast.Name) and depth < 3:
                try:
                    ds = fl.defs_of_use(e)
                except Exception:
                    ds = []
                vals = [d.value for d in ds if d.value is not None]
                if ds and len(vals) == len(ds):
                    if len(vals) == 1 and isinstance(vals[0], (ast.BoolOp, ast.UnaryOp, ast.Compare, ast.Name)) or (
                            len(vals) == 1 and isinstance(vals[0], ast.Call) and isinstance(vals[0].func, ast.Name) and vals[0].func.id == "bool"):
                        return form(vals[0], depth + 1)
                    # phi of constants and voucher reads: `copied = False` on one arm, `copied = bool(rec.get('copied'))` on the other (possibly through a local)
                    def vouch_val(v: ast.AST, d_: int = 0) -> bool:
                        if is_voucher(v):
                            return True
                        if isinstance(v, ast.Name) and d_ < 3:
                            try:
                                ds_ = fl.defs_of_use(v)
                            except Exception:
                                return False
                            vs_ = [x.value for x in ds_ if x.value is not None]
                            return bool(vs_) and len(vs_) == len(ds_) and all(isinstance(x, ast.Constant) and x.value in (False, None) or vouch_val(x, d_ + 1) for x in vs_) \
                                and any(vouch_val(x, d_ + 1) for x in vs_)
                        return False
                    if all(isinstance(v, ast.Constant) and v.value in (False, None) or vouch_val(v) for v in vals) and any(vouch_val(v) for v in vals):
                        return ("atom", "vouched")
            if is_voucher(e):
                return ("atom", "vouched")
            txt = ast.unparse(e)
            neg = False
            if isinstance(e, ast.Compare) and len(e.ops) == 1:
                if isinstance(e.ops[0], ast.IsNot):
                    txt, neg = ast.unparse(ast.Compare(left=e.left, ops=[ast.Is()], comparators=e.comparators)), True
                if isinstance(e.ops[0], ast.NotEq):
                    txt, neg = ast.unparse(ast.Compare(left=e.left, ops=[ast.Eq()], comparators=e.comparators)), True
            atoms.setdefault(txt, len(atoms))
            return ("not", ("atom", txt)) if neg else ("atom", txt)

        def val(fm, asg) -> bool:
            k = fm[0]
            if k == "atom":
                return asg[fm[1]]
            if k == "not":
                return not val(fm[1], asg)
            if k == "and":
                return all(val(x, asg) for x in fm[1])
            return any(val(x, asg) for x in fm[1])

        def excludes(b) -> bool:
            """the outcome `b` of its test cannot hold together with `full and not vouched`"""
            atoms.clear()
            fm = form(_ct_expand(prog, f, b.ast))
            names = [a for a in atoms]
            if len(names) > 10:
                return False
            for bits in itertools.product([False, True], repeat=len(names)):
                asg = dict(zip(names, bits))
                asg["full"], asg["vouched"] = True, False
                if val(fm, asg) == (b.label == "T"):
                    return False
            return True

        # the voucher that this iteration WRITES says "copied" only when this commit is a full one (the copy it vouches for is the copy of the key being recorded)
        for d_ in f.own_nodes():
            if isinstance(d_, ast.Dict) and any(isinstance(k_, ast.Constant) and k_.value in key_fields for k_ in d_.keys):
                for k_, v_ in zip(d_.keys, d_.values):
                    if isinstance(k_, ast.Constant) and isinstance(k_.value, str) and k_.value not in key_fields:
                        n += 1
                        atoms.clear()
                        fm_ = form(_ct_expand(prog, f, v_))
                        names_ = [a_ for a_ in atoms]
                        can_true = False
                        for bits in itertools.product([False, True], repeat=len(names_)):
                            asg = dict(zip(names_, bits))
                            asg["full"], asg["vouched"] = False, True
                            try:
                                if val(fm_, asg):
                                    can_true = True
                            except KeyError:
                                can_true = True
                        d3 = f"the record field `{k_.value}` written by sync_paths is true only when this commit made the copy"
                        if can_true:
                            rep.bad(rule, f.qname, d3, f.loc(d_), [f"{f.loc(d_)}: `{k_.value}: {unparse(v_, 50)}` can be true under a commit that is not full (e.g. inherited from the record being replaced)",
                                    "full (content 1) -> links_only (content 2) -> full (content 2) on one path: the links-only commit writes the new key with the old record's `copied`, the last "
                                    "full commit finds the record current and vouched and makes no copy: the data directory still holds content 1"], "voucher-inherited",
                                    what="a redirect record vouches for a copy that this commit did not make")
                        else:
                            rep.ok(rule, f.qname, d3, f.loc(d_))
        avoid = [g for c in copy_asts for g in cfg.nodes_of(c)]
        avoid += [b for b in cfg.nodes if b.kind == "branch" and b.ast is not None and b.ast is not loop and not isinstance(b.ast, (ast.For, ast.While)) and excludes(b)]
        tb = [x for x in cfg.nodes if x.kind == "branch" and x.ast is loop and x.label == "T"]
        heads = [x for x in cfg.nodes if x.kind == "loop" and x.ast is loop]
        desc = "under the full commit an iteration of DBFS sync_paths ends without a copy only when the record (or the data directory) vouches for the copy"
        if not copy_asts or not tb or not heads:
            rep.unknown(rule, f.qname, "copy / loop of DBFS sync_paths not found", f.loc(loop))
            continue
        n += 1
        pth = cfg.find_path(tb, heads + [cfg.exit], avoid=avoid, include_src=False)
        from .storerules import opaque_decision_on_path as _odp
        keyv_ = loop.target.elts[1].id if isinstance(loop.target, (ast.Tuple, ast.List)) and len(loop.target.elts) == 2 and isinstance(loop.target.elts[1], ast.Name) else ""
        opaque = _odp(ctx, f, pth, {keyv_}) if pth is not None and keyv_ else None
        if pth is None:
            rep.ok(rule, f.qname, desc, f.loc(loop))
        elif opaque is not None:
            rep.unknown(rule, f.qname, f"the iteration is decided by `{opaque}`, a method of a local object that is given the key: what vouches for the copy is not visible to this rule", f.loc(loop))
        else:
            rep.bad(rule, f.qname, desc, f.loc(loop), ["an iteration that makes no copy although the commit type is full and nothing vouches for an existing copy:"]
                    + witness_path(cfg, f, pth)[-12:] + ["a store opened with commit_type='links_only' writes the redirect record of '/w/a'; a later store with commit_type='full' keeps "
                    "the same result, finds the record current and never copies: 'full' leaves a record and NO copy under the data directory"],
                    "full-without-copy", what="under the full commit a path whose redirect record is current gets no data copy (record written by a links-only commit)")
    return n


def puts_overwrite(ctx: Ctx, rule: str) -> int:
    """every `dbutils.fs.put` of the DBFS store module passes overwrite=True"""
    rep = ctx.report
    prog = ctx.prog
    cls = prog.classes.get(DBFS)
    if cls is None:
        raise AnchorError(f"{DBFS} not found")
    n13 = 0
    for g in [x for x in prog.funcs.values() if x.module is cls.module]:
        for c_ in g.own_nodes():
            if isinstance(c_, ast.Call) and isinstance(c_.func, ast.Attribute) and c_.func.attr == "put" and ".fs" in unparse(c_.func, 100):
                n13 += 1
                ow = [k.value for k in c_.keywords if k.arg == "overwrite"] + ([c_.args[2]] if len(c_.args) > 2 else [])
                desc = f"`{unparse(c_, 60)}` replaces an existing file"
                if ow and isinstance(ow[0], ast.Constant) and ow[0].value is True:
                    rep.ok(rule, g.qname, desc, g.loc(c_))
                else:
                    rep.bad(rule, g.qname, desc, g.loc(c_), [f"{g.loc(c_)}: overwrite is {unparse(ow[0]) if ow else 'not given (default False)'}",
                            "the redirect record of a path that is already committed cannot be replaced: keeping it again with changed code raises FileAlreadyExistsException; under "
                            "'full' the data copy is already the new blob while the record still names the old one"], stmt_key(c_), what="dbutils.fs.put without overwrite: an existing record cannot be replaced")
    return n13


def run(ctx: Ctx) -> None:
    rep = ctx.report
    prog = ctx.prog
    ctx.types
    cls = prog.classes.get(DBFS)
    if cls is None:
        raise AnchorError(f"{DBFS} not found")
    rep.rule("C19.R1", "abstract evaluation of set_store('dbfs', commit_type=<each documented literal | None>)")
    rep.rule("C19.R2", "suffix of each legacy alias == suffix of ref() of the codec class it points to")
    rep.rule("C19.R3", "per commit type: reachable data-directory effects of sync_paths (branch conditions decided abstractly)")
    rep.rule("C19.R4", "metadata last / presence = metadata; redirect record after the copy; read mode decided by codec class")
    ev = Evaluator(prog)
    enum = ev.enum_class(CT)
    if enum is None:
        raise AnchorError(f"{CT} is not an enumeration")
    m = StoreModel(prog, cls, ctx._types)

    # ---- R3 effect classes per member ---------------------------------------------------------
    sync = cls.methods["sync_paths"]
    effs = m.effects_of("sync_paths")
    data_attrs = [a for a, d in m.attr_defs.items() if d[:2] == ("ctor", 1)]
    classes: Dict[str, str] = {}
    detail: Dict[str, List[str]] = {}
    for name in enum.members:
        mem = EnumMember(enum, name)
        live: List[Effect] = []
        undecided = False
        for e in effs:
            alive = True
            for (test, pol) in e.conds:
                sc_ = _scope_of_test(prog, test, e.func, e.root_func)
                if not mentions_ct(prog, sc_, test):
                    continue
                t = cond_under(ev, sc_, test, mem)
                if t is None:
                    # undecided only when the test is about the commit type alone; mixed with other facts it does not exclude the effect
                    xt = _ct_expand(prog, sc_, test)
                    if not isinstance(xt, (ast.BoolOp, ast.UnaryOp)):
                        undecided = True
                elif t != pol:
                    alive = False
            if alive and e.kind in ("PUT", "CP", "RM", "WRITE_INPLACE") and any(mentions_attr(e.term, a) for a in data_attrs):
                live.append(e)
        kinds = [e.kind for e in live]
        detail[name] = [f"{e.where()}: {e!r}" for e in live]
        if undecided:
            classes[name] = "undecided"
        elif not live:
            classes[name] = "nothing"
        elif set(kinds) == {"PUT"}:
            classes[name] = "record-only"
        elif "PUT" in kinds and ("CP" in kinds or "WRITE_INPLACE" in kinds):
            classes[name] = "copy+record"
        else:
            classes[name] = "other:" + ",".join(kinds)
    want = {"nothing", "record-only", "copy+record"}
    desc = "the commit types realise exactly: nothing written / redirect record only / copy plus record"
    if "undecided" in classes.values():
        rep.unknown("C19.R3", sync.qname, f"cannot decide branch conditions on the commit type: {classes}", sync.loc())
    elif set(classes.values()) == want and len(classes) == 3:
        rep.ok("C19.R3", sync.qname, desc + f" {classes}", sync.loc())
    else:
        rep.bad("C19.R3", sync.qname, desc, sync.loc(), [f"{k}: {v} {detail[k][:3]}" for k, v in classes.items()], "effect-classes",
                what="a commit type writes more or less under the data directory than its meaning")
    rep.floor("C19.R3", len(effs), 5)
    # copy before record under the full commit; record last
    full = [k for k, v in classes.items() if v == "copy+record"]
    if full:
        mem = EnumMember(enum, full[0])
        live = []
        for e in effs:
            ok = True
            for (test, pol) in e.conds:
                sc_ = _scope_of_test(prog, test, e.func, e.root_func)
                if mentions_ct(prog, sc_, test):
                    t = cond_under(ev, sc_, test, mem)
                    if t is not None and t != pol:
                        ok = False
            if ok and e.kind in ("PUT", "CP", "WRITE_INPLACE") and any(mentions_attr(e.term, a) for a in data_attrs):
                live.append(e)
        desc = "under the full commit the redirect record (the up-to-date marker of the path) is written after the data copy"
        if live and live[-1].kind == "PUT" and any(e.kind in ("CP", "WRITE_INPLACE") for e in live[:-1]):
            rep.ok("C19.R4", sync.qname, desc, live[-1].where())
        else:
            rep.bad("C19.R4", sync.qname, desc, sync.loc(), [f"order: {[repr(e) for e in live]}",
                    "a failure of the copy after the record was written leaves a record without data; every later sync sees the path as up to date and never copies"],
                    "record-order", what="the redirect record is written before the data it announces")

    # ---- R5: copy and record are paired per path -----------------------------------------------------------------
    rep.rule("C19.R5", "under the full commit the data copy and the redirect record are both driven by the path: a record is never written for a path "
                       "whose copy was dropped by a collection keyed on something else (e.g. the blob key shared by two paths)")
    from ..fsmodel import contains
    n5 = 0
    if full:
        cps = [e for e in live if e.kind in ("CP", "WRITE_INPLACE") and (any(mentions_attr(e.term, a) for a in data_attrs) or not mentions_sym(e.term, "PATH"))]
        puts = [e for e in live if e.kind == "PUT"]

        def rekeyed(t: Any) -> Optional[Any]:
            """a mapping built from (A, B) pairs where B depends on the path and the key A does not: paths that agree on A collapse"""
            found: List[Any] = []

            def pred(x: Any) -> bool:
                if isinstance(x, tuple) and x and x[0] == "call" and len(x) >= 3 and isinstance(x[1], str) and x[1].split(".")[-1] in ("OrderedDict", "dict"):
                    c = x[2]
                    if isinstance(c, tuple) and c and c[0] == "comp" and isinstance(c[1], tuple) and c[1] and c[1][0] == "tuple" and len(c[1]) >= 3:
                        a, b = c[1][1], c[1][2]
                        if mentions_sym(b, "PATH") and not mentions_sym(a, "PATH"):
                            found.append(x)
                            return True
                return False

            contains(t, pred)
            return found[0] if found else None

        for e in cps:
            if mentions_sym(e.term, "PATH") and rekeyed(e.term) is None:
                n5 += 1
                rep.ok("C19.R5", sync.qname, f"the copy destination {show(e.term)[:80]} is a function of the path whose record is written", e.where())
                continue
            rk = rekeyed(e.term)
            if rk is not None:
                n5 += 1
                rep.bad("C19.R5", sync.qname, "the copies are driven by the paths (one copy per path whose record is written)", e.where(),
                        [f"{e.where()}: copy destination comes from a mapping whose key does not determine the path: {show(rk)[:160]}",
                         "two kept paths with the same content share one blob key: the mapping holds one of them, the other path gets its record but no copy "
                         "('full' promises a byte-identical copy of each kept result)"],
                        "copy-rekeyed", what="under the full commit a path can get its redirect record without its data copy")
            else:
                n5 += 1
                rep.info("C19.R5", sync.qname, f"copy destination {show(e.term)[:80]} is not expressed in terms of the path (not judged)", e.where())
        if not any(mentions_sym(p_.term, "PATH") for p_ in puts) and puts:
            rep.info("C19.R5", sync.qname, "record location is not expressed in terms of the path (not judged)", puts[0].where())
    rep.floor("C19.R5", n5, 1)

    # ---- R8: under the full commit a record is never (re)written without the copy ---------------------------------------
    rep.rule("C19.R8", "in sync_paths every path to the write of a redirect record passes a data copy (or the outcome 'commit type is not full'): no "
                       "shortcut may leave the previous copy in place when the key of the path has changed")
    from ..cfg import cfg_of
    from .common import dominated, done_nodes
    scfg = cfg_of(sync)
    copy_nodes = [e.root_node for e in effs if e.kind in ("CP", "WRITE_INPLACE") and any(mentions_attr(e.term, a) for a in data_attrs) and e.root_func is sync]
    put_nodes = [e.root_node for e in effs if e.kind == "PUT" and any(mentions_attr(e.term, a) for a in data_attrs) and e.root_func is sync]
    doms = [d for c in copy_nodes for d in done_nodes(scfg, c)]
    for b in scfg.nodes:
        if b.kind == "branch" and b.ast is not None and full and mentions_ct(prog, sync, b.ast):
            t = cond_under(ev, sync, b.ast, EnumMember(enum, full[0]))
            if t is not None and ((b.label == "T") != t):
                doms.append(b)  # an outcome that excludes the full commit
    n8 = 0
    seen8 = set()
    for pn in put_nodes:
        if id(pn) in seen8:
            continue
        seen8.add(id(pn))
        n8 += 1
        desc = "the redirect record is written only after the data was copied (full commit)"
        w = dominated(ctx, sync, pn, doms) if doms else ["no copy effect found in sync_paths"]
        if w is None:
            rep.ok("C19.R8", sync.qname, desc, sync.loc(pn))
        else:
            rep.bad("C19.R8", sync.qname, desc, sync.loc(pn), ["path to the record write that performs no copy although the commit type is 'full':"] + w + [
                "re-keeping a path with a new result: the record and load follow the new blob, the file under the data directory keeps the old content "
                "('full' promises a byte-identical copy)"], "record-without-copy", what="under the full commit the data copy can be skipped while the record is rewritten")
    rep.floor("C19.R8", n8, 1)

    # ---- R10 / R11 -------------------------------------------------------------------------------------------------
    from .common import find_api_functions
    from .c04 import commit_rules
    from .storerules import every_path_processed
    rep.rule("C19.R10", "as C04.R1: the complete path map is committed on every evaluation, also when the blob is already stored (kept earlier under commit "
                        "type 'none', or the data directory was emptied)")
    top_, _n_ = find_api_functions(ctx)
    commit_rules(ctx, top_, "C19.R10")
    rep.rule("C19.R11", "every path of a commit batch gets its record / copy (no early exit from the loop of sync_paths)")
    n11 = every_path_processed(ctx, "C19.R11")
    rep.floor("C19.R11", n11, 2)
    from .storerules import every_path_answered
    rep.rule("C19.R14", "load works whenever the record exists: fetch_paths answers every requested path (the result is filed inside the loop over the paths)")
    n14 = every_path_answered(ctx, "C19.R14")
    rep.floor("C19.R14", n14, 1)
    from .c09 import load_uses_normalised_path
    rep.rule("C19.R16", "as C09.R12: load works whenever the record exists, whatever the spelling of the path (str, DDSPath, pathlib.Path): the answer of fetch_paths is read back under "
                        "the normalised path it was asked for")
    n16 = load_uses_normalised_path(ctx, "C19.R16")
    rep.floor("C19.R16", n16, 1)
    from .c17 import codec_duals
    rep.rule("C19.R17", "as C17.R4/R5: keep returns correct values under all commit types - every codec (the string codec also decodes the legacy reference dbfs.string) reads back what it wrote")
    codec_duals(ctx, "C19.R17", "C19.R17")
    rep.rule("C19.R18", "the metadata is the commit marker: has_blob looks at the metadata only - it neither copies nor decodes the blob (None is a legitimate value; a path whose blob is "
                        "reported absent is left out of the commit)")
    hb_effs = m.effects_of("has_blob")
    hb = cls.methods["has_blob"]
    heavy = [e for e in hb_effs if e.kind not in ("HEAD", "PROBE")]
    if heavy:
        rep.bad("C19.R18", hb.qname, "DBFS has_blob reads the metadata only", hb.loc(), [f"{e.where()}: {e!r}" for e in heavy[:4]] + [
            "a kept function that returns None: fetch_blob answers None for it, has_blob reports it absent, its path is left out of sync_paths: under 'full' neither copy nor record is written "
            "and dds.load of the path fails"], "dbfs-presence-by-value", what="DBFS has_blob decodes the blob: a stored None is reported absent")
    else:
        rep.ok("C19.R18", hb.qname, f"DBFS has_blob reads the metadata only ({[repr(e) for e in hb_effs]})", hb.loc())
    rep.floor("C19.R18", 1 if hb_effs else 0, 1)
    rep.rule("C19.R19", "the metadata is the commit marker: a marker that cannot be parsed (cut short by an interrupted put) means 'absent' - has_blob answers False and the blob is "
                        "written again - it never makes has_blob raise: every json.loads reachable from has_blob sits in a try whose handler answers")
    hbm = cls.methods["has_blob"]
    # (sync_paths too: a redirect record cut short must be written again by the next keep of the path, not make every later keep raise)
    reach19 = [hbm, cls.methods["sync_paths"]]
    for _ in range(2):
        for g_ in list(reach19):
            for c_ in g_.own_nodes():
                if isinstance(c_, ast.Call):
                    fs_, _d = prog.callees(g_, c_, ctx._types)
                    for h_ in fs_:
                        if f_cls(h_) is cls and h_ not in reach19 and h_.name != "fetch_blob":
                            reach19.append(h_)
    n19 = 0
    for g_ in reach19:
        for c_ in g_.own_nodes():
            if isinstance(c_, ast.Call) and unparse(c_.func) in ("json.loads", "loads", "json.load"):
                if g_.name == "sync_paths":
                    # in sync_paths: the parse of the REDIRECT record (the text read, under a tolerant try, from the redirection location); the marker of a blob
                    # that is being committed was already parsed by has_blob
                    a0_ = c_.args[0] if c_.args else None
                    if not (isinstance(a0_, ast.Name) and any(isinstance(d_.stmt, ast.AST) and any(isinstance(t_, ast.Try) for t_ in ancestors(g_.module, d_.stmt))
                                                              for d_ in flow_of(prog, g_).defs_of_use(a0_) if d_.stmt is not None)):
                        continue
                n19 += 1
                prot = False
                prev_ = c_
                for a_ in ancestors(g_.module, c_):
                    if isinstance(a_, ast.Try) and any(prev_ is s_ or any(prev_ is y for y in ast.walk(s_)) for s_ in a_.body) and any(
                            h.type is None or unparse(h.type).split(".")[-1] in ("Exception", "BaseException", "ValueError", "JSONDecodeError") for h in a_.handlers):
                        prot = True
                    if isinstance(a_, (ast.FunctionDef, ast.AsyncFunctionDef)):
                        break
                d19 = f"{g_.name}: `{unparse(c_, 40)}` of the marker is inside a try that answers 'absent'"
                if prot:
                    rep.ok("C19.R19", g_.qname, d19, g_.loc(c_))
                else:
                    rep.bad("C19.R19", g_.qname, d19, g_.loc(c_), [f"{g_.loc(c_)}: a marker / record that is empty or cut short raises JSONDecodeError out of {g_.name}",
                            "every later keep of that result fails for good (also the evaluations that contain it); with the parse inside the try the store answers 'absent' and heals by recomputing"],
                            stmt_key(c_), what="a torn blob marker makes has_blob raise instead of answering False")
    rep.floor("C19.R19", n19, 2)
    rep.rule("C19.R15", "'full' leaves a copy of each kept result: sync_paths skips the copy of a path only when the commit type is not full, or when the redirect record "
                        "(a field other than the key) or the data directory vouches for the copy - the record alone is also written by links-only commits")
    n15 = full_copy_vouched(ctx, "C19.R15", ev, enum, full[0]) if full else 0
    rep.floor("C19.R15", n15, 1)
    rep.rule("C19.R12", "as C17.R11: the types a codec announces are the types its serialize_into accepts (a kept bytearray is stored by the bytes codec under every commit type)")
    from .c17 import announced_types_accepted
    n12 = announced_types_accepted(ctx, "C19.R12")
    rep.floor("C19.R12", n12, 1)
    rep.rule("C19.R13", "every `dbutils.fs.put` of the store overwrites: redirect records and metadata are re-written when a path is kept again with changed code")
    n13 = puts_overwrite(ctx, "C19.R13")
    rep.floor("C19.R13", n13, 1)

    # ---- R7: one copy location per path ----------------------------------------------------------------------------
    from .storerules import uri_join_keeps_names
    rep.rule("C19.R7", "as C08.R7: the URI join removes separator syntax only, so the copies of '/.a/b' and '/a/b' do not overwrite each other")
    n7 = uri_join_keeps_names(ctx, "C19.R7")
    rep.floor("C19.R7", n7, 1)

    # ---- R1 decode ------------------------------------------------------------------------------
    docs = documented_commit_types(ctx)
    f = prog.func("dds._api.set_store")
    if f is None:
        raise AnchorError("dds._api.set_store not found")

    def oracle(name, args, kwargs, node):
        if name.endswith("_fetch_ipython_vars"):
            return {}
        if name.endswith("DBFSURI.parse"):
            return Obj("uri", args, {})
        if name.endswith("_store") and not args:
            return Obj("current-store", [], {})
        return NOT_HANDLED

    decoded: Dict[str, Any] = {}
    bad: List[str] = []
    for lit in docs + [None]:
        e2 = Evaluator(prog, oracle=oracle)
        outs = e2.run(f, [Const("dbfs"), Const("dbfs:/i"), Const("dbfs:/d"), Obj("dbutils", [], {}), Const(lit), Const(None)])
        got = set()
        for o in outs:
            ctor = [x for x in o.events if x.callee == DBFS]
            if o.kind == "raise":
                bad.append(f"commit_type={lit!r}: raises {o.exc}")
            elif len(ctor) != 1:
                bad.append(f"commit_type={lit!r}: {len(ctor)} DBFSStore constructions")
            else:
                ct = ctor[0].args[3] if len(ctor[0].args) > 3 else ctor[0].kwargs.get("commit_type", TOP)
                got.add(ct if isinstance(ct, EnumMember) else None)
        if len(got) == 1:
            decoded[str(lit)] = next(iter(got))
    desc = f"documented commit types {docs} (and None) are accepted by set_store"
    if bad:
        rep.bad("C19.R1", f.qname, desc, f.loc(), bad, "decode", what="a documented commit type is rejected by set_store")
    elif any(v is None for v in decoded.values()) or len(decoded) != len(docs) + 1:
        rep.unknown("C19.R1", f.qname, f"commit type decoding not evaluated: {decoded}", f.loc())
    else:
        rep.ok("C19.R1", f.qname, desc, f.loc())
        mems = [decoded[d] for d in docs]
        if len(set(mems)) == len(docs):
            rep.ok("C19.R1", f.qname, f"they decode to distinct members {[repr(x) for x in mems]}", f.loc())
        else:
            rep.bad("C19.R1", f.qname, "documented commit types decode to distinct members", f.loc(), [f"{d} -> {decoded[d]!r}" for d in docs], "distinct", what="two documented commit types mean the same")
        if decoded["None"] == decoded.get("full"):
            rep.ok("C19.R1", f.qname, "no commit type decodes like 'full'", f.loc())
        else:
            rep.bad("C19.R1", f.qname, "no commit type decodes like 'full'", f.loc(), [f"None -> {decoded['None']!r}, 'full' -> {decoded.get('full')!r}"], "default", what="the default commit type is not 'full'")
        meaning = {"none": "nothing", "links_only": "record-only", "full": "copy+record"}
        wrong = [f"{d!r} -> {decoded[d]!r} whose effects are '{classes.get(decoded[d].name)}' (expected '{meaning[d]}')" for d in docs
                 if d in meaning and classes.get(decoded[d].name) != meaning[d]]
        if wrong:
            rep.bad("C19.R1", f.qname, "each documented name selects the member with the documented effects", f.loc(), wrong, "meaning", what="a documented commit type selects the wrong behaviour")
        else:
            rep.ok("C19.R1", f.qname, "each documented name selects the member with the documented effects", f.loc())
    rep.floor("C19.R1", len(docs), 3)

    # ---- R2 aliases -------------------------------------------------------------------------------
    init = cls.methods.get("__init__")
    n2 = 0
    tables = _alias_tables(ctx, init) if init is not None else []
    for (g, pairs, container, registered, after) in tables:
        fl = flow_of(prog, g)
        for (old, vexpr, elt) in pairs:
            n2 += 1
            c = _class_of_expr(ctx, g, fl, vexpr)
            new = ref_literal(ctx, c) if c is not None else None
            desc = f"legacy alias {old!r} points to the codec of the same kind"
            if new is None:
                rep.unknown("C19.R2", g.qname, f"cannot resolve the codec behind alias {old!r}", g.loc(elt))
            elif old.split(".")[-1] == new.split(".")[-1]:
                rep.ok("C19.R2", g.qname, desc + f" ({new})", g.loc(elt))
            else:
                rep.bad("C19.R2", g.qname, desc, g.loc(elt), [f"{old!r} -> {c.qname} whose reference is {new!r}"], f"alias:{old}",
                        what=f"legacy reference {old} is decoded with the {new} codec")
        # every alias of the table is registered: the store into the reference table runs once per entry and uses both components
        desc = f"each of the {len(pairs)} legacy aliases is registered (the table store runs per entry and uses both of its components)"
        if registered is not None:
            rep.ok("C19.R2", g.qname, desc, g.loc(registered))
        else:
            rep.bad("C19.R2", g.qname, desc, g.loc(container), [f"{g.loc(container)}: nothing registers each entry of the alias table"] + [
                f"{g.loc(st)}: `{unparse(st, 70)}` runs once, after the loop, with the last alias only" for st in after[:2]] + [
                "blobs whose metadata names one of the other legacy references fail with PROTOCOL_NOT_FOUND"], "alias-loop", what="only the last legacy alias is registered")
    rep.floor("C19.R2", n2, 3)

    # ---- R6: the aliases stay registered -------------------------------------------------------------------------
    rep.rule("C19.R6", "legacy aliases are item stores into the registry's reference table from outside the registry class: no registry method "
                       "other than the constructor replaces or empties that table (a later registration must not drop them)")
    reg = prog.cls("dds.codec.CodecRegistry")
    if reg is None:
        raise AnchorError("dds.codec.CodecRegistry not found")
    outside: Dict[str, List[Tuple[Func, ast.AST]]] = {}
    reg_attrs = set()
    ri = reg.methods.get("__init__")
    if ri is not None:
        for n in ri.own_nodes():
            if isinstance(n, (ast.Assign, ast.AnnAssign)):
                for t in (n.targets if isinstance(n, ast.Assign) else [n.target]):
                    if isinstance(t, ast.Attribute) and isinstance(t.value, ast.Name) and t.value.id == "self":
                        reg_attrs.add(t.attr)
    for g in prog.funcs.values():
        if g.cls is reg or (g.parent is not None and g.parent.cls is reg):
            continue
        for n in g.own_nodes():
            if isinstance(n, ast.Subscript) and isinstance(n.ctx, ast.Store) and isinstance(n.value, ast.Attribute) and n.value.attr in reg_attrs \
                    and not (isinstance(n.value.value, ast.Name) and n.value.value.id == "self" and g.cls is not None and n.value.attr not in reg_attrs):
                rc = ctx.types.receiver_class(g.module.name, n.value.value)
                if rc in (None, reg.qname):
                    outside.setdefault(n.value.attr, []).append((g, n))
    # ... or calls, from outside, of a thin setter of the registry (`def _add_alias(self, ref, codec): self._protocols[ref] = codec`)
    setters = {}
    for m_ in reg.methods.values():
        body_ = [st for st in m_.node.body if not (isinstance(st, ast.Expr) and isinstance(st.value, ast.Constant))]
        if len(body_) == 1 and isinstance(body_[0], ast.Assign) and len(body_[0].targets) == 1 and isinstance(body_[0].targets[0], ast.Subscript) \
                and isinstance(body_[0].targets[0].value, ast.Attribute) and body_[0].targets[0].value.attr in reg_attrs and isinstance(body_[0].value, ast.Name) and body_[0].value.id in m_.params:
            setters[m_.name] = body_[0].targets[0].value.attr
    for g in prog.funcs.values():
        if g.cls is reg or (g.parent is not None and g.parent.cls is reg):
            continue
        for n in g.own_nodes():
            if isinstance(n, ast.Call) and isinstance(n.func, ast.Attribute) and n.func.attr in setters:
                hs_, _ = prog.callees(g, n, ctx._types)
                if any(h_.cls is reg for h_ in hs_) or not hs_:
                    outside.setdefault(setters[n.func.attr], []).append((g, n))
    n6 = 0
    for tab, sites in sorted(outside.items()):
        n6 += 1
        desc = f"aliases stored into `{tab}` from outside ({len(sites)} site(s)) survive later registrations"
        wit = []
        for m_ in reg.methods.values():
            if m_.name == "__init__":
                continue
            for n in m_.own_nodes():
                if isinstance(n, (ast.Assign, ast.AnnAssign)):
                    for t in (n.targets if isinstance(n, ast.Assign) else [n.target]):
                        if isinstance(t, ast.Attribute) and t.attr == tab and isinstance(t.value, ast.Name) and t.value.id == "self":
                            wit.append(f"{m_.loc(n)}: `{unparse(n, 60)}` in {m_.name} replaces the whole table")
                elif isinstance(n, ast.Call) and isinstance(n.func, ast.Attribute) and n.func.attr in ("clear", "pop", "popitem") and isinstance(n.func.value, ast.Attribute) \
                        and n.func.value.attr == tab:
                    wit.append(f"{m_.loc(n)}: `{unparse(n, 60)}` in {m_.name} removes entries")
                elif isinstance(n, ast.Delete) and any(isinstance(x, ast.Attribute) and x.attr == tab for t_ in n.targets for x in ast.walk(t_)):
                    wit.append(f"{m_.loc(n)}: `{unparse(n, 60)}` in {m_.name} removes entries")
        if wit:
            g0, n0 = sites[0]
            rep.bad("C19.R6", reg.qname, desc, g0.loc(n0), [f"alias stored at {g.loc(n)}: `{unparse(prog.enclosing_stmt(g.module, n), 70)}`" for g, n in sites[:4]] + wit + [
                "after any later registration (a user codec, the construction of another store) the legacy references are gone: blobs whose metadata "
                "names them fail with PROTOCOL_NOT_FOUND"], "alias-dropped:" + tab, what="legacy codec aliases are dropped by a later codec registration")
        else:
            rep.ok("C19.R6", reg.qname, desc, sites[0][0].loc(sites[0][1]))
    rep.floor("C19.R6", n6, 1)

    # ---- R9: store_blob returns normally only when the commit marker was written ----------------------------------------
    rep.rule("C19.R9", "DBFS store_blob: every normal return passes the completed write of the blob's metadata (a failed write propagates): a record is "
                       "never published for a key that has no metadata")
    from ..cfg import cfg_of as _cfg_of
    from .common import done_nodes as _done_nodes, witness_path as _wp
    sbf = cls.methods["store_blob"]
    sb_effs = m.effects_of("store_blob")
    int_attrs_ = [a for a, d in m.attr_defs.items() if d[:2] == ("ctor", 0)]
    meta_puts = [e for e in sb_effs if e.kind == "PUT" and any(mentions_attr(e.term, a) for a in int_attrs_)]
    bcfg = _cfg_of(sbf)
    if not meta_puts:
        rep.unknown("C19.R9", sbf.qname, "metadata write of store_blob not found", sbf.loc())
    else:
        avoid = [d for e in meta_puts if e.root_func is sbf for d in _done_nodes(bcfg, e.root_node)]
        pth = bcfg.find_path([bcfg.entry], [bcfg.exit], avoid=avoid)
        desc = "store_blob cannot return normally without having written the metadata"
        if pth is None:
            rep.ok("C19.R9", sbf.qname, desc, meta_puts[-1].where())
        else:
            rep.bad("C19.R9", sbf.qname, desc, sbf.loc(), ["normal path through store_blob that skips / survives a failed metadata write:"] + _wp(bcfg, sbf, pth)[-12:] + [
                "the metadata is the commit marker and names the codec (has_blob / fetch_blob depend on it): with a links-only commit the redirect record is then "
                "published for a key without metadata and dds.load silently returns None"], "meta-failure-swallowed", what="a failed metadata write is swallowed by store_blob")

    check_reader(ctx, cls, "C19.R4")
    # ---- R4 marker ---------------------------------------------------------------------------------
    H = [e.term for e in m.effects_of("has_blob") if e.kind in ("HEAD", "PROBE")]
    sb = m.effects_of("store_blob")
    int_attrs = [a for a, d in m.attr_defs.items() if d[:2] == ("ctor", 0)]
    pubs = [e for e in sb if e.kind in ("PUT", "CP", "WRITE_INPLACE") and any(mentions_attr(e.term, a) for a in int_attrs)]
    desc = "DBFS store_blob writes the metadata last and has_blob is decided by the metadata"
    if pubs and H and pubs[-1].term in H and pubs[-1].kind == "PUT":
        rep.ok("C19.R4", cls.qname + ".store_blob", desc, pubs[-1].where())
    else:
        rep.bad("C19.R4", cls.qname + ".store_blob", desc, cls.methods["store_blob"].loc(),
                [f"has_blob reads {[show(t) for t in H]}", f"store_blob writes {[repr(e) for e in pubs]}"], "dbfs-marker",
                what="DBFS presence is not decided by the last-written metadata")
    if ctx.report.prop == "C19":
        from .common import share_rules as _share8
        _share8(ctx, "C17", "C19.R20", ["C17.R6"], "the DBFS store registers its Spark codec with add_codec and reads every blob by the reference its metadata names: a registration files the codec by type AND by reference, and never hands a taken reference to another codec (legacy blobs stay readable)")
    from .storerules import uri_join_is_a_path_join as _ujp
    ctx.report.rule("C19.R21", "the blob, metadata, copy and record locations are path joins of the configured directories whatever their spelling: `DBFSURI.joinpath` evaluated abstractly on roots with and without a trailing slash and one to three segments")
    ctx.report.floor("C19.R21", _ujp(ctx, "C19.R21"), 8)
