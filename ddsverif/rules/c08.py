"""
C08 - stores round-trip blobs and paths; distinct paths never alias or escape.

R1  path -> location keeps every non-empty segment (no lossy operation).
R2  dot segments rejected / exact containment test before the location is used (local store).
R3  blob and metadata names are disjoint.   R4  writer and reader use the same location term; links point to the blob.
R5  sibling agreement for the in-memory and DBFS stores: the key used to publish a path entry is the key probed.
"""
from .common import Ctx
from . import storerules as S
from ..fsmodel import StoreModel, show, mentions_sym

PROP = "C08"


def run(ctx: Ctx) -> None:
    rep = ctx.report
    ctx.types
    v = S.LocalView(ctx)
    rep.analysed["store_class"] = v.cls.qname
    rep.rule("C08.R1", "no lossy operation (separator deletion, 2-way split, slicing, case folding, normpath, hashing) between PATH and its location")
    rep.rule("C08.R2", "rejection of '.'/'..' or commonpath / relative_to containment dominates the join that builds the location")
    rep.rule("C08.R3", "meta(KEY) = blob(KEY) + suffix with a non-hexadecimal character, same directory")
    rep.rule("C08.R4", "term published by sync_paths == term probed by fetch_paths; link target == blob term")
    n1 = S.path_injective(ctx, v, "C08.R1")
    rep.floor("C08.R1", n1, 2)
    n2 = S.path_confined(ctx, v, "C08.R2")
    rep.floor("C08.R2", n2, 2)
    n3 = S.names_disjoint(ctx, v, "C08.R3")
    rep.floor("C08.R3", n3, 1)
    S.writer_reader_agree(ctx, v, "C08.R4")
    rep.rule("C08.R5", "store_blob returns normally only after the commit marker is published (a stored key is reported present)")
    S.store_always_publishes(ctx, v, "C08.R5")
    # DBFS sibling
    c = ctx.prog.classes.get("dds.codecs.databricks.DBFSStore")
    if c is not None:
        m = StoreModel(ctx.prog, c, ctx._types)
        puts = [e.term for e in m.effects_of("sync_paths") if e.kind == "PUT" and mentions_sym(e.term, "PATH")]
        heads = [e.term for e in m.effects_of("fetch_paths") if e.kind == "HEAD" and mentions_sym(e.term, "PATH")]
        desc = "DBFS: redirect record written by sync_paths is the one fetch_paths reads"
        if puts and heads and set(puts) == set(heads):
            rep.ok("C08.R4", c.qname, desc, c.module.relpath)
        elif not puts or not heads:
            rep.unknown("C08.R4", c.qname, "cannot identify DBFS redirect terms", c.module.relpath)
        else:
            rep.bad("C08.R4", c.qname, desc, c.module.relpath, [f"written {[show(t) for t in puts]}", f"read {[show(t) for t in heads]}"], "dbfs-redir",
                    what="DBFS redirect record written where fetch_paths does not read")
