"""
C08 - stores round-trip blobs and paths; distinct paths never alias or escape.

R1  path -> location keeps every non-empty segment (no lossy operation).
R2  dot segments rejected / exact containment test before the location is used (local store).
R3  blob and metadata names are disjoint.   R4  writer and reader use the same location term; links point to the blob.
R5  sibling agreement for the in-memory and DBFS stores: the key used to publish a path entry is the key probed.
"""
from .common import Ctx
from . import storerules as S
from ..fsmodel import StoreModel, show, mentions_sym

PROP = "C08"


def run(ctx: Ctx) -> None:
    rep = ctx.report
    ctx.types
    v = S.LocalView(ctx)
    rep.analysed["store_class"] = v.cls.qname
    rep.rule("C08.R1", "no lossy operation (separator deletion, 2-way split, slicing, case folding, normpath, hashing) between PATH and its location")
    rep.rule("C08.R2", "rejection of '.'/'..' or commonpath / relative_to containment dominates the join that builds the location")
    rep.rule("C08.R3", "meta(KEY) = blob(KEY) + suffix with a non-hexadecimal character, same directory")
    rep.rule("C08.R4", "term published by sync_paths == term probed by fetch_paths; link target == blob term")
    n1 = S.path_injective(ctx, v, "C08.R1")
    rep.floor("C08.R1", n1, 2)
    n2 = S.path_confined(ctx, v, "C08.R2")
    rep.floor("C08.R2", n2, 2)
    n3 = S.names_disjoint(ctx, v, "C08.R3")
    rep.floor("C08.R3", n3, 1)
    S.writer_reader_agree(ctx, v, "C08.R4")
    rep.rule("C08.R7", "the URI join of the DBFS store removes separator syntax only (never the leading '.' of a name): distinct paths keep distinct locations")
    n7 = S.uri_join_keeps_names(ctx, "C08.R7")
    rep.floor("C08.R7", n7, 1)
    rep.rule("C08.R8", "every path of a commit batch is committed (no early exit from the loop of sync_paths, in any store)")
    n8 = S.every_path_processed(ctx, "C08.R8")
    rep.floor("C08.R8", n8, 2)
    from .c17 import codec_duals
    rep.rule("C08.R9", "as C17.R4: a blob is fetched back equal: serialize_into / deserialize_from of every codec are duals (same open mode - binary -, same encoding, "
                       "dual operations, the location parameter is the file that is opened)")
    n9 = codec_duals(ctx, "C08.R9", "C08.R9")
    rep.floor("C08.R9", n9, 4)
    from .c03 import store_paths_lexical
    rep.rule("C08.R10", "as C03.R8: store paths are made from their text, never resolved against the file system (`Path('/q/../t')` is not '/t': paths that differ in "
                        "their segments stay different, and '..' reaches the store's refusal)")
    n10 = store_paths_lexical(ctx, "C08.R10")
    rep.floor("C08.R10", n10, 1)
    rep.rule("C08.R11", "a committed path resolves to the key it was committed with, also when it was committed before with another key: DBFS sync_paths skips the write of "
                        "the redirect record only after comparing the recorded key with the new one")
    n11 = S.record_rewritten_unless_current(ctx, "C08.R11")
    rep.floor("C08.R11", n11, 1)
    rep.rule("C08.R12", "paths that differ in their non-empty segments never share a location in the DBFS store either: '.' / '..' segments and the reserved directory of the "
                        "redirections are refused before any location is built")
    n12 = S.dbfs_paths_validated(ctx, "C08.R12")
    rep.floor("C08.R12", n12, 2)
    rep.rule("C08.R13", "a path has one spelling: DDSPathUtils.create drops (or refuses) empty segments, so that the stores - which place a path by its non-empty segments "
                        "(local, DBFS) or by its text (memory) - agree on which paths are the same")
    n13 = S.one_spelling_per_path(ctx, "C08.R13")
    rep.floor("C08.R13", n13, 1)
    rep.rule("C08.R14", "blobs round-trip whatever their value: the memory store reports a stored None / falsy blob present (membership in its mapping, not a look at the value)")
    n14 = S.memory_presence_by_membership(ctx, "C08.R14")
    rep.floor("C08.R14", n14, 1)
    from .storerules import memory_readers_pure as _mrp
    rep.rule("C08.R17", "once stored, a blob stays present and absent keys stay absent whatever is read: the reading methods of the memory store change none of its tables")
    _n_mrp = _mrp(ctx, "C08.R17")
    rep.floor("C08.R17", _n_mrp, 3)
    if rep.prop == "C08":
        from .common import share_rules
        share_rules(ctx, "C19", "C08.R18", ["C19.R4"], "the DBFS store writes the marker of a blob where has_blob / fetch_blob look for it (under the internal directory): a store reopened on "
                    "the same internal directory reports the blob present whatever its data directory")
    rep.rule("C08.R19", "as C07.R14 / C09.R19: a path that was never committed does not resolve: the local store resolves the entry of a path only when that very name exists and is a "
                        "link (the directory holding the entries of longer paths is not a path)")
    n19 = S.reads_after_presence(ctx, v, "C08.R19")
    rep.floor("C08.R19", n19, 4)
    rep.rule("C08.R22", "a committed path resolves to its key regardless of the other paths of the same call: the per-path locals of the loops of sync_paths / fetch_paths are assigned on "
                        "every path of the body before they are read (no state carried from one path to the next)")
    n22 = S.per_path_state_is_fresh(ctx, "C08.R22")
    rep.floor("C08.R22", n22, 15)
    rep.rule("C08.R20", "a committed path resolves whatever other paths are committed before or after: the entry of a path does not take the name of a directory that the entry of a "
                        "longer path needs (the dictionary model holds '/a' and '/a/b' together)")
    n20 = S.entries_apart_from_directories(ctx, v, "C08.R20")
    rep.floor("C08.R20", n20, 1)
    rep.rule("C08.R15", "a committed path resolves to the key it was committed with, whatever else is asked in the same call: fetch_paths of every store files each requested path in "
                        "one mapping that lives across the loop (as C19.R14)")
    n15 = S.every_path_answered(ctx, "C08.R15")
    rep.floor("C08.R15", n15, 2)
    rep.rule("C08.R16", "as C19.R13: every `dbutils.fs.put` of the DBFS store overwrites - a path committed again with another key, or a key stored again, replaces the record")
    from .c19 import puts_overwrite
    n16 = puts_overwrite(ctx, "C08.R16")
    rep.floor("C08.R16", n16, 1)
    rep.rule("C08.R5", "store_blob returns normally only after the commit marker is published (a stored key is reported present)")
    S.store_always_publishes(ctx, v, "C08.R5")
    rep.rule("C08.R6", "committing a path removes / replaces nothing but that path's own entry; the cache wrapper answers path queries from the store")
    S.confined_destruction(ctx, v, "C08.R6")
    S.no_shared_removal(ctx, v, "C08.R6")
    from .c12 import passthrough_rules
    passthrough_rules(ctx, "C08.R6", only=["sync_paths", "fetch_paths"])
    # blob round trip of the siblings: what store_blob writes under a key is what has_blob / fetch_blob look at
    mem = ctx.prog.cls("dds.store.MemoryStore")
    if mem is not None:
        import ast as _ast
        def attr_used(meth, store):
            f_ = mem.methods.get(meth)
            out = set()
            if f_ is None:
                return out
            for n_ in f_.own_nodes():
                if isinstance(n_, _ast.Attribute) and isinstance(n_.value, _ast.Name) and n_.value.id == "self":
                    par_ = f_.module.parent.get(n_)
                    is_store = isinstance(par_, _ast.Subscript) and isinstance(par_.ctx, _ast.Store)
                    if is_store == store:
                        out.add(n_.attr)
            return out
        w_ = attr_used("store_blob", True)
        r1, r2 = attr_used("has_blob", False), attr_used("fetch_blob", False)
        desc = "MemoryStore: store_blob fills the mapping that has_blob and fetch_blob read, keyed by the key"
        if w_ and w_ <= r1 and w_ <= r2:
            rep.ok("C08.R4", mem.qname, desc, mem.module.relpath)
        else:
            rep.bad("C08.R4", mem.qname, desc, mem.module.relpath, [f"written {sorted(w_)}, has_blob reads {sorted(r1)}, fetch_blob reads {sorted(r2)}"], "mem-blob", what="MemoryStore stores blobs where it does not look for them")
    # DBFS sibling
    c = ctx.prog.cls("dds.codecs.databricks.DBFSStore")
    if c is not None:
        m = StoreModel(ctx.prog, c, ctx._types)
        wb = [e.term for e in m.effects_of("store_blob") if e.kind in ("CP", "WRITE_INPLACE", "PUT") and mentions_sym(e.term, "KEY")]
        rb = [e.term for e in m.effects_of("fetch_blob") if e.kind in ("CP", "READ", "HEAD") for t_ in [e.src if e.kind == "CP" else e.term] if t_ is not None and mentions_sym(t_, "KEY")]
        rbt = [(e.src if e.kind == "CP" else e.term) for e in m.effects_of("fetch_blob") if e.kind in ("CP", "READ", "HEAD") and mentions_sym(e.src if e.kind == "CP" else e.term, "KEY")]
        descb = "DBFS: the blob and metadata names written by store_blob are the ones fetch_blob reads"
        if wb and rbt and set(rbt) <= set(wb):
            rep.ok("C08.R4", c.qname, descb, c.module.relpath)
        else:
            rep.bad("C08.R4", c.qname, descb, c.module.relpath, [f"written {[show(t) for t in wb]}", f"read {[show(t) for t in rbt]}"], "dbfs-blob", what="DBFS blobs are read from another name than they are written to")
        puts = [e.term for e in m.effects_of("sync_paths") if e.kind == "PUT" and mentions_sym(e.term, "PATH")]
        heads = [e.term for e in m.effects_of("fetch_paths") if e.kind == "HEAD" and mentions_sym(e.term, "PATH")]
        desc = "DBFS: redirect record written by sync_paths is the one fetch_paths reads"
        if puts and heads and set(puts) == set(heads):
            rep.ok("C08.R4", c.qname, desc, c.module.relpath)
        elif not puts or not heads:
            rep.unknown("C08.R4", c.qname, "cannot identify DBFS redirect terms", c.module.relpath)
        else:
            rep.bad("C08.R4", c.qname, desc, c.module.relpath, [f"written {[show(t) for t in puts]}", f"read {[show(t) for t in heads]}"], "dbfs-redir",
                    what="DBFS redirect record written where fetch_paths does not read")
    if ctx.report.prop == "C08":
        from .common import share_rules as _share8
        _share8(ctx, "C16", "C08.R21", ['C16.R3'], 'the configured data directory is the one the store gets: every link the local store creates for a path lies inside the directory the user named')
