"""
C10 - a failing user function is never cached and leaves dds and the store clean.

R1  every path from the normal completion of a context SET to any exit (normal or exceptional)
    passes a context RESET.
R2  every store_blob(key, v): v is defined only by the user call, the store is dominated by the
    user call's normal completion and lies in no except / finally body.
R3  sync_paths is dominated by "root value obtained" and lies in no handler.
R4  no user call (or call on the way to it) sits in a try that has except clauses which do not
    re-raise the same exception.
"""
from __future__ import annotations

import ast
from typing import List, Set

from ..cfg import cfg_of, CFG, Node
from ..flow import flow_of
from ..model import unparse, stmt_key, Func
from .common import (
    Ctx, find_api_functions, ctx_global_name, user_calls, store_calls, done_nodes, witness_path,
    in_handler_or_finally, ancestors, dominated, stray_store_calls, unowned_holders, effect_sites,
)

PROP = "C10"


def ctx_assignments(ctx: Ctx, f: Func, gname: str):
    sets, resets = [], []
    declares = any(isinstance(n, ast.Global) and gname in n.names for n in f.own_nodes())
    if not declares:
        return sets, resets
    for n in f.own_nodes():
        if isinstance(n, ast.Assign) and any(isinstance(t, ast.Name) and t.id == gname for t in n.targets):
            if isinstance(n.value, ast.Constant) and n.value.value is None:
                resets.append(n)
            else:
                sets.append(n)
    return sets, resets


def run(ctx: Ctx) -> None:
    rep = ctx.report
    prog = ctx.prog
    ctx.types  # receiver resolution for Store calls
    top, nested = find_api_functions(ctx)
    gname = ctx_global_name(ctx)
    rep.rule("C10.R1", "context RESET post-dominates the normal completion of every context SET (exceptional edges included)")
    rep.rule("C10.R2", "store_blob value is the user call's result; store dominated by the call's normal completion; not in a handler")
    rep.rule("C10.R3", "sync_paths dominated by 'root value obtained' and outside except/finally")
    rep.rule("C10.R4", "no try/except around the user call (or a call leading to it) unless every handler re-raises bare")

    # ---- R1 -------------------------------------------------------------------------------
    n_sets = 0
    for f in prog.module("dds._api").funcs.values():
        sets, resets = ctx_assignments(ctx, f, gname)
        if not sets:
            continue
        cfg = cfg_of(f)
        reset_nodes: List[Node] = [n for r in resets for n in cfg.nodes_of(r)]
        # statements ahead of the reset inside the finally body: listed, not judged
        fin_tags: Set[str] = {n.tag for n in reset_nodes if n.tag}
        listed = set()
        for n in cfg.nodes:
            if n.tag in fin_tags and n.kind in ("stmt", "test", "loop") and n not in reset_nodes:
                if any(lab == "exc" for _, lab in n.succ) and n.ast is not None and id(n.ast) not in listed:
                    listed.add(id(n.ast))
                    rep.info("C10.R1", f.qname, f"statement ahead of the reset inside the finally body could skip the reset if it raised (not judged): {unparse(n.ast, 60)}", f.loc(n.ast))

        def edge_ok(a: Node, b: Node, lab: str) -> bool:
            return not (lab == "exc" and a.tag in fin_tags)

        for s in sets:
            n_sets += 1
            bad = None
            for d in done_nodes(cfg, s):
                p = cfg.find_path([d], [cfg.exit, cfg.exc_exit], avoid=reset_nodes, edge_ok=edge_ok)
                if p is not None:
                    bad = p
                    break
            desc = f"every exit after `{unparse(s, 50)}` passes a reset of {gname}"
            if bad is None:
                rep.ok("C10.R1", f.qname, desc, f.loc(s))
            else:
                rep.bad("C10.R1", f.qname, desc, f.loc(s), witness_path(cfg, f, bad), stmt_key(s),
                        what=f"evaluation context can stay set after {unparse(s, 40)}")
    rep.floor("C10.R1", n_sets, 2)

    # ---- R5: a function resets only the context it has set ------------------------------------------------------
    rep.rule("C10.R5", "every context RESET is dominated by the completion of a context SET of the same function (or by the outcome 'no context is set'): "
                       "a refusal raised before the SET must not wipe the context of the evaluation that is still running")
    n5 = 0
    for f in prog.module("dds._api").funcs.values():
        sets, resets = ctx_assignments(ctx, f, gname)
        if not resets:
            continue
        cfg = cfg_of(f)
        doms: List[Node] = [d for s_ in sets for d in done_nodes(cfg, s_)]
        for b in cfg.nodes:
            if b.kind != "branch" or b.ast is None:
                continue
            t = b.ast
            if isinstance(t, ast.Name) and t.id == gname and b.label == "F":
                doms.append(b)  # `if _eval_ctx:` false / `if not _eval_ctx:` true
            elif isinstance(t, ast.Compare) and isinstance(t.left, ast.Name) and t.left.id == gname and len(t.ops) == 1 \
                    and isinstance(t.comparators[0], ast.Constant) and t.comparators[0].value is None:
                if (isinstance(t.ops[0], ast.Is) and b.label == "T") or (isinstance(t.ops[0], ast.IsNot) and b.label == "F"):
                    doms.append(b)
        for a_ in f.own_nodes():
            if isinstance(a_, ast.Assert):
                t = a_.test
                none_test = (isinstance(t, ast.Compare) and isinstance(t.left, ast.Name) and t.left.id == gname and len(t.ops) == 1 and isinstance(t.ops[0], ast.Is)
                             and isinstance(t.comparators[0], ast.Constant) and t.comparators[0].value is None) or (
                    isinstance(t, ast.UnaryOp) and isinstance(t.op, ast.Not) and isinstance(t.operand, ast.Name) and t.operand.id == gname)
                if none_test:
                    doms += done_nodes(cfg, a_)  # `assert _eval_ctx is None` completed: nothing to lose
        for r in resets:
            n5 += 1
            desc = f"`{unparse(r, 40)}` only drops a context that this function has set"
            w = dominated(ctx, f, r, doms)
            if w is None:
                rep.ok("C10.R5", f.qname, desc, f.loc(r))
            else:
                rep.bad("C10.R5", f.qname, desc, f.loc(r), ["path that reaches the reset without having set the context (an outer evaluation's context is dropped; "
                        "its own clean-up then fails and replaces the user's exception, and later keeps run as top-level evaluations that commit their paths):"] + w,
                        stmt_key(r), what="the context of a running evaluation can be reset by a call that never set it")
    rep.floor("C10.R5", n5, 1)

    # ---- R2 / R3 ----------------------------------------------------------------------------
    n_store = 0
    for f in (top, nested):
        cfg = cfg_of(f)
        fl = flow_of(prog, f)
        ucs = user_calls(f)
        uc_done = [d for u in ucs for d in done_nodes(cfg, u)]
        for call in effect_sites(ctx, f, ["store_blob"]):
            n_store += 1
            if call not in store_calls(ctx, f, ["store_blob"]):
                w = dominated(ctx, f, call, uc_done)
                d_ = f"helper call `{unparse(call, 40)}` that stores a blob runs only after the user call completed"
                if w is None and not in_handler_or_finally(f.module, call):
                    rep.ok("C10.R2", f.qname, d_, f.loc(call))
                else:
                    rep.bad("C10.R2", f.qname, d_, f.loc(call), w or ["inside a handler"], stmt_key(call), what="a blob can be stored without a normally completed user call")
                continue
            where = f.loc(call)
            desc = "stored value is exactly the user call's result, after the call completed normally"
            if len(call.args) < 2:
                rep.unknown("C10.R2", f.qname, "store_blob call shape not understood", where)
                continue
            v = call.args[1]
            ok = True
            wit: List[str] = []
            if isinstance(v, ast.Name):
                defs = fl.root_defs(v)
                for d in defs:
                    if not (d.kind == "assign" and d.value in ucs):
                        ok = False
                        wit.append(f"{f.loc(d.stmt)}: {v.id} defined by `{unparse(d.stmt, 70)}` (not the user call)")
                if not defs:
                    ok = False
                    wit.append("no reaching definition")
            elif v in ucs:
                pass
            else:
                ok = False
                wit.append(f"stored expression `{unparse(v)}` is not the user call's result")
            w = dominated(ctx, f, call, uc_done)
            if w is not None:
                ok = False
                wit += ["path reaching the store without a completed user call:"] + w
            hf = in_handler_or_finally(f.module, call)
            if hf:
                ok = False
                wit.append(f"store_blob inside an {hf} body")
            if ok:
                rep.ok("C10.R2", f.qname, desc, where)
            else:
                rep.bad("C10.R2", f.qname, desc, where, wit, stmt_key(call), what="a blob can be stored without a normally completed user call")
        for call in effect_sites(ctx, f, ["sync_paths"]):
            where = f.loc(call)
            desc = "path commit happens only after the root value was obtained (fetched or computed), outside handlers"
            fetches = store_calls(ctx, f, ["fetch_blob"])
            doms = uc_done + [d for c in fetches for d in done_nodes(cfg, c)]
            w = dominated(ctx, f, call, doms)
            hf = in_handler_or_finally(f.module, call)
            if w is None and not hf:
                rep.ok("C10.R3", f.qname, desc, where)
            else:
                wit = (["path reaching sync_paths without the root value:"] + w) if w else []
                if hf:
                    wit.append(f"sync_paths inside an {hf} body")
                rep.bad("C10.R3", f.qname, desc, where, wit, stmt_key(call), what="paths can be committed although the root function did not return")
    rep.floor("C10.R2", n_store, 2)
    # who-may-call: paths are committed by the top-level evaluation function only, blobs by the two API functions only
    for (names, allowed, what) in (
        (["sync_paths"], [top], "paths are committed outside the single end-of-evaluation commit: a later failure leaves them committed"),
        (["store_blob"], [top, nested], "a blob is stored outside the API functions that guard it by the user call's completion"),
    ):
        strays = unowned_holders(ctx, names, allowed)
        for sf, call in strays:
            rep.bad("C10.R3" if names == ["sync_paths"] else "C10.R2", sf.qname,
                    f"{names[0]} is called only from {', '.join(a.name for a in allowed)}", sf.loc(call),
                    [f"{sf.loc(call)}: `{unparse(call, 70)}` in {sf.qname}"], stmt_key(call), what=what)
        if not strays:
            rep.ok("C10.R3" if names == ["sync_paths"] else "C10.R2", "dds", f"{names[0]} is called only from {', '.join(a.name for a in allowed)} (and delegating stores)", "dds/")

    # ---- R4 -------------------------------------------------------------------------------
    holders = {f.qname for f in prog.funcs.values() if user_calls(f)}
    cg = ctx.callgraph()
    reach: Set[str] = set(holders)
    changed = True
    while changed:
        changed = False
        for q, outs in cg.items():
            if q not in reach and outs & reach:
                reach.add(q)
                changed = True
    n4 = 0
    for q in sorted(reach):
        f = prog.funcs[q]
        sites: List[ast.Call] = list(user_calls(f))
        for n in f.own_nodes():
            if isinstance(n, ast.Call) and n not in sites:
                fs, _ = prog.callees(f, n, ctx._types)
                if any(x.qname in reach for x in fs):
                    sites.append(n)
        for c in sites:
            n4 += 1
            bad_handlers = []
            prev: ast.AST = c
            for a in ancestors(f.module, c):
                if isinstance(a, (ast.FunctionDef, ast.AsyncFunctionDef)):
                    break
                if isinstance(a, ast.Try) and a.handlers and any(prev is s for s in a.body):
                    for h in a.handlers:
                        if not _reraises_bare(h):
                            bad_handlers.append(h)
                prev = a
            # context managers around the call: a package-defined one must not be able to swallow the exception
            for a in ancestors(f.module, c):
                if isinstance(a, (ast.FunctionDef, ast.AsyncFunctionDef)):
                    break
                if isinstance(a, (ast.With, ast.AsyncWith)) and type(a).__name__ != "InlineBlock":
                    for it_ in a.items:
                        why = _swallowing_cm(ctx, f, it_.context_expr)
                        if why:
                            bad_handlers.append((a, why))
            desc = f"exception of `{unparse(c, 50)}` propagates unchanged (no handler on the way)"
            if bad_handlers and any(isinstance(h, tuple) for h in bad_handlers):
                cms = [h for h in bad_handlers if isinstance(h, tuple)]
                rep.bad("C10.R4", f.qname, desc, f.loc(c), [f"{f.loc(w_)}: `with {unparse(w_.items[0].context_expr, 50)}` around the call: {why_}" for (w_, why_) in cms] + [
                    "a failing user function then does not raise: keep / eval return None, None is stored under the signature and the paths are committed"],
                    stmt_key(c) + "cm", what="a context manager around the user call can swallow the user's exception")
                continue
            if bad_handlers:
                rep.bad("C10.R4", f.qname, desc, f.loc(c),
                        [f"{f.loc(h)}: except {unparse(h.type, 40)} does not end in a bare `raise`" for h in bad_handlers],
                        stmt_key(c), what="a handler can swallow or replace the user's exception")
            else:
                rep.ok("C10.R4", f.qname, desc, f.loc(c), nontrivial=False)
    rep.floor("C10.R4", n4, 4)

    # ---- R7: after a failed evaluation the next ones repair what it left ---------------------------------------------------
    from .c04 import commit_rules
    rep.rule("C10.R7", "as C04.R1: every evaluation that returns commits its complete path map, also when its blob is already stored: a failed evaluation leaves blobs of "
                       "completed sub-functions without committed paths, and the next evaluation of such a sub-function must commit its path")
    commit_rules(ctx, top, "C10.R7")

    # ---- R8: the cleanup cannot fail before it drops the context -----------------------------------------------------------
    rep.rule("C10.R8", "every key that the cleanup of the evaluation reads from a table of the context, before the context is dropped, was put there when the context "
                       "was created: the table is initialised over the same enumeration the cleanup iterates (a missing key raises KeyError in the `finally`: it "
                       "replaces the user's exception and the context is never released)")
    n8 = 0
    tcfg = cfg_of(top)
    for tr in [x for x in top.own_nodes() if isinstance(x, ast.Try) and x.finalbody]:
        resets = [st for st in ast.walk(ast.Module(body=tr.finalbody, type_ignores=[])) if isinstance(st, ast.Assign) and isinstance(st.value, ast.Constant) and st.value.value is None]
        if not resets:
            continue
        reads = []  # (table attribute, iterable expression)
        for x in ast.walk(ast.Module(body=tr.finalbody, type_ignores=[])):
            gens = []
            if isinstance(x, (ast.ListComp, ast.GeneratorExp, ast.SetComp, ast.DictComp)):
                gens = [(g.target, g.iter, x) for g in x.generators]
            elif isinstance(x, ast.For):
                gens = [(x.target, x.iter, x)]
            for tg, it, scope_ in gens:
                if not isinstance(tg, ast.Name):
                    continue
                for sub in ast.walk(scope_):
                    if isinstance(sub, ast.Subscript) and isinstance(sub.ctx, ast.Load) and isinstance(sub.slice, ast.Name) and sub.slice.id == tg.id and isinstance(sub.value, ast.Attribute):
                        if getattr(sub, "lineno", 0) <= resets[0].lineno:
                            reads.append((sub.value.attr, it, sub))
        for attr, it, sub in reads:
            n8 += 1
            inits = []
            for c in top.own_nodes():
                if isinstance(c, ast.Call):
                    for k in c.keywords:
                        if k.arg == attr:
                            for y in ast.walk(k.value):
                                if isinstance(y, (ast.ListComp, ast.GeneratorExp, ast.DictComp, ast.SetComp)):
                                    inits.append((c, y.generators[0].iter))
            desc = f"`{unparse(sub, 40)}` in the cleanup reads keys that the creation of the context put into `{attr}`"
            if not inits:
                rep.unknown("C10.R8", top.qname, f"initialisation of the table `{attr}` not found", top.loc(sub))
            elif all(unparse(i_) == unparse(it) for _c, i_ in inits):
                rep.ok("C10.R8", top.qname, desc + f" (both over `{unparse(it, 40)}`)", top.loc(sub))
            else:
                c0, i0 = [(c_, i_) for c_, i_ in inits if unparse(i_) != unparse(it)][0]
                rep.bad("C10.R8", top.qname, desc, top.loc(sub), [f"{top.loc(c0)}: the table is created over `{unparse(i0, 50)}`", f"{top.loc(sub)}: the cleanup reads it over `{unparse(it, 50)}`",
                        "with an evaluation restricted to some stages a user function that raises is followed by KeyError in the `finally`: the KeyError replaces the user's exception "
                        "(even KeyboardInterrupt) and the evaluation context is never released: every later dds.keep / dds.eval of the process fails"], f"cleanup-keys:{attr}",
                        what="the cleanup of the evaluation reads keys that were never initialised: it fails before releasing the context")
    rep.floor("C10.R8", n8, 0)

    # ---- R9: what a failed evaluation leaves is not taken for a committed path ---------------------------------------------
    from . import storerules as _S
    rep.rule("C10.R9", "as C06.R9: a path whose function failed resolves to nothing: fetch_paths of the local store follows the link when it tests the entry (a link left "
                       "without its blob is not a committed path, dds.load refuses it instead of returning None)")
    n9 = _S.path_entry_presence(ctx, _S.LocalView(ctx), "C10.R9")
    rep.floor("C10.R9", n9, 1)

    # ---- R6: markers set on the way to the user's function are released on every exit -------------------------------------
    from .storerules import memory_readers_pure as _mrp
    rep.rule("C10.R10", "reading the store never makes a blob present: the reading methods of the memory store change none of its tables (a failing function's key stays absent whatever is loaded afterwards)")
    _n_mrp = _mrp(ctx, "C10.R10")
    rep.floor("C10.R10", _n_mrp, 3)
    rep.rule("C10.R6", "a marker put into non-local state (closure / module container) before a call that leads to the user's function, and taken out "
                       "after it, is taken out on the exceptional exit too (try / finally)")
    ADD = {"append", "add", "insert", "setdefault", "update", "__setitem__", "appendleft", "push"}
    UNDO = {"pop", "remove", "discard", "clear", "popitem", "popleft", "__delitem__"}
    n6 = 0
    for q in sorted(reach):
        f = prog.funcs[q]
        locals_ = prog.local_names(f)
        cfg = cfg_of(f)
        sites = list(user_calls(f))
        for n in f.own_nodes():
            if isinstance(n, ast.Call) and n not in sites:
                fs, _ = prog.callees(f, n, ctx._types)
                if any(x.qname in reach for x in fs):
                    sites.append(n)
        if not sites:
            continue

        def nonlocal_base(e: ast.AST):
            while isinstance(e, (ast.Attribute, ast.Subscript)):
                e = e.value
            if isinstance(e, ast.Name) and e.id not in locals_ and e.id not in ("self", "cls"):
                return e.id
            return None

        adds, undos = [], []
        for st in f.own_nodes():
            if isinstance(st, ast.Expr) and isinstance(st.value, ast.Call) and isinstance(st.value.func, ast.Attribute):
                b = nonlocal_base(st.value.func.value)
                if b is not None and st.value.func.attr in ADD:
                    adds.append((b, st))
                elif b is not None and st.value.func.attr in UNDO:
                    undos.append((b, st))
            elif isinstance(st, ast.Assign) and any(isinstance(t, ast.Subscript) and nonlocal_base(t) is not None for t in st.targets):
                for t in st.targets:
                    if isinstance(t, ast.Subscript) and nonlocal_base(t) is not None:
                        adds.append((nonlocal_base(t), st))
            elif isinstance(st, ast.Delete):
                for t in st.targets:
                    if nonlocal_base(t) is not None:
                        undos.append((nonlocal_base(t), st))
            elif isinstance(st, ast.Assign) and isinstance(st.value, ast.Call) and isinstance(st.value.func, ast.Attribute) and st.value.func.attr in UNDO \
                    and nonlocal_base(st.value.func.value) is not None:
                undos.append((nonlocal_base(st.value.func.value), st))
        for (b, a_st) in adds:
            mine = [u for (ub, u) in undos if ub == b]
            if not mine:
                continue  # plain accumulation (statistics, registries): nothing is meant to be released
            # only markers that bracket a call leading to the user's function
            a_done = done_nodes(cfg, a_st)
            brackets = any(dominated(ctx, f, c_, a_done) is None for c_ in sites)
            if not brackets:
                continue
            n6 += 1
            undo_nodes = [x for u in mine for x in cfg.nodes_of(u)]
            fin_tags = {x.tag for x in undo_nodes if x.tag}
            badp = None
            for d in a_done:
                p_ = cfg.find_path([d], [cfg.exit, cfg.exc_exit], avoid=undo_nodes, edge_ok=lambda a, b_, lab: not (lab == "exc" and a.tag in fin_tags))
                if p_ is not None:
                    badp = p_
                    break
            desc = f"`{unparse(a_st, 40)}` (marker in `{b}`) is undone on every exit of {f.name}"
            if badp is None:
                rep.ok("C10.R6", f.qname, desc, f.loc(a_st))
            else:
                rep.bad("C10.R6", f.qname, desc, f.loc(a_st), [f"`{b}` is state that outlives the call; when the user's function raises, the marker stays set:"] + witness_path(cfg, f, badp) + [
                        "the failed evaluation looks clean, but every later evaluation that reaches the same function object in this process is refused / misled by the stale marker"],
                        stmt_key(a_st), what="a marker set around the user's function is not released when the function fails")
    rep.info("C10.R6", "dds", f"{n6} marker(s) bracketing a call that leads to the user's function", "dds/")


def _swallowing_cm(ctx: Ctx, f: Func, e: ast.AST):
    """why the context manager built by expression e can suppress an exception raised in its block (None when it cannot / is
    not package code): contextlib.suppress; a @contextmanager generator with return / break / continue inside a `finally` or
    an except clause that does not re-raise around its yield; a class whose __exit__ can return a true value"""
    if not isinstance(e, ast.Call):
        return None
    d = ctx.prog.dotted(f, e.func) or ""
    if d.endswith("contextlib.suppress") or d == "suppress":
        return "contextlib.suppress discards the exception"
    fs, _ = ctx.prog.callees(f, e, ctx._types)
    for g in fs:
        if any("contextmanager" in dec for dec in g.decorators):
            for n in g.own_nodes():
                if isinstance(n, ast.Try):
                    holds_yield = any(isinstance(x, (ast.Yield, ast.YieldFrom)) for b in n.body for x in ast.walk(b))
                    if not holds_yield:
                        continue
                    for st in n.finalbody:
                        for x in ast.walk(st):
                            if isinstance(x, (ast.Return, ast.Break, ast.Continue)):
                                return f"{g.loc(x)}: `{unparse(x, 30)}` inside the `finally` of the generator context manager {g.name} discards the exception in flight"
                    for h in n.handlers:
                        if not _reraises_bare(h):
                            return f"{g.loc(h)}: except {unparse(h.type, 30)} around the yield of {g.name} does not re-raise"
        if g.name == "__init__" and g.cls is not None:
            ex = g.cls.methods.get("__exit__")
            if ex is not None:
                for r in ex.own_nodes():
                    if isinstance(r, ast.Return) and r.value is not None and not (isinstance(r.value, ast.Constant) and not r.value.value):
                        return f"{ex.loc(r)}: {g.cls.name}.__exit__ can return a true value"
    return None


def _reraises_bare(h: ast.ExceptHandler) -> bool:
    """Every normal path through the handler body ends in a bare `raise`."""
    c = CFG(ast.FunctionDef(name="h", args=ast.arguments(posonlyargs=[], args=[], kwonlyargs=[], kw_defaults=[], defaults=[]),
                            body=h.body, decorator_list=[], lineno=h.lineno, col_offset=0))
    bare = [n for n in c.nodes if isinstance(n.ast, ast.Raise) and n.ast.exc is None and n.kind == "stmt"]

    def edge_ok(a, b, lab):
        # only explicit raises count as exceptional exits of the handler body
        return lab != "exc" or isinstance(a.ast, ast.Raise)

    return c.find_path([c.entry], [c.exit, c.exc_exit], avoid=bare, edge_ok=edge_ok) is None
