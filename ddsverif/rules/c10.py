"""
C10 - a failing user function is never cached and leaves dds and the store clean.

R1  every path from the normal completion of a context SET to any exit (normal or exceptional)
    passes a context RESET.
R2  every store_blob(key, v): v is defined only by the user call, the store is dominated by the
    user call's normal completion and lies in no except / finally body.
R3  sync_paths is dominated by "root value obtained" and lies in no handler.
R4  no user call (or call on the way to it) sits in a try that has except clauses which do not
    re-raise the same exception.
"""
from __future__ import annotations

import ast
from typing import List, Set

from ..cfg import cfg_of, CFG, Node
from ..flow import flow_of
from ..model import unparse, stmt_key, Func
from .common import (
    Ctx, find_api_functions, ctx_global_name, user_calls, store_calls, done_nodes, witness_path,
    in_handler_or_finally, ancestors, dominated, stray_store_calls, unowned_holders, effect_sites,
)

PROP = "C10"


def ctx_assignments(ctx: Ctx, f: Func, gname: str):
    sets, resets = [], []
    declares = any(isinstance(n, ast.Global) and gname in n.names for n in f.own_nodes())
    if not declares:
        return sets, resets
    for n in f.own_nodes():
        if isinstance(n, ast.Assign) and any(isinstance(t, ast.Name) and t.id == gname for t in n.targets):
            if isinstance(n.value, ast.Constant) and n.value.value is None:
                resets.append(n)
            else:
                sets.append(n)
    return sets, resets


def run(ctx: Ctx) -> None:
    rep = ctx.report
    prog = ctx.prog
    ctx.types  # receiver resolution for Store calls
    top, nested = find_api_functions(ctx)
    gname = ctx_global_name(ctx)
    rep.rule("C10.R1", "context RESET post-dominates the normal completion of every context SET (exceptional edges included)")
    rep.rule("C10.R2", "store_blob value is the user call's result; store dominated by the call's normal completion; not in a handler")
    rep.rule("C10.R3", "sync_paths dominated by 'root value obtained' and outside except/finally")
    rep.rule("C10.R4", "no try/except around the user call (or a call leading to it) unless every handler re-raises bare")

    # ---- R1 -------------------------------------------------------------------------------
    n_sets = 0
    for f in prog.module("dds._api").funcs.values():
        sets, resets = ctx_assignments(ctx, f, gname)
        if not sets:
            continue
        cfg = cfg_of(f)
        reset_nodes: List[Node] = [n for r in resets for n in cfg.nodes_of(r)]
        # statements ahead of the reset inside the finally body: listed, not judged
        fin_tags: Set[str] = {n.tag for n in reset_nodes if n.tag}
        listed = set()
        for n in cfg.nodes:
            if n.tag in fin_tags and n.kind in ("stmt", "test", "loop") and n not in reset_nodes:
                if any(lab == "exc" for _, lab in n.succ) and n.ast is not None and id(n.ast) not in listed:
                    listed.add(id(n.ast))
                    rep.info("C10.R1", f.qname, f"statement ahead of the reset inside the finally body could skip the reset if it raised (not judged): {unparse(n.ast, 60)}", f.loc(n.ast))

        def edge_ok(a: Node, b: Node, lab: str) -> bool:
            return not (lab == "exc" and a.tag in fin_tags)

        for s in sets:
            n_sets += 1
            bad = None
            for d in done_nodes(cfg, s):
                p = cfg.find_path([d], [cfg.exit, cfg.exc_exit], avoid=reset_nodes, edge_ok=edge_ok)
                if p is not None:
                    bad = p
                    break
            desc = f"every exit after `{unparse(s, 50)}` passes a reset of {gname}"
            if bad is None:
                rep.ok("C10.R1", f.qname, desc, f.loc(s))
            else:
                rep.bad("C10.R1", f.qname, desc, f.loc(s), witness_path(cfg, f, bad), stmt_key(s),
                        what=f"evaluation context can stay set after {unparse(s, 40)}")
    rep.floor("C10.R1", n_sets, 2)

    # ---- R5: a function resets only the context it has set ------------------------------------------------------
    rep.rule("C10.R5", "every context RESET is dominated by the completion of a context SET of the same function (or by the outcome 'no context is set'): "
                       "a refusal raised before the SET must not wipe the context of the evaluation that is still running")
    n5 = 0
    for f in prog.module("dds._api").funcs.values():
        sets, resets = ctx_assignments(ctx, f, gname)
        if not resets:
            continue
        cfg = cfg_of(f)
        doms: List[Node] = [d for s_ in sets for d in done_nodes(cfg, s_)]
        for b in cfg.nodes:
            if b.kind != "branch" or b.ast is None:
                continue
            t = b.ast
            if isinstance(t, ast.Name) and t.id == gname and b.label == "F":
                doms.append(b)  # `if _eval_ctx:` false / `if not _eval_ctx:` true
            elif isinstance(t, ast.Compare) and isinstance(t.left, ast.Name) and t.left.id == gname and len(t.ops) == 1 \
                    and isinstance(t.comparators[0], ast.Constant) and t.comparators[0].value is None:
                if (isinstance(t.ops[0], ast.Is) and b.label == "T") or (isinstance(t.ops[0], ast.IsNot) and b.label == "F"):
                    doms.append(b)
        for a_ in f.own_nodes():
            if isinstance(a_, ast.Assert):
                t = a_.test
                none_test = (isinstance(t, ast.Compare) and isinstance(t.left, ast.Name) and t.left.id == gname and len(t.ops) == 1 and isinstance(t.ops[0], ast.Is)
                             and isinstance(t.comparators[0], ast.Constant) and t.comparators[0].value is None) or (
                    isinstance(t, ast.UnaryOp) and isinstance(t.op, ast.Not) and isinstance(t.operand, ast.Name) and t.operand.id == gname)
                if none_test:
                    doms += done_nodes(cfg, a_)  # `assert _eval_ctx is None` completed: nothing to lose
        for r in resets:
            n5 += 1
            desc = f"`{unparse(r, 40)}` only drops a context that this function has set"
            w = dominated(ctx, f, r, doms)
            if w is None:
                rep.ok("C10.R5", f.qname, desc, f.loc(r))
            else:
                rep.bad("C10.R5", f.qname, desc, f.loc(r), ["path that reaches the reset without having set the context (an outer evaluation's context is dropped; "
                        "its own clean-up then fails and replaces the user's exception, and later keeps run as top-level evaluations that commit their paths):"] + w,
                        stmt_key(r), what="the context of a running evaluation can be reset by a call that never set it")
    rep.floor("C10.R5", n5, 1)

    # ---- R2 / R3 ----------------------------------------------------------------------------
    n_store = 0
    for f in (top, nested):
        cfg = cfg_of(f)
        fl = flow_of(prog, f)
        ucs = user_calls(f)
        uc_done = [d for u in ucs for d in done_nodes(cfg, u)]
        for call in effect_sites(ctx, f, ["store_blob"]):
            n_store += 1
            if call not in store_calls(ctx, f, ["store_blob"]):
                w = dominated(ctx, f, call, uc_done)
                d_ = f"helper call `{unparse(call, 40)}` that stores a blob runs only after the user call completed"
                if w is None and not in_handler_or_finally(f.module, call):
                    rep.ok("C10.R2", f.qname, d_, f.loc(call))
                else:
                    rep.bad("C10.R2", f.qname, d_, f.loc(call), w or ["inside a handler"], stmt_key(call), what="a blob can be stored without a normally completed user call")
                continue
            where = f.loc(call)
            desc = "stored value is exactly the user call's result, after the call completed normally"
            if len(call.args) < 2:
                rep.unknown("C10.R2", f.qname, "store_blob call shape not understood", where)
                continue
            v = call.args[1]
            ok = True
            wit: List[str] = []
            if isinstance(v, ast.Name):
                defs = fl.root_defs(v)
                for d in defs:
                    if not (d.kind == "assign" and d.value in ucs):
                        ok = False
                        wit.append(f"{f.loc(d.stmt)}: {v.id} defined by `{unparse(d.stmt, 70)}` (not the user call)")
                if not defs:
                    ok = False
                    wit.append("no reaching definition")
            elif v in ucs:
                pass
            else:
                ok = False
                wit.append(f"stored expression `{unparse(v)}` is not the user call's result")
            w = dominated(ctx, f, call, uc_done)
            if w is not None:
                ok = False
                wit += ["path reaching the store without a completed user call:"] + w
            hf = in_handler_or_finally(f.module, call)
            if hf:
                ok = False
                wit.append(f"store_blob inside an {hf} body")
            if ok:
                rep.ok("C10.R2", f.qname, desc, where)
            else:
                rep.bad("C10.R2", f.qname, desc, where, wit, stmt_key(call), what="a blob can be stored without a normally completed user call")
        for call in effect_sites(ctx, f, ["sync_paths"]):
            where = f.loc(call)
            desc = "path commit happens only after the root value was obtained (fetched or computed), outside handlers"
            fetches = store_calls(ctx, f, ["fetch_blob"])
            doms = uc_done + [d for c in fetches for d in done_nodes(cfg, c)]
            w = dominated(ctx, f, call, doms)
            hf = in_handler_or_finally(f.module, call)
            if w is None and not hf:
                rep.ok("C10.R3", f.qname, desc, where)
            else:
                wit = (["path reaching sync_paths without the root value:"] + w) if w else []
                if hf:
                    wit.append(f"sync_paths inside an {hf} body")
                rep.bad("C10.R3", f.qname, desc, where, wit, stmt_key(call), what="paths can be committed although the root function did not return")
    rep.floor("C10.R2", n_store, 2)
    # who-may-call: paths are committed by the top-level evaluation function only, blobs by the two API functions only
    for (names, allowed, what) in (
        (["sync_paths"], [top], "paths are committed outside the single end-of-evaluation commit: a later failure leaves them committed"),
        (["store_blob"], [top, nested], "a blob is stored outside the API functions that guard it by the user call's completion"),
    ):
        strays = unowned_holders(ctx, names, allowed)
        for sf, call in strays:
            rep.bad("C10.R3" if names == ["sync_paths"] else "C10.R2", sf.qname,
                    f"{names[0]} is called only from {', '.join(a.name for a in allowed)}", sf.loc(call),
                    [f"{sf.loc(call)}: `{unparse(call, 70)}` in {sf.qname}"], stmt_key(call), what=what)
        if not strays:
            rep.ok("C10.R3" if names == ["sync_paths"] else "C10.R2", "dds", f"{names[0]} is called only from {', '.join(a.name for a in allowed)} (and delegating stores)", "dds/")

    # ---- R4 -------------------------------------------------------------------------------
    holders = {f.qname for f in prog.funcs.values() if user_calls(f)}
    cg = ctx.callgraph()
    reach: Set[str] = set(holders)
    changed = True
    while changed:
        changed = False
        for q, outs in cg.items():
            if q not in reach and outs & reach:
                reach.add(q)
                changed = True
    n4 = 0
    for q in sorted(reach):
        f = prog.funcs[q]
        sites: List[ast.Call] = list(user_calls(f))
        for n in f.own_nodes():
            if isinstance(n, ast.Call) and n not in sites:
                fs, _ = prog.callees(f, n, ctx._types)
                if any(x.qname in reach for x in fs):
                    sites.append(n)
        for c in sites:
            n4 += 1
            bad_handlers = []
            prev: ast.AST = c
            for a in ancestors(f.module, c):
                if isinstance(a, (ast.FunctionDef, ast.AsyncFunctionDef)):
                    break
                if isinstance(a, ast.Try) and a.handlers and any(prev is s for s in a.body):
                    for h in a.handlers:
                        if not _reraises_bare(h):
                            bad_handlers.append(h)
                prev = a
            desc = f"exception of `{unparse(c, 50)}` propagates unchanged (no handler on the way)"
            if bad_handlers:
                rep.bad("C10.R4", f.qname, desc, f.loc(c),
                        [f"{f.loc(h)}: except {unparse(h.type, 40)} does not end in a bare `raise`" for h in bad_handlers],
                        stmt_key(c), what="a handler can swallow or replace the user's exception")
            else:
                rep.ok("C10.R4", f.qname, desc, f.loc(c), nontrivial=False)
    rep.floor("C10.R4", n4, 4)


def _reraises_bare(h: ast.ExceptHandler) -> bool:
    """Every normal path through the handler body ends in a bare `raise`."""
    c = CFG(ast.FunctionDef(name="h", args=ast.arguments(posonlyargs=[], args=[], kwonlyargs=[], kw_defaults=[], defaults=[]),
                            body=h.body, decorator_list=[], lineno=h.lineno, col_offset=0))
    bare = [n for n in c.nodes if isinstance(n.ast, ast.Raise) and n.ast.exc is None and n.kind == "stmt"]

    def edge_ok(a, b, lab):
        # only explicit raises count as exceptional exits of the handler body
        return lab != "exc" or isinstance(a.ast, ast.Raise)

    return c.find_path([c.entry], [c.exit, c.exc_exit], avoid=bare, edge_ok=edge_ok) is None
