"""
C03 - signatures depend only on program content, never on the environment.

R1  no nondeterminism / process-state source (id, hash, environment, cwd, time, random, uuid, interpreter state) in the
    def-use slice of a signature sink; such reads in the analysis modules stay inside lookups / comparisons of their function.
R2  no hash-seed order: every place where a set-typed value is consumed by an order-sensitive construct is either
    immediately sanitised (sorted / set / len ...), a loop with an order-insensitive body, or its result reaches neither a
    signature sink nor leaves the function.
R3  history does not reach results: the process-wide interaction cache has no writer; no process-wide memo in the analysis
    modules is keyed by object identity; the per-evaluation context is created by the top-level evaluation only and does
    not escape into module state.
R4  debug / export options do not reach the analysis: they are not arguments of analysis calls, analysis calls are not
    control-dependent on them, and `debug` flags inside the analysis guard logging only.
"""
from __future__ import annotations

import ast
from typing import Any, List, Optional, Set, Tuple

from ..cfg import cfg_of
from ..flow import flow_of
from ..model import unparse, stmt_key, Func, AnchorError, f_cls
from ..taint import Forward
from . import sigflow
from .c02 import sink_rule, process_reads
from .common import Ctx, find_api_functions, ancestors, calls_to

PROP = "C03"
ANALYSIS = ("dds.introspect", "dds._introspect_indirect", "dds._retrieve_objects", "dds._eval_ctx", "dds._global_ctx", "dds.structures_utils", "dds.fun_args",
            "dds._lambda_funs", "dds.structures")
SANITISERS = {"sorted", "set", "frozenset", "len", "min", "max", "sum", "any", "all", "bool"}
KNOWN_STATE = {
    "dds.introspect._accepted_packages": "configuration (accepted modules)",
    "dds._config._options_values": "configuration (options)",
    "dds._api._store_var": "configuration (store)",
    "dds._api._eval_ctx": "marker of the running evaluation (reset on exit, C10)",
    "dds.codec._registry": "configuration (codec registry)",
    "dds._global_ctx._global_context": "process-wide analysis cache (judged by R3.i / R3.ii)",
}
MUTABLE_CTORS = ("dict", "OrderedDict", "defaultdict", "list", "set", "deque", "WeakKeyDictionary", "WeakValueDictionary", "Counter")


def run(ctx: Ctx) -> None:
    rep = ctx.report
    prog = ctx.prog
    types = ctx.types
    top, nested = find_api_functions(ctx)
    rep.rule("C03.R1", "no process-state source in sink slices; process-state reads confined to lookups of their function")
    rep.rule("C03.R2", "set-typed values consumed in order: sanitised, order-insensitive loop, or not reaching a sink / leaving the function")
    rep.rule("C03.R3", "global interaction cache: no writer; no identity-keyed process-wide memo; EvalMainContext does not escape")
    rep.rule("C03.R4", "debug / export options: not passed to, nor controlling, the analysis; debug flags guard logging only")

    n1 = sink_rule(ctx, "C03.R1", ("process",), "environment / process state in a signature")
    rep.floor("C03.R1", n1, 20)
    process_reads(ctx, "C03.R1", ANALYSIS)

    # ---- R2 -------------------------------------------------------------------------------
    n2 = 0
    for f in prog.funcs.values():
        if f.module.name not in ANALYSIS + ("dds._api",):
            continue
        for node in f.own_nodes():
            site = _order_site(ctx, f, node)
            if site is None:
                continue
            src, how = site
            n2 += 1
            desc = f"set-typed `{unparse(src, 40)}` consumed in order by {how}"
            par = f.module.parent.get(node)
            # (1) immediately sanitised
            if _sanitised(ctx, f, node):
                rep.ok("C03.R2", f.qname, desc + ": sanitised (sorted / set / len ...)", f.loc(node))
                continue
            # (2) statement-level loop with order-insensitive body
            if isinstance(node, (ast.For,)) and _insensitive_body(ctx, f, node):
                rep.ok("C03.R2", f.qname, desc + ": loop body is order-insensitive (set / mapping updates, recursion)", f.loc(node))
                continue
            # (3) the ordered value must not reach a sink nor leave the function
            root = f
            while root.parent is not None:
                root = root.parent
            fam = {q for q in prog.funcs if q == root.qname or q.startswith(root.qname + ".")}

            def is_sink(g, call, pos, kw):
                d = prog.dotted(g, call.func) or ""
                if d in sigflow.SINK_FUNCS or d in sigflow._digest_names(ctx):
                    return f"{d.split('.')[-1]} at {g.loc(call)}"
                return None

            fw = Forward(prog, types, is_sink=is_sink, funcs=fam)
            start: List[Tuple[Func, ast.AST, str]] = []
            if isinstance(node, ast.For):
                for t in ast.walk(node.target):
                    if isinstance(t, ast.Name):
                        for g, nm in fw.name_loads(f, t.id):
                            if any(nm is x for x in ast.walk(node)):
                                start.append((g, nm, "loop variable over a set"))
            else:
                start.append((f, node, "ordered view of a set"))
            hits = fw.run(start)
            if hits:
                rep.bad("C03.R2", f.qname, desc, f.loc(node), hits[0][1].chain(), stmt_key(node),
                        what="the iteration order of a set (hash-seed dependent for strings) reaches a signature")
            elif fw.escaped:
                rep.bad("C03.R2", f.qname, desc, f.loc(node), fw.escaped[0].chain() + ["the unsorted sequence leaves the function: its order differs between processes (PYTHONHASHSEED)"],
                        stmt_key(node), what="an unsorted view of a set leaves the function that made it")
            else:
                rep.ok("C03.R2", f.qname, desc + ": the ordered value stays local and reaches no sink", f.loc(node))
    rep.floor("C03.R2", n2, 2)

    # ---- R3 -------------------------------------------------------------------------------
    global_cache_rule(ctx, "C03.R3")
    from .c12 import passthrough_rules
    passthrough_rules(ctx, "C03.R3", only=["sync_paths", "fetch_paths"])
    # (ii) identity-keyed memos in the analysis modules
    n_state = 0
    for m in prog.modules.values():
        if m.name not in ANALYSIS:
            continue
        for name, sts in m.assigns.items():
            q = f"{m.name}.{name}"
            v = getattr(sts[0], "value", None)
            is_mut = isinstance(v, (ast.Dict, ast.List, ast.Set)) or (isinstance(v, ast.Call) and unparse(v.func).split(".")[-1] in MUTABLE_CTORS)
            if not is_mut:
                continue
            wr = []
            for f in prog.funcs.values():
                if f.module is not m:
                    continue
                for n in f.own_nodes():
                    if isinstance(n, ast.Subscript) and isinstance(n.ctx, ast.Store) and isinstance(n.value, ast.Name) and n.value.id == name and not prog.is_local(f, name):
                        wr.append((f, n, n.slice))
                    if isinstance(n, ast.Call) and isinstance(n.func, ast.Attribute) and isinstance(n.func.value, ast.Name) and n.func.value.id == name and not prog.is_local(f, name) \
                            and n.func.attr in ("setdefault", "update", "append", "add", "__setitem__") and n.args:
                        wr.append((f, n, n.args[0]))
            if not wr:
                continue
            n_state += 1
            if q in KNOWN_STATE:
                rep.ok("C03.R3", q, f"module-level state `{name}`: {KNOWN_STATE[q]}", m.relpath, nontrivial=False)
                continue
            f, w, key = wr[0]
            sl = ctx.slicer(follow_calls=False).slice(f, key)
            ident = None
            for it in sl.items:
                if isinstance(it.node, ast.Attribute) and it.node.attr in ("__code__", "__name__", "__qualname__", "__module__"):
                    ident = f".{it.node.attr}"
                if isinstance(it.node, ast.Call) and (prog.dotted(it.func, it.node.func) or "") in ("id", "hash", "inspect.unwrap"):
                    ident = ident or unparse(it.node.func) + "()"
                ty = sigflow.identity_type(ctx, it.func, it.node)
                if ty is not None:
                    ident = ident or f"value of type {ty}"
            desc = f"process-wide memo `{name}` written at {f.loc(w)} is keyed by content"
            if ident:
                rep.bad("C03.R3", q, desc, f.loc(w), [f"{f.loc(w)}: `{unparse(prog.enclosing_stmt(f.module, w), 80)}`", f"key `{unparse(key, 50)}` derives from {ident}: an identity, not the content",
                        "two definitions with equal identity / equal code object (an edit of a comment, a redefinition in a later cell) share the entry: the second is analysed from the first's source"],
                        f"memo:{name}", what=f"process-wide memo `{name}` keyed by object identity feeds the analysis")
            else:
                fns = types.fullnames(f.module.name, key) if hasattr(key, "lineno") else None
                if fns and set(fns) <= {"builtins.str", "builtins.bytes"}:
                    rep.ok("C03.R3", q, desc + " (text key)", f.loc(w))
                else:
                    rep.bad("C03.R3", q, desc, f.loc(w), [f"{f.loc(w)}: `{unparse(prog.enclosing_stmt(f.module, w), 80)}`",
                            f"key `{unparse(key, 50)}` (static type {types.describe(f.module.name, key) if hasattr(key, 'lineno') else '?'}) is compared with == / hash: values that are equal but "
                            "encode differently (1, 1.0, True; 0.0, -0.0) share the entry, so a result depends on which of them was seen first in this process"],
                            f"memo-eq:{name}", what=f"process-wide memo `{name}` keyed by value equality makes results depend on the history of the process")
        # memoising decorators on analysis functions
    for f in prog.funcs.values():
        if f.module.name in ANALYSIS:
            for dec in f.node.decorator_list:
                if any(k in unparse(dec) for k in ("lru_cache", "functools.cache", ".cache(")):
                    n_state += 1
                    rep.bad("C03.R3", f.qname, "analysis functions are not memoised across evaluations", f.loc(), [f"{f.loc()}: @{unparse(dec)} on {f.qname}: keyed by argument equality / identity for the life of the process"],
                            f"lru:{f.name}", what=f"{f.name} is memoised process-wide")
    # (iii) EvalMainContext escape
    emc = [(f, n) for f in prog.funcs.values() for n in f.own_nodes() if isinstance(n, ast.Call) and (prog.dotted(f, n.func) or "") == "dds._eval_ctx.EvalMainContext"]
    desc = "the per-evaluation context is created by the top-level evaluation function only and bound to a local"
    bad = [(f, n) for f, n in emc if f is not top]
    esc = []
    for f, n in emc:
        st = prog.enclosing_stmt(f.module, n)
        if isinstance(st, ast.Assign) and isinstance(st.targets[0], ast.Name):
            nm = st.targets[0].id
            if any(isinstance(g, ast.Global) and nm in g.names for g in f.own_nodes()):
                esc.append((f, st))
            globs = {g_ for gl in f.own_nodes() if isinstance(gl, ast.Global) for g_ in gl.names}
            for x in f.own_nodes():
                if isinstance(x, ast.Assign) and isinstance(x.value, ast.Name) and x.value.id == nm:
                    t0 = x.targets[0]
                    if isinstance(t0, ast.Attribute) or (isinstance(t0, ast.Name) and t0.id in globs):
                        esc.append((f, x))
        elif not isinstance(st, (ast.Assign, ast.AnnAssign)):
            pass
    if bad or esc:
        rep.bad("C03.R3", top.qname, desc, (bad or esc)[0][0].loc((bad or esc)[0][1]), [f"{f.loc(n)}: {unparse(n, 70)}" for f, n in bad + esc], "emc-escape",
                what="the evaluation context (its per-evaluation caches) outlives or is shared between evaluations")
    elif emc:
        rep.ok("C03.R3", top.qname, desc, emc[0][0].loc(emc[0][1]))
    else:
        rep.unknown("C03.R3", top.qname, "EvalMainContext construction not found", top.loc())

    # ---- R4 -------------------------------------------------------------------------------
    opt_params = [p for p in top.params if any(k in p for k in ("debug", "export", "graph"))]
    analysis_calls = calls_to(ctx, top, ["dds.introspect.introspect", "dds._introspect_indirect.introspect_indirect", "dds.fun_args.get_arg_ctx"])
    analysis_calls += [n for n in top.own_nodes() if isinstance(n, ast.Call) and (prog.dotted(top, n.func) or "").endswith("EvalMainContext")]
    n4 = 0
    for c in analysis_calls:
        n4 += 1
        wit = []
        for a in list(c.args) + [k.value for k in c.keywords]:
            sl = ctx.slicer(follow_calls=False).slice(top, a)
            for p in opt_params:
                if sl.has_param(top, p):
                    wit.append(f"argument `{unparse(a, 40)}` derives from the option `{p}`")
        for anc in ancestors(top.module, c):
            if isinstance(anc, (ast.If, ast.IfExp, ast.While)):
                sl = ctx.slicer(follow_calls=False, through_compare=True).slice(top, anc.test)
                for p in opt_params:
                    if sl.has_param(top, p):
                        wit.append(f"{top.loc(anc)}: the call is control-dependent on `{unparse(anc.test, 40)}` (option `{p}`)")
                if any(isinstance(x, ast.Call) and unparse(x.func).endswith("get_option") for x in ast.walk(anc.test)):
                    wit.append(f"{top.loc(anc)}: the call is control-dependent on an option read `{unparse(anc.test, 40)}`")
        desc = f"analysis call `{unparse(c, 40)}` neither receives nor is controlled by the debug / export options {opt_params}"
        if wit:
            rep.bad("C03.R4", top.qname, desc, top.loc(c), wit, stmt_key(c), what="debugging / graph-export options influence the analysis (signatures differ with the option)")
        else:
            rep.ok("C03.R4", top.qname, desc, top.loc(c))
    rep.floor("C03.R4", n4, 3)
    for f in prog.funcs.values():
        if f.module.name not in ANALYSIS:
            continue
        for n in f.own_nodes():
            if isinstance(n, ast.Call) and unparse(n.func).endswith("get_option"):
                arg = unparse(n.args[0]) if n.args else ""
                if "debug" in arg or "export" in arg:
                    rep.bad("C03.R4", f.qname, "the analysis does not read debugging options", f.loc(n), [f"{f.loc(n)}: {unparse(n)}"], stmt_key(n), what="the analysis reads a debugging option")
            if isinstance(n, ast.If) and isinstance(n.test, ast.Name) and n.test.id == "debug" and "debug" in f.params:
                n4 += 1
                only_log = all(isinstance(st, ast.Expr) and isinstance(st.value, ast.Call) and "_logger" in unparse(st.value.func) for st in n.body) and not n.orelse
                desc = f"`if debug:` in {f.name} guards logging only"
                if only_log:
                    rep.ok("C03.R4", f.qname, desc, f.loc(n), nontrivial=False)
                else:
                    rep.bad("C03.R4", f.qname, desc, f.loc(n), [f"{f.loc(n)}: the branch does more than logging"], stmt_key(n), what="a debug flag changes what the analysis computes")

    # ---- R7: no mutable class attribute shared by all the instances of an analysis class -------------------------------
    rep.rule("C03.R7", "the classes of the analysis modules hold no mutable container at class level that their methods fill through `self` (it would be one "
                       "object for the whole process: what one evaluation records changes the next one)")
    n7 = 0
    for c_ in prog.classes.values():
        if c_.module.name not in ANALYSIS and c_.module.name not in ("dds._eval_ctx", "dds._global_ctx", "dds._retrieve_objects"):
            continue
        for st in c_.node.body:
            tgt = None
            if isinstance(st, ast.Assign) and len(st.targets) == 1 and isinstance(st.targets[0], ast.Name):
                tgt, val = st.targets[0].id, st.value
            elif isinstance(st, ast.AnnAssign) and isinstance(st.target, ast.Name) and st.value is not None:
                tgt, val = st.target.id, st.value
            if tgt is None:
                continue
            mutable = isinstance(val, (ast.Dict, ast.List, ast.Set)) or (isinstance(val, ast.Call) and unparse(val.func).split(".")[-1] in ("set", "dict", "list", "OrderedDict", "defaultdict", "deque"))
            if not mutable:
                continue
            n7 += 1
            rebinds = any(isinstance(x, (ast.Assign, ast.AnnAssign)) and any(isinstance(t, ast.Attribute) and t.attr == tgt and isinstance(t.value, ast.Name) and t.value.id == "self"
                                                                          for t in (x.targets if isinstance(x, ast.Assign) else [x.target]))
                          for m_ in c_.methods.values() if m_.name == "__init__" for x in m_.own_nodes())
            fills = [(m_, x) for m_ in c_.methods.values() for x in m_.own_nodes()
                     if (isinstance(x, ast.Call) and isinstance(x.func, ast.Attribute) and x.func.attr in ("add", "append", "update", "setdefault", "extend", "insert", "pop", "clear")
                         and isinstance(x.func.value, ast.Attribute) and x.func.value.attr == tgt)
                     or (isinstance(x, ast.Subscript) and isinstance(x.ctx, (ast.Store, ast.Del)) and isinstance(x.value, ast.Attribute) and x.value.attr == tgt)]
            desc = f"{c_.name}.{tgt}: a container defined in the class body is not filled through `self`"
            if fills and not rebinds:
                m0, x0 = fills[0]
                rep.bad("C03.R7", c_.qname, desc, c_.module.relpath + f":{st.lineno}", [f"{c_.module.relpath}:{st.lineno}: `{unparse(st, 60)}` is evaluated once, when the class is created",
                        f"{m0.loc(x0)}: `{unparse(x0, 60)}` fills that single object from every instance",
                        "a name rejected while analysing one module is skipped in every later analysis of the process: a tracked variable of the same name in another module is no "
                        "longer hashed, so the signature differs from the one a fresh process computes"], f"class-container:{c_.name}.{tgt}", what="state of the analysis is shared by all evaluations of the process through a class attribute")
            else:
                rep.ok("C03.R7", c_.qname, desc, c_.module.relpath + f":{st.lineno}")
    rep.info("C03.R7", "dds", f"{n7} class-level container(s) in the analysis classes", "dds/")

    # ---- R8: the working directory never enters a path -----------------------------------------------------------------
    rep.rule("C03.R8", "`Path.absolute()` / `os.path.abspath` / `.resolve()` on a store path given by the user is reached only under the outcome `is_absolute()` "
                       "(a relative path must be refused, not completed with the working directory: it is hashed into the signatures of its readers)")
    n8 = 0
    pu = prog.cls("dds.structures_utils.DDSPathUtils")
    if pu is None:
        raise AnchorError("dds.structures_utils.DDSPathUtils not found")
    for m_ in pu.methods.values():
        mcfg = cfg_of(m_)
        absolute_T = [b for b in mcfg.nodes if b.kind == "branch" and b.label == "T" and isinstance(b.ast, ast.Call) and isinstance(b.ast.func, ast.Attribute) and b.ast.func.attr == "is_absolute"]
        for x in m_.own_nodes():
            if isinstance(x, ast.Call) and ((isinstance(x.func, ast.Attribute) and x.func.attr in ("absolute", "resolve", "abspath", "realpath", "cwd")) or unparse(x.func) in ("os.getcwd",)):
                par = m_.module.parent.get(x)
                n8 += 1
                desc = f"`{unparse(x, 40)}` completes a path only after `is_absolute()` was seen to hold"
                from .common import dominated as _dom8
                w = _dom8(ctx, m_, x, absolute_T) if absolute_T else [f"{m_.loc(x)}: no `is_absolute()` test in {m_.name}"]
                if w is not None:
                    # the test may be held in a local (`ok = p.is_absolute()` ... `if not ok: raise`): no path reaches the call in a world where
                    # the path is relative
                    from ..propdom import feasible_path as _fp8
                    an8 = lambda e: "<is_absolute>" if isinstance(e, ast.Call) and isinstance(e.func, ast.Attribute) and e.func.attr == "is_absolute" else None  # noqa: E731
                    has_test = any(an8(y) for y in m_.own_nodes())
                    if has_test and _fp8(prog, m_, mcfg, mcfg.nodes_of(x), {"<is_absolute>": False}, an8) is None:
                        w = None
                if w is None:
                    rep.ok("C03.R8", m_.qname, desc, m_.loc(x))
                else:
                    rep.bad("C03.R8", m_.qname, desc, m_.loc(x), w + ["a relative pathlib.Path store path is accepted and made absolute against the working directory: the signature of every "
                            "function that loads it differs between two working directories"], stmt_key(x), what="the working directory enters a store path")
    n8 += store_paths_lexical(ctx, "C03.R8")
    rep.floor("C03.R8", n8, 1)

    # ---- R6: no text form of a value of unknown type is hashed --------------------------------------------------------
    rep.rule("C03.R6", "in the value hasher a `str(x)` / `repr(x)` whose result is HASHED (first argument of a recursive hasher call or of a digest helper) is taken "
                       "under an isinstance test of x that names types with a deterministic text (dates, paths): the text of a set / frozenset / arbitrary "
                       "object depends on the hash seed or on addresses")
    from .c05 import hasher as _hasher5, family as _family5, fam_call as _fam_call5
    from .roles import is_digest_call as _is_dc6
    _hasher5(ctx)
    n6 = 0
    for g_ in _family5(ctx):
        fl6 = flow_of(prog, g_)
        gcfg = cfg_of(g_)
        for c in g_.own_nodes():
            if not (isinstance(c, ast.Call) and c.args and (_fam_call5(ctx, g_, c) is not None or _is_dc6(ctx, g_, c))):
                continue
            from .c05 import hashed_arg as _hashed_arg6
            a0 = _hashed_arg6(ctx, g_, c) if _fam_call5(ctx, g_, c) is not None else c.args[0]
            if a0 is None:
                continue
            texts = []
            # (the text may be encoded on the way: `hashlib.sha256(s.encode('utf-8'))` where a helper was expanded in place)
            while isinstance(a0, ast.Call) and isinstance(a0.func, ast.Attribute) and a0.func.attr == "encode":
                a0 = a0.func.value
            if isinstance(a0, ast.Call) and isinstance(a0.func, ast.Name) and a0.func.id in ("str", "repr") and a0.args:
                texts.append((a0, a0))
            elif isinstance(a0, ast.Name):
                for d in fl6.defs_of_use(a0):
                    v = d.value
                    if isinstance(v, ast.Call) and isinstance(v.func, ast.Name) and v.func.id in ("str", "repr") and v.args:
                        texts.append((v, d.stmt))
            for t_, where_ in texts:
                n6 += 1
                operand = t_.args[0]
                guards = [b for b in gcfg.nodes if b.kind == "branch" and b.label == "T" and isinstance(b.ast, ast.Call) and unparse(b.ast.func) == "isinstance" and len(b.ast.args) == 2
                          and unparse(b.ast.args[0]) == unparse(operand) and "str" != unparse(b.ast.args[1])]
                desc = f"`{unparse(t_, 30)}` (hashed by `{unparse(c, 40)}`) is the text of a value of a type with a deterministic text"
                from .common import dominated as _dom6
                if guards and _dom6(ctx, g_, where_, guards) is None:
                    rep.ok("C03.R6", g_.qname, desc, g_.loc(c))
                else:
                    rep.bad("C03.R6", g_.qname, desc, g_.loc(c), [f"{g_.loc(where_)}: `{unparse(where_, 60)}` is not under an isinstance test of `{unparse(operand)}`",
                            "a dict with a frozenset key is then hashed through str(frozenset(..)), whose element order follows PYTHONHASHSEED: the same program has different "
                            "signatures in two processes (and {1: v} collides with {'1': v})"], stmt_key(c), what="the text form of an arbitrary value is hashed")
    rep.floor("C03.R6", n6, 2)
    # ... and an OPEN base class among these types (datetime.tzinfo: anybody may subclass it) has a text only if the subclass defines one
    rep.rule("C03.R12", "where the text form `repr(x)` of a value is hashed under a test that names an abstract base class (datetime.tzinfo), the default object text - "
                        "`<T object at 0x...>`, a memory address - is excluded first (`type(x).__repr__ is object.__repr__` leads to a coded error)")
    n12 = 0
    for g_ in _family5(ctx):
        gcfg = cfg_of(g_)
        for st in g_.own_nodes():
            def _types_text(t_: ast.AST) -> str:
                # the tuple of types may be a module-level constant of the hashing module
                if isinstance(t_, ast.Name) and not prog.is_local(g_, t_.id):
                    for a_ in g_.module.assigns.get(t_.id, []):
                        v_ = getattr(a_, "value", None)
                        if v_ is not None:
                            return unparse(v_, 400)
                return unparse(t_, 300)
            if not (isinstance(st, ast.If) and any(isinstance(x, ast.Call) and unparse(x.func) == "isinstance" and len(x.args) == 2 and "tzinfo" in _types_text(x.args[1]) for x in ast.walk(st.test))):
                continue
            reprs = [x for b_ in st.body for x in ast.walk(b_) if isinstance(x, ast.Call) and isinstance(x.func, ast.Name) and x.func.id == "repr"]
            for r_ in reprs:
                n12 += 1
                guards = [b for b in gcfg.nodes if b.kind == "branch" and b.label == "F" and b.ast is not None and "__repr__" in unparse(b.ast, 200)]
                from .common import dominated as _dom12
                from ..propdom import excluding_branches as _exb12
                desc = f"`{unparse(r_, 30)}` is taken only for values whose type defines a text form"
                # the bad world: the object looked at exists and has the default text; no path to `repr(..)` may be possible in it
                world12 = {}
                for b in guards:
                    world12[unparse(b.ast)] = True
                    for y in ast.walk(b.ast):
                        if isinstance(y, ast.Name):
                            world12[f"{y.id} is None"] = False
                av12 = _exb12(prog, g_, gcfg, world12) if world12 else []
                guarded12 = bool(guards) and gcfg.find_path([gcfg.entry], gcfg.nodes_of(r_), avoid=av12) is None
                # the test may be held in a local (`has_text = tz is None or type(tz).__repr__ is not object.__repr__`, `if has_text: ... repr(..)`): read along the paths
                cmps12 = [x for x in g_.own_nodes() if isinstance(x, ast.Compare) and len(x.ops) == 1 and "__repr__" in unparse(x, 200) and "object.__repr__" in unparse(x, 200)]
                if cmps12 and not (guards and guarded12):
                    from ..propdom import feasible_path as _fp12
                    subj12 = {y.id for x in cmps12 for y in ast.walk(x) if isinstance(y, ast.Name) and y.id != "object" and y.id != "type"}

                    def _an12(e_: ast.AST) -> Optional[str]:
                        if isinstance(e_, ast.Compare) and len(e_.ops) == 1:
                            if any(e_ is x for x in cmps12) or ("__repr__" in unparse(e_, 200) and "object.__repr__" in unparse(e_, 200)):
                                return ("" if isinstance(e_.ops[0], (ast.Is, ast.Eq)) else "!") + "<default-text>"
                            if isinstance(e_.left, ast.Name) and e_.left.id in subj12 and isinstance(e_.comparators[0], ast.Constant) and e_.comparators[0].value is None:
                                return ("" if isinstance(e_.ops[0], (ast.Is, ast.Eq)) else "!") + f"<none:{e_.left.id}>"
                        return None
                    w12 = {"<default-text>": True}
                    for nm_ in subj12:
                        w12[f"<none:{nm_}>"] = False
                    if _fp12(prog, g_, gcfg, gcfg.nodes_of(r_), w12, _an12) is None:
                        guarded12 = True

                        class _G12:
                            ast = cmps12[0]
                        guards = [_G12()]  # type: ignore
                    else:
                        guards = []
                if guards and (guarded12 or _dom12(ctx, g_, r_, guards) is None):
                    rep.ok("C03.R12", g_.qname, desc, g_.loc(r_))
                    # ... and the text of a datetime / time includes the text of its time zone: the test looks at `<value>.tzinfo` too
                    n12 += 1
                    fl12 = flow_of(prog, g_)
                    looks = False
                    for b in guards:
                        for y in ast.walk(b.ast):
                            if isinstance(y, ast.Name):
                                try:
                                    ds12 = fl12.defs_of_use(y)
                                except Exception:
                                    ds12 = []
                                if any(d12.value is not None and "tzinfo" in unparse(d12.value, 200) and ("getattr" in unparse(d12.value, 200) or ".tzinfo" in unparse(d12.value, 200)) for d12 in ds12):
                                    looks = True
                            if isinstance(y, ast.Attribute) and y.attr == "tzinfo":
                                looks = True
                    d12b = "the text-form test covers the time zone held by a datetime / time value"
                    if looks:
                        rep.ok("C03.R12", g_.qname, d12b, g_.loc(r_))
                    else:
                        rep.bad("C03.R12", g_.qname, d12b, g_.loc(r_), [f"{g_.loc(r_)}: `repr(<datetime>)` contains `repr(<its tzinfo>)`; the guard `{unparse(guards[0].ast, 60)}` looks at the value's own type only",
                                "datetime.datetime(2020, 1, 1, tzinfo=TZ()) with `class TZ(datetime.tzinfo)` that defines no __repr__ is hashed from `...tzinfo=<pkg.TZ object at 0x7f..>`: the "
                                "signature differs from process to process"], "tz-inside-datetime", what="the memory address of a time zone object inside a datetime is hashed")
                else:
                    rep.bad("C03.R12", g_.qname, desc, g_.loc(r_), [f"{g_.loc(st)}: the branch accepts every subclass of datetime.tzinfo",
                            f"{g_.loc(r_)}: a subclass that defines no __repr__ is hashed from `<pkg.TZ object at 0x7f..>`: the signature differs between two processes, and between two equal "
                            "objects of one process"], stmt_key(r_), what="the default object text (a memory address) of a tzinfo subclass is hashed")
    rep.floor("C03.R12", n12, 1)

    # ---- R11: debugging options guard no state change ----------------------------------------------------------------
    rep.rule("C03.R11", "a block of the API module that runs only under a debugging option (extra_debug, graph export) assigns no module global, calls no mutating "
                        "Store method and does not return: signatures and results are the same with the option on or off")
    n11 = 0
    api_mod = prog.modules.get("dds._api")
    if api_mod is None:
        raise AnchorError("dds._api not found")
    for f in [g for g in prog.funcs.values() if g.module is api_mod]:
        globs = {nm for x in f.own_nodes() if isinstance(x, ast.Global) for nm in x.names}
        for st in f.own_nodes():
            if not isinstance(st, ast.If):
                continue
            t = unparse(st.test, 200)
            if not ("extra_debug" in t or "export_graph" in t):
                continue
            for (branch, label) in ((st.body, "on"), (st.orelse, "off")):
                if not branch:
                    continue
                n11 += 1
                wit = []
                for x in ast.walk(ast.Module(body=branch, type_ignores=[])):
                    if isinstance(x, (ast.Assign, ast.AugAssign, ast.AnnAssign)):
                        tgts = x.targets if isinstance(x, ast.Assign) else [x.target]
                        for tg in tgts:
                            if isinstance(tg, ast.Name) and tg.id in globs:
                                wit.append(f"{f.loc(x)}: `{unparse(x, 70)}` assigns the module global `{tg.id}` only when the option is {label}")
                    elif isinstance(x, ast.Call) and isinstance(x.func, ast.Attribute) and x.func.attr in ("store_blob", "sync_paths"):
                        wit.append(f"{f.loc(x)}: `{unparse(x, 70)}` changes the store only when the option is {label}")
                    elif isinstance(x, ast.Return):
                        wit.append(f"{f.loc(x)}: the function returns here only when the option is {label}")
                desc = f"the block under `{t[:40]}` ({label}) changes no state of the evaluation"
                if wit:
                    rep.bad("C03.R11", f.qname, desc, f.loc(st), wit + ["with the option in its other position the evaluation context / the store is left as it was: nested keeps look their "
                            "key up in a map that was never published (KeyError) or the evaluation behaves differently"], stmt_key(st) + label,
                            what="a debugging option decides whether evaluation state is updated")
                else:
                    rep.ok("C03.R11", f.qname, desc, f.loc(st))
    rep.floor("C03.R11", n11, 2)

    # ---- R10: sibling call sites ------------------------------------------------------------------------------------
    from .common import sibling_call_sites
    rep.rule("C03.R10", "the call inspector is handed the body hash, the input signature and the signature of the previous interactions in the same parameters by every "
                        "visitor method that calls it (calls by name and plain calls are keyed alike)")
    n10 = sibling_call_sites(ctx, "C03.R10", ("dds.introspect.InspectFunction.inspect_call", "dds._introspect_indirect.InspectFunctionIndirect.inspect_call",
                                              "dds.introspect.InspectFunction.inspect_fun", "dds._introspect_indirect.InspectFunctionIndirect.inspect_fun"),
                             "the context key of a function referenced by name (`map(f, xs)`, `sorted(v, key=f)`) binds the two hashes to the wrong labels: every signature at or above such "
                             "a reference differs from the pinned one")
    rep.floor("C03.R10", n10, 2)

    # ---- R9: pinned encodings ----------------------------------------------------------------------------------------
    from .c05 import pinned_preimages
    rep.rule("C03.R9", "signatures of a pinned table of values stay byte-identical: abstract evaluation of dds_hash gives, for each value, the bytes pinned in "
                       "ddsverif/pinned_hashes.py (boundaries of the integer encodings, floats, booleans, text, None, sequences, mappings)")
    n9 = pinned_preimages(ctx, "C03.R9")
    rep.floor("C03.R9", n9, 25)
    from .common import kinds_not_confused
    rep.rule("C03.R13", "as C14.R12: the per-evaluation memo of variable hashes is keyed by the canonical path of the variable (names, canonical paths, store paths and signatures "
                        "are not used in place of one another - mypy): with a memo keyed by the local name, the hash of a variable depends on which same-named variable of another "
                        "module the evaluation happened to meet first, i.e. on the prior sequence of evaluations")
    n13 = kinds_not_confused(ctx, "C03.R13", ("dds.introspect", "dds._introspect_indirect", "dds._retrieve_objects", "dds._eval_ctx"),
                             "two accepted modules each define THRESHOLD: the signature of a function of the second one is computed from the value of the first one's variable, and changes "
                             "with the order in which the evaluation met them")
    rep.floor("C03.R13", n13, 3)
    from .c01 import tracked_type_table
    rep.rule("C03.R14", "as C01.R4: each structural option (accept_list / accept_dict) governs its own types only: the signature of a function that reads a dict variable does not "
                        "depend on the option of the lists")
    tracked_type_table(ctx, "C03.R14")
    if rep.prop == "C03":
        from .common import share_rules as _sr3
        _sr3(ctx, "C13", "C03.R18", ["C13.R12"], "a call with literal arguments only is keyed by its arguments, not by its call site: the binder gives a *args parameter the hash of its "
             "values whenever all of them are constants (no value at all included): the same call made from two pipelines has one signature")
    if rep.prop == "C03":
        from .common import share_rules
        share_rules(ctx, "C09", "C03.R17", ["C09.R2"], "a path produced during the analysis is registered with the return signature of its producer - the key the store records: a reader "
                    "gets the same signature whether producer and reader are evaluated together or one after the other (prior sequence of evaluations)")
    rep.rule("C03.R21", "the variables of the interactive session are consulted only when the code being resolved lives in `__main__` / `__global__` (independence of the prior history of the process)")
    n21 = session_globals_only_for_main(ctx, "C03.R21")
    rep.floor("C03.R21", n21, 2)
    rep.rule("C03.R19", "no name taken from the BODY of an analysed function is ever imported as a module: what `importlib.import_module(<name>)` finds depends on sys.path - the working "
                        "directory first - so a directory that happens to be called like a lambda parameter or a builtin would enter the signature")
    n19 = no_import_by_body_name(ctx, "C03.R19")
    rep.floor("C03.R19", n19, 1)
    from .c05 import dict_order_insensitive
    rep.rule("C03.R16", "the signature of a dictionary argument is the same in every process and for every hash seed: equal plain dictionaries are hashed in a canonical order of their "
                        "items, not in insertion order (which, for a dictionary built from a set, follows the hash seed)")
    n16 = dict_order_insensitive(ctx, "C03.R16")
    rep.floor("C03.R16", n16, 1)
    from .c05 import pinned_combinations
    rep.rule("C03.R15", "the order-insensitive combiner renders the combined number as pinned (abstract evaluation of dds_hash_commut on a table of pair lists, among them lists whose "
                        "exclusive-or starts with zero digits)")
    n15 = pinned_combinations(ctx, "C03.R15")
    rep.floor("C03.R15", n15, 6)

    # ---- R5: argument values are hashed from their own content only ----------------------------------------------
    from .c05 import hasher, all_branches, dataclass_field_source
    rep.rule("C03.R5", "the value hasher takes the components of a dataclass from dataclasses.fields(): no class-level state (ClassVar pseudo-fields, "
                       "__dict__, dir()) enters an argument's hash")
    hasher(ctx)
    n5 = 0
    for names, br, hh in all_branches(ctx):
        if "<dataclass>" in names:
            n5 += 1
            w5 = dataclass_field_source(hh, br)
            desc = "dataclass arguments are hashed from their declared fields only"
            if w5:
                rep.bad("C03.R5", hh.qname, desc, hh.loc(br), w5, "dataclass-fields", what="class-level state of a dataclass enters the hash of its instances")
            else:
                rep.ok("C03.R5", hh.qname, desc, hh.loc(br))
    rep.floor("C03.R5", n5, 1)
    if ctx.report.prop == "C03":
        from .common import share_rules as _share8
        _share8(ctx, "C13", "C03.R20", ['C13.R1'], 'the run-time binder takes every argument that was given, whatever its value (a keyword argument None is an argument): the signature of a kept call launched directly equals the one computed when the same call is met in source')


def store_paths_lexical(ctx: Ctx, rule: str) -> int:
    """a store path is made from the text the user gave: the path utilities never ask the file system (`resolve()`, `realpath`,
    `expanduser`, `samefile`, `readlink`): what they return depends on the links and directories that exist where the process runs, and
    `resolve()` folds '..' segments away before the store can refuse them"""
    rep = ctx.report
    pu = ctx.prog.cls("dds.structures_utils.DDSPathUtils")
    if pu is None:
        raise AnchorError("dds.structures_utils.DDSPathUtils not found")
    n = 0
    for m_ in pu.methods.values():
        n += 1
        hits = [x for x in m_.own_nodes() if isinstance(x, ast.Call) and isinstance(x.func, ast.Attribute) and x.func.attr in ("resolve", "realpath", "expanduser", "samefile", "readlink", "expandvars")]
        desc = f"{m_.name} builds the store path from the given text only"
        if hits:
            rep.bad(rule, m_.qname, desc, m_.loc(hits[0]), [f"{m_.loc(hits[0])}: `{unparse(hits[0], 50)}` consults the file system",
                    "Path('/q/../t') and '/t' become one store path (the local store's refusal of '..' segments never triggers), a path that goes through a local symbolic link is "
                    "renamed to the link's target: the signature of every reader depends on the machine"], stmt_key(hits[0]), what="a store path is resolved against the local file system")
        else:
            rep.ok(rule, m_.qname, desc, m_.loc())
    return n


def global_cache_rule(ctx: Ctx, rule: str) -> None:
    """the process-wide cache whose entries are returned as analysis results has no writer"""
    rep = ctx.report
    prog = ctx.prog
    types = ctx.types
    gc = prog.cls("dds._global_ctx.GlobalContext")
    if gc is None:
        raise AnchorError("dds._global_ctx.GlobalContext not found")
    attrs = []
    init = gc.methods.get("__init__")
    if init is not None:
        for n in init.own_nodes():
            if isinstance(n, (ast.Assign, ast.AnnAssign)):
                t = n.targets[0] if isinstance(n, ast.Assign) else n.target
                if isinstance(t, ast.Attribute):
                    attrs.append(t.attr)
    writers = {a: [] for a in attrs}
    readers = {a: [] for a in attrs}
    for f in prog.funcs.values():
        if f_cls(f) is gc:
            continue
        for n in f.own_nodes():
            if isinstance(n, ast.Attribute) and n.attr in attrs:
                rc = types.receiver_class(f.module.name, n.value)
                if rc is not None and rc != gc.qname:
                    continue
                if rc is None and not (isinstance(n.value, ast.Name) and n.value.id == "_global_context"):
                    continue
                par = f.module.parent.get(n)
                if isinstance(par, ast.Subscript) and isinstance(par.ctx, (ast.Store, ast.Del)):
                    writers[n.attr].append((f, par))
                elif isinstance(par, ast.Attribute) and par.attr in ("update", "setdefault", "pop", "clear", "__setitem__"):
                    writers[n.attr].append((f, par))
                elif isinstance(par, (ast.Assign,)) and n in par.targets:
                    writers[n.attr].append((f, par))
                else:
                    readers[n.attr].append((f, n))
    # the cache whose values are *returned* as analysis results (the read value leaves the reading function by `return`)
    returned = []
    for a in attrs:
        for f, n in readers[a]:
            par = f.module.parent.get(n)
            if isinstance(par, ast.Attribute) and par.attr in ("get", "setdefault", "pop") and isinstance(f.module.parent.get(par), ast.Call):
                par = f.module.parent.get(par)  # the lookup call is the read
            elif not (isinstance(par, ast.Subscript) and isinstance(par.ctx, ast.Load)):
                continue
            root = f
            while root.parent is not None:
                root = root.parent
            fam = {q for q in prog.funcs if q == root.qname or q.startswith(root.qname + ".")}
            fw = Forward(prog, types, funcs=fam)
            fw.run([(f, par, f"entry of {a}")])
            if any(o.why.startswith("returned by") for o in fw.escaped):
                returned.append(a)
    for a in sorted(set(returned)):
        desc = f"the process-wide cache `{a}` whose entries are returned as analysis results has no writer"
        if writers[a]:
            f, w = writers[a][0]
            rep.bad(rule, f.qname, desc, f.loc(w), [f"{g.loc(x)}: {unparse(prog.enclosing_stmt(g.module, x), 80)}" for g, x in writers[a]] + [
                "the key is made of object identities of *functions*; a changed tracked variable does not alter it: stale interactions (signatures) are served within a process"],
                f"writer:{a}", what=f"the process-wide interaction cache `{a}` is written: earlier evaluations influence later signatures")
        else:
            rep.ok(rule, gc.qname, desc, gc.module.relpath)
    # what an earlier evaluation recorded in a process-wide cache is not used to resolve objects now: the names a function
    # depended on when it was analysed before may be gone (helper deleted, function redefined in a later notebook cell)
    for a in attrs:
        if not writers[a]:
            continue
        for f, n in readers[a]:
            par = f.module.parent.get(n)
            if isinstance(par, ast.Attribute) and par.attr in ("get", "setdefault", "pop") and isinstance(f.module.parent.get(par), ast.Call):
                par = f.module.parent.get(par)
            elif not (isinstance(par, ast.Subscript) and isinstance(par.ctx, ast.Load)):
                continue
            root = f
            while root.parent is not None:
                root = root.parent
            fam = {q for q in prog.funcs if q == root.qname or q.startswith(root.qname + ".")}

            def is_sink(g, call, pos, kw):
                fs_, d_ = prog.callees(g, call, types)
                names_ = [x.qname for x in fs_] + ([d_] if d_ else [])
                if any("retrieve_object" in x for x in names_):
                    return f"resolver call at {g.loc(call)}"
                return None

            fw = Forward(prog, types, is_sink=is_sink, funcs=fam)
            hits = fw.run([(f, par, f"entry of the process-wide cache {a} (recorded by an earlier evaluation)")])
            desc = f"the entries of `{a}` recorded by earlier evaluations are not resolved again"
            if hits:
                w0 = writers[a][0]
                rep.bad(rule, f.qname, desc, f.loc(par), hits[0][1].chain() + [f"{w0[0].loc(w0[1])}: `{unparse(w0[1], 60)}` records the dependencies of the function as they were when it was analysed",
                        "history: evaluate f (which calls helper), delete helper and redefine f without it (a later notebook cell): the next evaluation resolves the recorded "
                        "name `helper` and raises `Cannot load path`, where a fresh process evaluates f"], f"stale-resolve:{a}",
                        what=f"dependencies recorded in the process-wide cache `{a}` by an earlier evaluation are resolved again: a redefined function cannot be evaluated any more")
            else:
                rep.ok(rule, f.qname, desc, f.loc(par))
    control = [a for a in attrs if writers[a]]
    rep.floor(rule + ".control(writers of other caches)", len(control), 1)
    if not returned:
        nread = sum(len(v) for v in readers.values())
        rep.ok(rule, gc.qname, f"no entry of a process-wide cache ({', '.join(attrs)}) is returned as an analysis result ({nread} read(s) outside the class, none of them returned)",
               gc.module.relpath)


def _order_site(ctx: Ctx, f: Func, node: ast.AST) -> Optional[Tuple[ast.AST, str]]:
    """(set-typed expression, consumer description) when node consumes a set in an order-sensitive way"""
    t = ctx._types
    m = f.module.name

    def is_set(e: ast.AST) -> bool:
        return t.is_set(m, e) is True

    if isinstance(node, ast.For) and is_set(node.iter):
        return node.iter, "a for loop"
    if isinstance(node, (ast.ListComp, ast.GeneratorExp, ast.DictComp)) and node.generators and is_set(node.generators[0].iter):
        return node.generators[0].iter, "a list / dict comprehension or generator"
    if isinstance(node, ast.Call):
        d = ctx.prog.dotted(f, node.func) or ""
        if d in ("list", "tuple", "enumerate", "zip", "iter", "next", "collections.OrderedDict", "dict.fromkeys", "reversed", "map", "filter") and node.args and is_set(node.args[0]):
            return node.args[0], f"{d}(...)"
        if isinstance(node.func, ast.Attribute) and node.func.attr == "join" and node.args and is_set(node.args[0]):
            return node.args[0], "str.join"
        if isinstance(node.func, ast.Attribute) and node.func.attr == "pop" and not node.args and is_set(node.func.value):
            return node.func.value, "set.pop()"
    if isinstance(node, ast.Starred) and is_set(node.value):
        return node.value, "star unpacking"
    return None


def _sanitised(ctx: Ctx, f: Func, node: ast.AST) -> bool:
    cur = node
    for _ in range(3):
        par = f.module.parent.get(cur)
        if isinstance(par, ast.Call) and cur in par.args:
            d = ctx.prog.dotted(f, par.func) or ""
            if d in SANITISERS:
                return True
            if d in ("list", "tuple", "iter"):
                cur = par
                continue
        if isinstance(par, ast.Compare):
            return True
        break
    return False


def session_globals_only_for_main(ctx: Ctx, rule: str) -> int:
    """The variables of the interactive session (`gctx.start_globals`: the namespace of the notebook / of `__main__`) are consulted only for code that lives in that namespace:
    every read of them in the resolver is unreachable when the module being resolved is not `__main__` / `__global__`.  Else an unresolved name of a LIBRARY function (a
    lambda parameter, a builtin) is resolved against whatever the user defined in earlier cells: the signature depends on the history of the session."""
    from ..propdom import feasible_path
    rep = ctx.report
    prog = ctx.prog
    n = 0

    resolver_mod = prog.modules.get("dds._retrieve_objects")

    def consts_of(x: ast.AST, depth: int = 0) -> set:
        if isinstance(x, ast.Constant):
            return {x.value}
        if isinstance(x, (ast.Tuple, ast.List, ast.Set)):
            out = set()
            for y in x.elts:
                out |= consts_of(y, depth)
            return out
        if isinstance(x, ast.Name) and depth < 3 and resolver_mod is not None:
            out = set()
            for st in resolver_mod.assigns.get(x.id, []):
                v = getattr(st, "value", None)
                if v is not None:
                    out |= consts_of(v, depth + 1)
            return out or {f"<{x.id}>"}
        return {"<?>"}

    def atom(e: ast.AST) -> Optional[str]:
        if isinstance(e, ast.Compare) and len(e.ops) == 1 and isinstance(e.ops[0], (ast.In, ast.NotIn)) and isinstance(e.comparators[0], (ast.Tuple, ast.List, ast.Set, ast.Name)):
            cs = consts_of(e.comparators[0])
            if "__main__" in cs and cs <= {"__main__", "__global__"}:
                return ("" if isinstance(e.ops[0], ast.In) else "!") + "<session-scope>"
        if isinstance(e, ast.Compare) and len(e.ops) == 1 and isinstance(e.ops[0], (ast.Eq, ast.NotEq)) and isinstance(e.comparators[0], ast.Constant) and e.comparators[0].value == "__main__":
            return ("" if isinstance(e.ops[0], ast.Eq) else "!") + "<session-scope>"
        return None
    for f in prog.funcs.values():
        if f.module.name != "dds._retrieve_objects":
            continue
        reads = [x for x in f.own_nodes() if isinstance(x, ast.Attribute) and x.attr == "start_globals" and isinstance(x.ctx, ast.Load)]
        if not reads:
            continue
        cfg = cfg_of(f)
        for x in reads:
            n += 1
            st = prog.enclosing_stmt(f.module, x)
            desc = f"{f.name}: `{unparse(x, 40)}` is read only for names of the session's own namespace"
            p_ = feasible_path(prog, f, cfg, cfg.nodes_of(st), {"<session-scope>": False}, atom) if any(atom(y) for y in f.own_nodes()) else [cfg.entry]
            if p_ is None:
                rep.ok(rule, f.qname, desc, f.loc(x))
            else:
                rep.bad(rule, f.qname, desc, f.loc(x), [f"{f.loc(x)}: reached also when the module being resolved is not `__main__` / `__global__`",
                        "in a notebook, `row = 5` in one cell changes the signature of an accepted library function whose lambda has a parameter `row`; `del row` changes it back: the "
                        "signature of the same source depends on the cells run before"], "session-globals-for-library", what="names of library code are resolved against the variables of the interactive session")
    return n


def no_import_by_body_name(ctx: Ctx, rule: str) -> int:
    """Every `importlib.import_module(X)` of the resolver module: X derives from a canonical path (the name of a module object the resolver already holds) - not from a
    local dependency path, which is spelled from the names met in a function body."""
    rep = ctx.report
    prog = ctx.prog
    n = 0
    for f in prog.funcs.values():
        if f.module.name != "dds._retrieve_objects":
            continue
        a = f.node.args
        ann = {x.arg: (unparse(x.annotation, 100) if x.annotation is not None else "") for x in a.posonlyargs + a.args + a.kwonlyargs}
        body_params = {p_ for p_, t in ann.items() if "LocalDepPath" in t}
        fl = flow_of(prog, f)
        for c in f.own_nodes():
            if not (isinstance(c, ast.Call) and (prog.dotted(f, c.func) or unparse(c.func)).endswith("import_module") and c.args):
                continue
            n += 1
            x = c.args[0]
            srcs = [x]
            if isinstance(x, ast.Name):
                try:
                    srcs = [d.value for d in fl.root_defs(x) if d.value is not None] or [x]
                except Exception:
                    srcs = [x]
            from_body = sorted({y.id for s_ in srcs for y in ast.walk(s_) if isinstance(y, ast.Name) and y.id in body_params})
            desc = f"{f.name}: `{unparse(c, 50)}` imports a module the resolver knows by its canonical name"
            if not from_body:
                rep.ok(rule, f.qname, desc, f.loc(c))
            else:
                rep.bad(rule, f.qname, desc, f.loc(c), [f"{f.loc(c)}: the name comes from `{from_body[0]}` (a {ann[from_body[0]]}: the names written in the body of the analysed function)",
                        "`sum(map(lambda row: row + 1, xs))` analysed in a working directory that holds a directory `row/` (a namespace package for python): <row> becomes an external "
                        "dependency of the function, its signature differs from the one computed anywhere else (demo: /verif/findings/K9_cwd_directory_enters_signature.py)"],
                        "import-by-body-name", what="a name of a function body is looked up on sys.path: the working directory enters the signature")
    return n


def _insensitive_body(ctx: Ctx, f: Func, loop: ast.For) -> bool:
    def ok_stmt(st: ast.stmt) -> bool:
        if isinstance(st, ast.Expr) and isinstance(st.value, ast.Call):
            c = st.value
            if isinstance(c.func, ast.Attribute) and c.func.attr in ("add", "update", "discard"):
                return True
            if "_logger" in unparse(c.func):
                return True
            if isinstance(c.func, ast.Name):  # recursion / helper call used for its effect on set accumulators
                return True
            return False
        if isinstance(st, ast.If):
            return all(ok_stmt(s) for s in st.body + st.orelse)
        if isinstance(st, (ast.Raise, ast.Pass, ast.Continue)):
            return True
        if isinstance(st, ast.Assign) and isinstance(st.targets[0], ast.Subscript):
            return True
        return False

    return all(ok_stmt(s) for s in loop.body)
