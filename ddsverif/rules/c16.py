"""
C16 - every usable local-store configuration works; data directories are independent views.

R1  roots are made absolute before they are used in links.   R2  blob names depend on the internal directory only,
path entries on the data directory only; the link target is the absolute blob term.
R3  decode table of set_store("local", ...).   R4  = C07.R2 (pre-existing / missing / nested directories).
"""
import ast
from .common import Ctx
from . import storerules as S
from ..absint import Evaluator, Const, Sym, Obj, TOP, NOT_HANDLED
from ..model import AnchorError

PROP = "C16"


def run(ctx: Ctx) -> None:
    rep = ctx.report
    ctx.types
    v = S.LocalView(ctx)
    rep.analysed["store_class"] = v.cls.qname
    rep.rule("C16.R1", "root attributes used in link targets / path entries are wrapped in abspath / realpath in the constructor")
    rep.rule("C16.R2", "blob terms mention the internal root only, path-entry terms the data root only; link target == blob term")
    rep.rule("C16.R3", "abstract evaluation of set_store('local', internal_dir, data_dir, cache_objects)")
    rep.rule("C16.R4", "idempotent directory creation (C07.R2)")
    n1 = S.roots_absolute(ctx, v, "C16.R1")
    rep.floor("C16.R1", n1, 2)
    n2 = S.independent_views(ctx, v, "C16.R2")
    rep.floor("C16.R2", n2, 3)
    S.writer_reader_agree(ctx, v, "C16.R2")
    S.mkdir_idempotent(ctx, v, "C16.R4")
    from .c12 import cache_ownership
    rep.rule("C16.R7", "as C12.R2(ownership): the in-memory object cache of a store is built by that store and never handed to a store "
                       "over another (relative, re-resolved) internal directory")
    cache_ownership(ctx, "C16.R7")
    rep.rule("C16.R10", "as C07.R3: the temporary that is renamed into place is built beside its target (internal and data directories may be on different file systems)")
    S.unique_temporaries(ctx, v, "C16.R10")
    rep.rule("C16.R11", "every directory of the store is created by the constructor whatever the state of the other ones (fresh internal directory + pre-existing data directory)")
    S.dirs_created_unconditionally(ctx, v, "C16.R11")
    rep.rule("C16.R8", "presence and path queries are answered from the shared directories at call time, never from state of one store object "
                       "(stores sharing an internal directory see each other's blobs)")
    n8 = S.presence_from_fs(ctx, v, "C16.R8")
    rep.floor("C16.R8", n8, 3)
    rep.rule("C16.R9", "no raise of the store is guarded by `realpath(..) ==/!= <abspath-based location>` (directories reached through symbolic links stay usable)")
    S.no_resolved_vs_lexical_rejection(ctx, v, "C16.R9")
    rep.rule("C16.R6", "an existing path entry is kept only if its whole target equals the blob location under this store's internal directory")
    n6 = S.link_current_test(ctx, v, "C16.R6")
    rep.floor("C16.R6", n6, 0)
    decode_set_store_local(ctx, v)
    # a second data view of a shared internal directory gets all its paths: the complete map is committed even when
    # every blob is already present (cache hit)
    from .common import find_api_functions
    from .c04 import commit_rules
    rep.rule("C16.R5", "as C04.R1: the complete path map is committed on every evaluation, cache hit or not (each data view is complete)")
    top, _nested = find_api_functions(ctx)
    commit_rules(ctx, top, "C16.R5")


def decode_set_store_local(ctx: Ctx, v) -> None:
    rep = ctx.report
    prog = ctx.prog
    f = prog.funcs.get("dds._api.set_store")
    if f is None:
        raise AnchorError("dds._api.set_store not found")

    def oracle(name, args, kwargs, node):
        if name.endswith("_store") and not args:
            return Obj("current-store", [], {})
        if "gettempdir" in name:
            return Const("/tmp")
        if name.endswith("joinpath"):
            return Sym("default-dir", none=False, truthy=True, pytype=str)
        if name.endswith("_fetch_ipython_vars"):
            return {}
        return NOT_HANDLED

    n = 0
    bad, und = [], []
    for iname, ival in (("None", Const(None)), ("''", Const("")), ("'dir'", Sym("internal", none=False, truthy=True, pytype=str))):
        for dname, dval in (("None", Const(None)), ("''", Const("")), ("'dir'", Sym("data", none=False, truthy=True, pytype=str))):
            n += 1
            ev = Evaluator(prog, oracle=oracle)
            outs = ev.run(f, [Const("local"), ival, dval, Const(None), Const(None), Const(None)])
            for o in outs:
                ctor = [e for e in o.events if e.callee == v.cls.qname]
                if o.kind != "return" or len(ctor) != 1:
                    bad.append(f"internal_dir={iname}, data_dir={dname}: outcome {o!r}")
                    continue
                a = ctor[0].args
                for which, given, got in (("internal_dir", ival, a[0] if a else TOP), ("data_dir", dval, a[1] if len(a) > 1 else TOP)):
                    if isinstance(given, Sym):
                        if got is not given:
                            bad.append(f"{which} given but the store is built with {got!r}")
                    else:
                        if got is TOP:
                            und.append(f"{which}={given!r}: constructor argument not evaluated")
                        elif isinstance(got, Const) and not got.v:
                            bad.append(f"{which}={given!r} (missing) reaches the store as {got!r} instead of a default directory")
    desc = "missing internal_dir / data_dir are replaced by defaults; given ones reach the store unchanged"
    if bad:
        rep.bad("C16.R3", f.qname, desc, f.loc(), bad[:6], "local-dirs", what="set_store('local') does not build the store from the given / default directories")
    elif und:
        rep.unknown("C16.R3", f.qname, "set_store uses syntax outside the abstract evaluator", f.loc(), und[:4])
    else:
        rep.ok("C16.R3", f.qname, desc + f" ({n} combinations)", f.loc())
    # a Store instance together with a cache option is rejected
    ev = Evaluator(prog, oracle=oracle)
    outs = ev.run(f, [Obj("dds.store.MemoryStore", [], {}), Const(None), Const(None), Const(None), Const(None), Const(True)])
    desc = "a Store object together with cache_objects is rejected with a DDSException"
    if outs and all(o.kind == "raise" and o.exc and o.exc.exc_type == "DDSException" for o in outs):
        rep.ok("C16.R3", f.qname, desc, f.loc())
    else:
        rep.bad("C16.R3", f.qname, desc, f.loc(), [repr(o) for o in outs][:4], "store-and-cache", what="a Store object with a cache option is not rejected")
    rep.floor("C16.R3", n, 9)
