"""
C16 - every usable local-store configuration works; data directories are independent views.

R1  roots are made absolute before they are used in links.   R2  blob names depend on the internal directory only,
path entries on the data directory only; the link target is the absolute blob term.
R3  decode table of set_store("local", ...).   R4  = C07.R2 (pre-existing / missing / nested directories).
"""
import ast
from .common import Ctx
from . import storerules as S
from ..absint import Evaluator, Const, Sym, Obj, TOP, NOT_HANDLED
from ..model import AnchorError

PROP = "C16"


def run(ctx: Ctx) -> None:
    rep = ctx.report
    ctx.types
    v = S.LocalView(ctx)
    rep.analysed["store_class"] = v.cls.qname
    rep.rule("C16.R1", "root attributes used in link targets / path entries are wrapped in abspath / realpath in the constructor")
    rep.rule("C16.R2", "blob terms mention the internal root only, path-entry terms the data root only; link target == blob term")
    rep.rule("C16.R3", "abstract evaluation of set_store('local', internal_dir, data_dir, cache_objects)")
    rep.rule("C16.R4", "idempotent directory creation (C07.R2)")
    n1 = S.roots_absolute(ctx, v, "C16.R1")
    rep.floor("C16.R1", n1, 2)
    n2 = S.independent_views(ctx, v, "C16.R2")
    rep.floor("C16.R2", n2, 3)
    S.writer_reader_agree(ctx, v, "C16.R2")
    S.mkdir_idempotent(ctx, v, "C16.R4")
    from .c12 import cache_ownership
    rep.rule("C16.R7", "as C12.R2(ownership): the in-memory object cache of a store is built by that store and never handed to a store "
                       "over another (relative, re-resolved) internal directory")
    cache_ownership(ctx, "C16.R7")
    rep.rule("C16.R10", "as C07.R3: the temporary that is renamed into place is built beside its target (internal and data directories may be on different file systems)")
    S.unique_temporaries(ctx, v, "C16.R10")
    rep.rule("C16.R11", "every directory of the store is created by the constructor whatever the state of the other ones (fresh internal directory + pre-existing data directory)")
    S.dirs_created_unconditionally(ctx, v, "C16.R11")
    rep.rule("C16.R8", "presence and path queries are answered from the shared directories at call time, never from state of one store object "
                       "(stores sharing an internal directory see each other's blobs)")
    n8 = S.presence_from_fs(ctx, v, "C16.R8")
    rep.floor("C16.R8", n8, 3)
    rep.rule("C16.R9", "no raise of the store is guarded by `realpath(..) ==/!= <abspath-based location>` (directories reached through symbolic links stay usable)")
    S.no_resolved_vs_lexical_rejection(ctx, v, "C16.R9")
    rep.rule("C16.R6", "an existing path entry is kept only if its whole target equals the blob location under this store's internal directory")
    n6 = S.link_current_test(ctx, v, "C16.R6")
    rep.floor("C16.R6", n6, 0)
    decode_set_store_local(ctx, v)
    if rep.prop == "C16":
        from . import c12 as _c12
        rep.rule("C16.R13", "as C12.R1-R4: a store configured with cache_objects (True / n / negative / False / 0, as documented) round-trips like the bare store: the decoder of the option builds the wrapper it documents, and the wrapper answers like the wrapped store for every kind of value")
        before_ = len(rep.obligations)
        _c12.run(ctx)
        for o_ in rep.obligations[before_:]:
            o_.rule = "C16.R13/" + o_.rule
        for k_ in [k_ for k_ in rep.floors if k_.startswith("C12.")]:
            rep.floors["C16.R13/" + k_] = rep.floors.pop(k_)
    from .c17 import codec_duals as _cd16
    rep.rule("C16.R16", "as C17.R4/R5: keep followed by load round-trips under every usable configuration - what a view, a second view or another process reads back from the shared "
                        "internal directory is what was written (codecs are dual, binary mode)")
    _cd16(ctx, "C16.R16", "C16.R16")
    rep.rule("C16.R14", "sharing computed blobs between two data views never changes a value: has_blob answers True only when every name that fetch_blob reads (blob and metadata) exists")
    n14 = S.presence_requires_all(ctx, v, "C16.R14")
    rep.floor("C16.R14", n14, 2)
    rep.rule("C16.R15", "a data view is read whole: fetch_paths of every store answers every requested path (one mapping across the loop, returned after it) - as C08.R15 / C19.R14")
    n15 = S.every_path_answered(ctx, "C16.R15")
    rep.floor("C16.R15", n15, 2)
    rep.rule("C16.R12", "the implicit default store and set_store('local') without directories use the same default directories")
    n12 = default_dirs_agree(ctx, v, "C16.R12")
    rep.floor("C16.R12", n12, 2)
    # a second data view of a shared internal directory gets all its paths: the complete map is committed even when
    # every blob is already present (cache hit)
    from .common import find_api_functions
    from .c04 import commit_rules
    rep.rule("C16.R5", "as C04.R1: the complete path map is committed on every evaluation, cache hit or not (each data view is complete)")
    top, _nested = find_api_functions(ctx)
    commit_rules(ctx, top, "C16.R5")


def default_dirs_agree(ctx: Ctx, v, rule: str) -> int:
    """the store created implicitly on first use and the one `set_store('local')` creates without directories are built on the same
    default directories (a process that configures nothing and one that says 'local' share blobs and paths)"""
    from ..fsmodel import StoreModel, flatten, show
    rep = ctx.report
    prog = ctx.prog
    found = {}
    for q in ("dds._api._store", "dds._api.set_store"):
        f = prog.funcs.get(q)
        if f is None:
            raise AnchorError(f"{q} not found")
        sm = StoreModel.__new__(StoreModel)
        sm.prog, sm.cls, sm.types, sm.attr_defs, sm.attr_def_exprs, sm.ctor_params = prog, v.cls, ctx._types, {}, {}, []
        sm.expr_terms = {}
        env = {p_: ("sym", p_) for p_ in f.positional_params()}
        sm._walk(f.node.body, f, env, [], [], [], 0)
        for c in f.own_nodes():
            if isinstance(c, ast.Call) and (prog.dotted(f, c.func) or "") == v.cls.qname and len(c.args) >= 2:
                terms = []
                for a in c.args[:2]:
                    t = sm.expr_terms.get(id(a))
                    arms = list(t[1:]) if isinstance(t, tuple) and t and t[0] in ("phi", "bool") else [t]  # `given or default`
                    arms = [flatten(x) for x in arms if not (isinstance(x, tuple) and x and x[0] == "sym")]
                    terms.append(arms)
                found[q] = (f, c, terms)
    if len(found) != 2:
        rep.unknown(rule, "dds._api", f"construction of the default local store not found in {sorted(set(('dds._api._store', 'dds._api.set_store')) - set(found))}", "dds/_api.py")
        return 0
    (f1, c1, t1), (f2, c2, t2) = found["dds._api._store"], found["dds._api.set_store"]
    n = 0
    for i, which in enumerate(("internal directory", "data directory")):
        n += 1
        a, b = t1[i], t2[i]
        desc = f"the default {which} of the implicit store and of set_store('local') are the same"
        if len(a) == 1 and len(b) == 1 and a[0] is not None and b[0] is not None:
            if a[0] == b[0]:
                rep.ok(rule, f1.qname, desc + f" ({show(a[0])})", f1.loc(c1))
            else:
                rep.bad(rule, f1.qname, desc, f1.loc(c1), [f"{f1.loc(c1)}: implicit store: {show(a[0])}", f"{f2.loc(c2)}: set_store('local'): {show(b[0])}",
                        "a process that relies on the implicit store and one that calls dds.set_store('local') do not see each other's blobs / paths: each reads None for what the other kept"],
                        f"default-{i}", what=f"the two default local stores use different {which}s")
        else:
            rep.unknown(rule, f1.qname, f"default {which} not evaluated: {a} / {b}", f1.loc(c1))
    return n


def decode_set_store_local(ctx: Ctx, v, rule: str = "C16.R3") -> None:
    rep = ctx.report
    prog = ctx.prog
    f = prog.func("dds._api.set_store")
    if f is None:
        raise AnchorError("dds._api.set_store not found")

    def oracle(name, args, kwargs, node):
        if name.endswith("_store") and not args:
            return Obj("current-store", [], {})
        if "gettempdir" in name:
            return Const("/tmp")
        if name.endswith("joinpath"):
            return Sym("default-dir", none=False, truthy=True, pytype=str)
        if name.endswith("_fetch_ipython_vars"):
            return {}
        return NOT_HANDLED

    n = 0
    bad, und = [], []
    for iname, ival in (("None", Const(None)), ("''", Const("")), ("'dir'", Sym("internal", none=False, truthy=True, pytype=str))):
        for dname, dval in (("None", Const(None)), ("''", Const("")), ("'dir'", Sym("data", none=False, truthy=True, pytype=str))):
            n += 1
            ev = Evaluator(prog, oracle=oracle)
            outs = ev.run(f, [Const("local"), ival, dval, Const(None), Const(None), Const(None)])
            for o in outs:
                ctor = [e for e in o.events if e.callee == v.cls.qname]
                if o.kind != "return" or len(ctor) != 1:
                    bad.append(f"internal_dir={iname}, data_dir={dname}: outcome {o!r}")
                    continue
                a = ctor[0].args
                for which, given, got in (("internal_dir", ival, a[0] if a else TOP), ("data_dir", dval, a[1] if len(a) > 1 else TOP)):
                    if isinstance(given, Sym):
                        if got is not given:
                            bad.append(f"{which} given but the store is built with {got!r}")
                    else:
                        if got is TOP:
                            und.append(f"{which}={given!r}: constructor argument not evaluated")
                        elif isinstance(got, Const) and not got.v:
                            bad.append(f"{which}={given!r} (missing) reaches the store as {got!r} instead of a default directory")
    desc = "missing internal_dir / data_dir are replaced by defaults; given ones reach the store unchanged"
    if bad:
        rep.bad(rule, f.qname, desc, f.loc(), bad[:6], "local-dirs", what="set_store('local') does not build the store from the given / default directories")
    elif und:
        rep.unknown(rule, f.qname, "set_store uses syntax outside the abstract evaluator", f.loc(), und[:4])
    else:
        rep.ok(rule, f.qname, desc + f" ({n} combinations)", f.loc())
    # a Store instance together with a cache option is rejected
    ev = Evaluator(prog, oracle=oracle)
    outs = ev.run(f, [Obj("dds.store.MemoryStore", [], {}), Const(None), Const(None), Const(None), Const(None), Const(True)])
    desc = "a Store object together with cache_objects is rejected with a DDSException"
    if outs and all(o.kind == "raise" and o.exc and o.exc.exc_type == "DDSException" for o in outs):
        rep.ok(rule, f.qname, desc, f.loc())
    else:
        rep.bad(rule, f.qname, desc, f.loc(), [repr(o) for o in outs][:4], "store-and-cache", what="a Store object with a cache option is not rejected")
    rep.floor(rule, n, 9)
