"""
Signature sinks and interprocedural backward slices from them (shared by C01, C02, C03, C15).

A *signature sink* is an argument of the value hasher / the order-insensitive combiner / a hash key constructor
outside the hashing module itself, plus the fun_return_sig / fun_body_sig fields of the interaction record.
Slices follow explicit data flow only (comparisons end a chain), descend into package callees with call strings and
ascend from the root function to every caller.
"""
from __future__ import annotations

import ast
from typing import Any, Callable, Dict, List, Optional, Tuple

from ..flow import Slice, SliceItem
from ..model import Func, unparse
from .common import Ctx


def _digest_names(ctx):
    from .roles import digest_helper_names
    return digest_helper_names(ctx)

SINK_FUNCS = ("dds.fun_args.dds_hash", "dds.fun_args.dds_hash_commut", "dds.fun_args.HashKey")  # plus the digest helpers (roles.digest_helpers)
ANALYSIS_MODULES = ("dds.introspect", "dds._introspect_indirect", "dds._retrieve_objects", "dds._eval_ctx", "dds._global_ctx", "dds.structures_utils",
                    "dds._lambda_funs", "dds.fun_args", "dds._api", "dds.structures")


NON_ANALYSIS = ("dds", "dds._annotations", "dds._config", "dds.store", "dds._lru_store", "dds.codec", "dds.codecs", "dds._plotting", "dds._print_ast", "dds._version")


def is_analysis_module(name: str) -> bool:
    """every module of the package but the stores, codecs, options, plotting and the public facade (a new private module that receives
    functions of the analysis is an analysis module)"""
    if not name.startswith("dds"):
        return False
    return not any(name == x or (x != "dds" and name.startswith(x + ".")) for x in NON_ANALYSIS)


class Sink:
    def __init__(self, func: Func, call: ast.Call, arg: ast.AST, kind: str):
        self.func, self.call, self.arg, self.kind = func, call, arg, kind
        self.slice: Optional[Slice] = None

    def where(self) -> str:
        return self.func.loc(self.call)

    def __repr__(self) -> str:
        return f"<Sink {self.kind} {self.where()} {unparse(self.call, 50)}>"


def sinks(ctx: Ctx) -> List[Sink]:
    memo = ctx.__dict__.get("_sig_sinks")
    if memo is not None:
        return memo
    out: List[Sink] = []
    prog = ctx.prog
    from .roles import digest_helper_names
    digest_names = digest_helper_names(ctx)
    from .c05 import family as _hasher_family
    try:
        fam = {g.qname for g in _hasher_family(ctx)}
    except Exception:
        fam = set()
    for f in prog.funcs.values():
        if not is_analysis_module(f.module.name):
            continue
        # the value hasher digests the *content* of the value it is given (its own digest calls are not signature sinks)
        in_hash_module = f.qname.startswith("dds.fun_args.dds_hash") or f.qname in digest_names or f.qname in fam
        for n in f.own_nodes():
            if not isinstance(n, ast.Call):
                continue
            d = prog.dotted(f, n.func) or ""
            if (d in SINK_FUNCS or d in digest_names) and not in_hash_module:
                for a in n.args:
                    out.append(Sink(f, n, a, d.split(".")[-1]))
            elif d.endswith("FunctionInteractions"):
                for k in n.keywords:
                    if k.arg in ("fun_return_sig", "fun_body_sig"):
                        out.append(Sink(f, n, k.value, k.arg))
    # module-level hash keys (HK("...")) are constants: not sinks
    ctx.__dict__["_sig_sinks"] = out
    return out


def sliced_sinks(ctx: Ctx, stop: Optional[Callable[[Func, ast.AST], bool]] = None, key: str = "default") -> List[Sink]:
    memo = ctx.__dict__.setdefault("_sig_slices", {})
    if key in memo:
        return memo[key]
    res = []
    for s in sinks(ctx):
        sl = ctx.slicer(follow_calls=True, follow_callers=True, stop=stop, max_items=60000).slice(s.func, s.arg)
        s2 = Sink(s.func, s.call, s.arg, s.kind)
        s2.slice = sl
        res.append(s2)
    memo[key] = res
    return res


# ------------------------------------------------------------------------------------------
# local slices and source patterns
# ------------------------------------------------------------------------------------------
LOCATION_ATTRS = {"__file__", "co_filename", "co_firstlineno", "__module__", "__qualname__", "f_lineno", "f_code", "lineno", "col_offset",
                  "end_lineno", "end_col_offset", "__path__", "__spec__", "__package__"}
NAME_ATTRS = {"__name__"}
LOCATION_CALLS = {"inspect.getfile", "inspect.getsourcefile", "inspect.findsource", "inspect.getsourcelines", "inspect.getabsfile",
                  "inspect.currentframe", "inspect.stack", "dds._retrieve_objects.function_path", "dds._retrieve_objects._mod_path",
                  "dds.introspect._new_getfile"}
PROCESS_CALLS = {"id", "hash", "os.getpid", "os.getcwd", "os.getppid", "os.getuid", "os.getlogin", "os.urandom", "os.path.abspath", "os.path.realpath",
                 "os.path.expanduser", "os.path.expandvars", "pathlib.Path.cwd", "pathlib.Path.home", "tempfile.gettempdir", "tempfile.mkdtemp",
                 "tempfile.mkstemp", "socket.gethostname", "platform.node", "platform.platform", "platform.python_version", "getpass.getuser",
                 "threading.get_ident", "threading.current_thread", "globals", "locals", "vars", "dir", "repr_of_object"}
PROCESS_PREFIXES = ("time.", "random.", "uuid.", "secrets.", "datetime.datetime.now", "datetime.date.today", "datetime.datetime.utcnow")
PROCESS_ATTRS = {("sys", "modules"), ("sys", "path"), ("sys", "argv"), ("os", "environ"), ("sys", "flags"), ("sys", "executable"), ("sys", "prefix"),
                 ("sys", "platform"), ("sys", "version"), ("sys", "version_info"), ("sys", "hexversion")}
IDENTITY_TYPES = {"dds.structures.CanonicalPath", "types.ModuleType", "types.CodeType", "types.FrameType", "types.FunctionType", "builtins.type",
                  "builtins.function", "types.MethodType"}


def exempt_sinks(ctx: Ctx) -> List[Tuple[Func, ast.Call]]:
    """the value hashed next to an `ext_dep_<name>` key: the qualified *name* of an untracked dependency is that dependency's content"""
    out = []
    for f in ctx.prog.funcs.values():
        if not is_analysis_module(f.module.name):
            continue
        for n in f.own_nodes():
            if isinstance(n, ast.Tuple) and len(n.elts) == 2 and isinstance(n.elts[0], ast.Call) and isinstance(n.elts[1], ast.Call):
                k, v = n.elts
                if k.args and isinstance(k.args[0], ast.JoinedStr) and any(isinstance(x, ast.Constant) and "ext_dep_" in str(x.value) for x in k.args[0].values):
                    if (ctx.prog.dotted(f, v.func) or "") == "dds.fun_args.dds_hash":
                        out.append((f, v))
    return out


DEREF_CALLS = {"importlib.import_module", "inspect.getmodule", "inspect.getsource", "inspect.signature", "inspect.unwrap", "ast.parse", "getattr",
               "dataclasses.fields", "inspect.getmembers", "linecache.getlines", "inspect.linecache.getlines", "dds.introspect.getsource_class",
               "dds._lambda_funs.inspect_lambda_condition", "inspect.findsource"}
DEREF_ATTRS = {"__dict__", "__wrapped__", "__code__", "__globals__", "object_val", "user_ns", "start_globals"}


def _stop(ctx: Ctx, ex: set) -> Callable[[Func, ast.AST], bool]:
    prog = ctx.prog

    def stop(f_: Func, n_: ast.AST) -> bool:
        if id(n_) in ex:
            return True
        if isinstance(n_, ast.Call) and (prog.dotted(f_, n_.func) or "") in DEREF_CALLS:
            return True  # name / object -> content dereference: what is read is content, not identity
        if isinstance(n_, ast.Attribute) and n_.attr in DEREF_ATTRS:
            return True
        return False

    return stop


def local_slice(ctx: Ctx, f: Func, expr: ast.AST, follow_callers: bool = False) -> Slice:
    ex = {id(c) for _, c in exempt_sinks(ctx)}
    return ctx.slicer(follow_calls=True, follow_callers=follow_callers, max_items=8000, opaque=("dds.fun_args.dds_hash", "dds.fun_args.dds_hash_commut") + tuple(sorted(_digest_names(ctx))) + ("dds.store", "dds._lru_store", "dds.codecs", "dds.codec", "dds._plotting", "dds._print_ast",
                      "dds._config"), stop=_stop(ctx, ex)).slice(f, expr)


def classify_node(ctx: Ctx, f: Func, n: ast.AST) -> Optional[Tuple[str, str]]:
    """(kind, description) when the node is a location / process-state source, else None; kind in {'location','process','name'}"""
    prog = ctx.prog
    if isinstance(n, ast.Attribute):
        if n.attr in LOCATION_ATTRS:
            return ("location", f"attribute .{n.attr}")
        if n.attr in NAME_ATTRS:
            return ("name", "attribute .__name__")
        if isinstance(n.value, ast.Name) and (n.value.id, n.attr) in PROCESS_ATTRS and not prog.is_local(f, n.value.id):
            return ("process", f"{n.value.id}.{n.attr}")
    if isinstance(n, ast.Call):
        d = prog.dotted(f, n.func) or ""
        if d in LOCATION_CALLS:
            return ("location", f"{d}()")
        if d in PROCESS_CALLS or d.startswith(PROCESS_PREFIXES):
            return ("process", f"{d}()")
        if isinstance(n.func, ast.Attribute) and n.func.attr in ("cwd", "home") and not n.args:
            return ("process", f".{n.func.attr}()")
    return None


def identity_type(ctx: Ctx, f: Func, n: ast.AST) -> Optional[str]:
    """fullname when the expression's static type is an identity-carrying type (module / code / canonical path ...)"""
    t = ctx._types
    if t is None or not isinstance(n, ast.expr) or not hasattr(n, "lineno"):
        return None
    fns = t.fullnames(f.module.name, n)
    if not fns:
        return None
    for x in fns:
        if x in IDENTITY_TYPES:
            return x
    return None
