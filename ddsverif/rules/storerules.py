"""
Rules over the file-system effect summaries of the local store (shared by C04, C06, C07, C08, C16).
Each function emits obligations under the rule id it is given, so the same structural fact can be
reported for the property it is a necessary condition of.
"""
from __future__ import annotations

import ast
from typing import Any, Dict, List, Optional, Set, Tuple

from ..flow import flow_of
from ..cfg import cfg_of, CFG
from ..fsmodel import StoreModel, Effect, show, flatten, mentions_sym, mentions_attr, unique_sources, strip_unique, contains, expand_attrs
from ..model import Func, Class, AnchorError, unparse, stmt_key, f_cls
from .common import Ctx, dominated, done_nodes, STORE_IFACE, raises_with_code, pass_outcomes

MUTATING = ("WRITE_INPLACE", "RENAME_INTO", "LINK", "REMOVE", "RMTREE")
TOLERANT = ("FileExistsError", "FileNotFoundError", "OSError", "Exception", "BaseException", "IOError")
REAL_UNIQUE = ("uuid.uuid4", "uuid.uuid1", "secrets.token_hex", "tempfile.mkstemp", "tempfile.NamedTemporaryFile",
               "tempfile.mkdtemp", "tempfile.TemporaryDirectory")


def local_store_class(ctx: Ctx) -> Class:
    """The store whose methods touch the local file system (role), LocalFileStore by name as fallback."""
    cands = []
    for cq in sorted(ctx.prog.subclasses(STORE_IFACE)):
        c = ctx.prog.classes[cq]
        if "store_blob" in c.methods:
            src = ast.unparse(c.methods["store_blob"].node)
            if "os.path" in src or "open(" in src:
                cands.append(c)
    if len(cands) == 1:
        return cands[0]
    c = ctx.prog.cls("dds.store.LocalFileStore")
    if c is None:
        raise AnchorError("role local-file-store (Store subclass using os.path) not found")
    return c


class LocalView:
    def __init__(self, ctx: Ctx):
        self.ctx = ctx
        self.cls = local_store_class(ctx)
        self.m = StoreModel(ctx.prog, self.cls, ctx._types)
        self.eff: Dict[str, List[Effect]] = {k: self.m.effects_of(k) for k in ("has_blob", "fetch_blob", "store_blob", "sync_paths", "fetch_paths")}
        self.init = self.m.init_effects
        self.H = _terms(self.eff["has_blob"], ("PROBE", "READ"))
        self.F = _terms(self.eff["fetch_blob"], ("PROBE", "READ"))
        self.L = [t for t in _terms(self.eff["fetch_paths"], ("PROBE", "READ")) if not (isinstance(t, tuple) and t[0] == "dirname")]
        self.visible: List[Any] = []
        for t in self.H + self.F + self.L:
            if t not in self.visible:
                self.visible.append(t)
        self.n_effects = sum(len(v) for v in self.eff.values()) + len(self.init)

    def func(self, method: str) -> Func:
        f = self.ctx.prog.find_method(self.cls.qname, method)
        assert f is not None
        return f


def _terms(effs: List[Effect], kinds) -> List[Any]:
    out: List[Any] = []
    for e in effs:
        if e.kind in kinds and e.term not in out:
            out.append(e.term)
    return out


def _dedupe(effs: List[Effect]) -> List[Effect]:
    seen = set()
    out = []
    for e in effs:
        k = (e.kind, e.term, e.src, getattr(e.node, "lineno", 0))
        if k not in seen:
            seen.add(k)
            out.append(e)
    return out


def _site(v: LocalView, method: str) -> str:
    return f"{v.cls.qname}.{method}"


# ------------------------------------------------------------------------------------------
def atomic_publication(ctx: Ctx, v: LocalView, rule: str) -> int:
    """every mutating effect of store_blob / sync_paths on a reader-visible term is a rename of a unique temporary"""
    rep = ctx.report
    n = 0
    for method in ("store_blob", "sync_paths"):
        for e in _dedupe([x for x in v.eff[method] if x.kind in MUTATING]):
            if e.term not in v.visible:
                continue
            n += 1
            desc = f"{e.kind} on the reader-visible name {show(e.term)} is an atomic rename of a private temporary"
            if e.kind == "RENAME_INTO" and e.src is not None and e.src not in v.visible:
                rep.ok(rule, _site(v, method), desc, e.where())
            else:
                cex = {
                    "WRITE_INPLACE": "kill (or a concurrent reader) between open() and the end of the write observes a truncated file under its final name",
                    "REMOVE": "kill / reader between the removal and the re-creation: the committed entry is gone",
                    "LINK": "the entry is created non-atomically under its final name (fails if it exists; replaced only by remove+create)",
                    "RMTREE": "entries are destroyed in place",
                    "RENAME_INTO": "the rename source is itself reader-visible",
                }[e.kind]
                rep.bad(rule, _site(v, method), desc, e.where(), [f"{e.where()}: {e!r}", cex] + e.via, f"{e.kind}:{show(e.term)}",
                        what=f"{e.kind} in place on {show(e.term)}")
    return n


def marker_last(ctx: Ctx, v: LocalView, rule: str) -> int:
    """the last publication of store_blob is a term has_blob requires; everything fetch_blob reads is published before"""
    rep = ctx.report
    pubs = _dedupe([e for e in v.eff["store_blob"] if e.kind in MUTATING and e.term in v.visible])
    site = _site(v, "store_blob")
    where = v.func("store_blob").loc()
    if not pubs:
        rep.unknown(rule, site, "no publication of a reader-visible name recognised in store_blob", where)
        return 0
    last = pubs[-1]
    desc = f"the last name published by store_blob ({show(last.term)}) is required by has_blob (commit marker)"
    if last.term in v.H:
        rep.ok(rule, site, desc, last.where())
    else:
        rep.bad(rule, f"{v.cls.qname}.has_blob", desc, v.func("has_blob").loc(),
                [f"has_blob tests {[show(t) for t in v.H]}", f"store_blob publishes in order {[show(p.term) for p in pubs]}",
                 "kill (or a reader) after the first publication and before the last: has_blob answers True while fetch_blob "
                 "finds an incomplete entry and returns None, which keep() returns as the value"],
                "marker", what="presence is decided before the last file of the blob is published")
    published = [p.term for p in pubs]
    missing = [t for t in v.F if t not in published]
    desc2 = "every name fetch_blob reads is published by store_blob"
    if missing:
        rep.bad(rule, site, desc2, where, [f"not published: {[show(t) for t in missing]}"], "fetch-unpublished", what="fetch_blob reads a name store_blob never publishes")
    else:
        rep.ok(rule, site, desc2, where)
    return 2


def marker_after_codec(ctx: Ctx, v: LocalView, rule: str) -> int:
    rep = ctx.report
    f = v.func("store_blob")
    pubs = _dedupe([e for e in v.eff["store_blob"] if e.kind in MUTATING and e.term in v.visible])
    ser = [n for n in f.own_nodes() if isinstance(n, ast.Call) and isinstance(n.func, ast.Attribute) and n.func.attr == "serialize_into"]
    if not pubs or not ser:
        rep.unknown(rule, f.qname, "cannot locate the serialisation calls / publications in store_blob", f.loc())
        return 0
    cfg = cfg_of(f)
    doms = [d for s in ser for d in done_nodes(cfg, s)]
    n = 0
    for p in pubs:
        if p.root_func is not f:
            continue
        n += 1
        desc = f"publication of {show(p.term)} happens only after serialisation completed normally"
        w = dominated(ctx, f, p.root_node, doms)
        if w is None:
            rep.ok(rule, f.qname, desc, p.where())
        else:
            rep.bad(rule, f.qname, desc, p.where(), w, stmt_key(p.node), what="a name is published although serialisation did not complete")
    # order of publications: blob before marker
    for a, b in zip(pubs, pubs[1:]):
        if a.root_func is f and b.root_func is f and a.root_node is not b.root_node:
            w = dominated(ctx, f, b.root_node, done_nodes(cfg, a.root_node))
            desc = f"{show(a.term)} is published before {show(b.term)}"
            if w is None:
                rep.ok(rule, f.qname, desc, b.where())
            else:
                rep.bad(rule, f.qname, desc, b.where(), w, stmt_key(b.node) + "order", what="the commit marker can be published before the blob")
            n += 1
    return n


def store_always_publishes(ctx: Ctx, v: LocalView, rule: str) -> int:
    """store_blob returns normally only after the commit marker was published, or when everything has_blob
    requires was seen to exist (an early return on a partial entry makes the key unstorable after a crash)."""
    rep = ctx.report
    f = v.func("store_blob")
    cfg = cfg_of(f)
    pubs = _dedupe([e for e in v.eff["store_blob"] if e.kind in MUTATING and e.term in v.visible])
    if not pubs:
        return 0
    last = pubs[-1]
    desc = "store_blob returns normally only after publishing the commit marker (or after seeing the complete entry)"
    if last.root_func is not f:
        rep.unknown(rule, f.qname, "the commit marker is published by a helper of a helper: must-pass-through not evaluated", f.loc())
        return 1
    marker_nodes = cfg.nodes_of(last.root_node)
    p = cfg.find_path([cfg.entry], [cfg.exit], avoid=marker_nodes)
    if p is None:
        rep.ok(rule, f.qname, desc, last.where())
        return 1
    seen_terms = []
    probes = [e for e in v.eff["store_blob"] if e.kind == "PROBE"]
    for n in p:
        if n.kind == "branch" and n.label == "T" and n.ast is not None:
            inside = {id(x) for x in ast.walk(n.ast)}
            for pe in probes:
                if id(pe.node) in inside and pe.term not in seen_terms:
                    seen_terms.append(pe.term)
    if v.H and all(t in seen_terms for t in v.H):
        rep.ok(rule, f.qname, desc + " [early return only when has_blob's names exist]", last.where())
    else:
        from .common import witness_path
        rep.bad(rule, f.qname, desc, f.loc(),
                [f"has_blob requires {[show(t) for t in v.H]}; this path returns after seeing only {[show(t) for t in seen_terms]}:"] + witness_path(cfg, f, p)
                + ["after a crash between the blob and its marker, every later store_blob of the key is a no-op: has_blob stays False, the value is recomputed and lost again"],
                "early-return", what="store_blob can return without publishing the commit marker")
    return 1


# ------------------------------------------------------------------------------------------
def check_then_act(ctx: Ctx, v: LocalView, rule: str) -> int:
    rep = ctx.report
    n = 0
    for method, effs in list(v.eff.items()) + [("__init__", v.init)]:
        probes = [e for e in effs if e.kind == "PROBE"]
        for e in _dedupe(effs):
            non_idem = (e.kind == "MKDIR" and not e.extra.get("exist_ok")) or e.kind in ("REMOVE", "LINK") or (
                e.kind == "WRITE_INPLACE" and "x" in str(e.extra.get("mode", "")))
            if not non_idem:
                continue
            guards = []
            for (test, pol) in e.conds:
                inside = {id(x) for x in ast.walk(test)}
                for p in probes:
                    if id(p.node) in inside and (p.term == e.term or p.term == ("dirname", e.term) or e.term == ("dirname", p.term)):
                        guards.append((p, test, pol))
            if not guards and e.kind != "MKDIR":
                if e.term in v.visible or e.kind == "REMOVE":
                    pass  # reported by the atomic-publication rule
                continue
            if not guards:
                continue
            n += 1
            tolerant = any(h.split(".")[-1] in TOLERANT for h in e.handlers)
            desc = f"{e.kind}({show(e.term)}) guarded by a probe of the same name tolerates another process acting in between"
            if tolerant:
                rep.ok(rule, _site(v, method), desc, e.where())
            else:
                p, test, pol = guards[0]
                rep.bad(rule, _site(v, method), desc, e.where(),
                        [f"{p.where()}: probe `{unparse(test, 60)}`", f"{e.where()}: then {e!r}",
                         "two processes pass the test; the second one's call raises FileExistsError / FileNotFoundError"],
                        f"cta:{e.kind}:{show(e.term)}", what=f"check-then-act on {show(e.term)} ({e.kind})")
    if n == 0:
        rep.ok(rule, v.cls.qname, "no non-idempotent effect is guarded by a probe of the same name (no check-then-act)", v.func("store_blob").loc())
    return n


def mkdir_idempotent(ctx: Ctx, v: LocalView, rule: str) -> int:
    rep = ctx.report
    n = 0
    for method, effs in list(v.eff.items()) + [("__init__", v.init)]:
        for e in _dedupe([x for x in effs if x.kind == "MKDIR"]):
            n += 1
            desc = f"directory creation {show(e.term)} is idempotent (exist_ok=True or tolerated FileExistsError)"
            if e.extra.get("exist_ok") or any(h.split(".")[-1] in TOLERANT for h in e.handlers):
                rep.ok(rule, _site(v, method), desc, e.where())
            else:
                rep.bad(rule, _site(v, method), desc, e.where(),
                        [f"{e.where()}: {e!r} without exist_ok", "a second process creating the same directory (or a pre-existing one seen late) raises FileExistsError"],
                        f"mkdir:{show(e.term)}", what=f"non-idempotent creation of {show(e.term)}")
    return n


def unique_temporaries(ctx: Ctx, v: LocalView, rule: str) -> int:
    rep = ctx.report
    n = 0
    for method in ("store_blob", "sync_paths"):
        for e in _dedupe([x for x in v.eff[method] if x.kind == "RENAME_INTO"]):
            n += 1
            src = e.src
            us = unique_sources(src)
            desc = f"temporary {show(src)} is unique per writer and lies in the directory of its target"
            wit: List[str] = []
            if not any(u in REAL_UNIQUE for u in us):
                if "pid" in us:
                    wit.append("the only distinguishing part is the process id: a later process with the same pid (containers: pid 1) "
                               "finds the leftover of a killed one; two threads of one process share it")
                else:
                    wit.append("the temporary name is shared by all writers: two writers tear each other's file before the rename")
            base = strip_unique(src)
            same_dir = base == e.term or _dir_of(base) == _dir_of(e.term)
            if any(isinstance(u, str) and u.startswith("tempfile.") for u in us):
                # mkstemp(dir=<dir of target>)
                same_dir = same_dir or contains(src, lambda x: isinstance(x, tuple) and x and x[0] == "unique" and len(x) > 2 and (
                    x[2] == ("dirname", e.term) or x[2] == _dir_of(e.term)))
            if not same_dir:
                wit.append(f"temporary is not built from the target's directory ({show(base)} vs {show(e.term)}): the rename may cross file systems and is not atomic")
            if wit:
                rep.bad(rule, _site(v, method), desc, e.where(), [f"{e.where()}: {e!r}"] + wit, f"tmp:{show(e.term)}",
                        what=f"temporary name for {show(e.term)} is not writer-unique / not beside its target")
            else:
                rep.ok(rule, _site(v, method), desc, e.where())
    return n


def _dir_of(t: Any) -> Any:
    t = flatten(t)
    if isinstance(t, tuple) and t and t[0] == "join" and len(t) > 2:
        return flatten(t[:-1])
    return ("dirname", t)


# ------------------------------------------------------------------------------------------
def path_injective(ctx: Ctx, v: LocalView, rule: str) -> int:
    rep = ctx.report
    n = 0
    for method in ("sync_paths", "fetch_paths"):
        terms = []
        for e in v.eff[method]:
            for t in (e.term, e.src):
                if t is not None and mentions_sym(t, "PATH") and not (isinstance(t, tuple) and t[0] == "dirname") and t not in terms:
                    terms.append((t, e))
        seen = []
        for t, e in terms:
            base = strip_unique(t) if e.kind in ("LINK", "RENAME_INTO") and unique_sources(t) else t
            if base in seen:
                continue
            seen.append(base)
            n += 1
            desc = f"location {show(base)} keeps every non-empty segment of the path (distinct paths get distinct locations)"
            lossy = _find(base, lambda x: isinstance(x, tuple) and x and ((x[0] == "segs" and x[1] == "lossy") or x[0] in ("lossy", "norm", "slice")))
            if lossy is not None:
                why = lossy[2] if lossy[0] == "segs" and len(lossy) > 2 else (lossy[1] if lossy[0] == "lossy" else
                                                                             "normpath resolves '.' / '..' segments: /c/../a/b and /a/b share a location")
                rep.bad(rule, _site(v, method), desc, e.where(), [f"{e.where()}: {show(base)}", str(why),
                        "counterexample shape: /a/b/c and /ab/c (or /c/../a and /a) map to one location"], f"lossy:{method}",
                        what=f"path -> location mapping in {method} is not injective")
            elif _find(base, lambda x: isinstance(x, tuple) and x and x[0] == "segs" and x[1] == "exact") is not None or _find(
                    base, lambda x: x == ("sym", "PATH")) is not None:
                rep.ok(rule, _site(v, method), desc, e.where())
            else:
                rep.unknown(rule, _site(v, method), f"path term {show(base)} not understood", e.where())
    return n


def _find(t: Any, pred) -> Optional[Any]:
    if pred(t):
        return t
    if isinstance(t, tuple):
        for x in t[1:]:
            r = _find(x, pred)
            if r is not None:
                return r
    return None


def path_confined(ctx: Ctx, v: LocalView, rule: str) -> int:
    """dot segments are rejected (or containment is tested with an exact idiom) before the location is used"""
    rep = ctx.report
    prog = ctx.prog
    n = 0
    for method in ("sync_paths", "fetch_paths"):
        f = v.func(method)
        # functions that build the location: the method itself and same-class / module helpers it calls
        funcs = [f]
        frontier = [f]
        for _depth in range(3):
            nxt = []
            for h_ in frontier:
                for call in [x for x in h_.own_nodes() if isinstance(x, ast.Call)]:
                    fs, _ = prog.callees(h_, call, ctx._types)
                    for g in fs:
                        if (f_cls(g) is v.cls or g.cls is None) and (g.module is f.module or (g.module.name.startswith("dds") and g.name.startswith("_"))) and g not in funcs:
                            funcs.append(g)
                            nxt.append(g)
            frontier = nxt
        n += 1
        desc = f"{method}: '.' and '..' segments are rejected (or containment in the data directory is tested exactly) before the location is used"
        verdict, wit, where = "none", [], f.loc()
        v.m.join_sites = []
        v.m.effects_of(method)
        for g in funcs:
            joins = []
            for (jf, jc, jt) in v.m.join_sites:
                if jf is g and mentions_sym(jt, "PATH") and jc not in joins:
                    joins.append(jc)
            if not joins:
                continue
            cfg = cfg_of(g)
            rejects: List[Any] = []
            flawed: List[str] = []
            for r in [x for x in g.own_nodes() if isinstance(x, ast.Raise)]:
                outs, atoms = pass_outcomes(cfg, g.module, r)
                for a in atoms:
                    txt = ast.unparse(a)
                    consts = _str_consts(g, a)
                    # a sentinel: `if v is None: raise` where `v = None` is assigned under a test of the segments
                    if isinstance(a, ast.Compare) and len(a.ops) == 1 and isinstance(a.ops[0], (ast.Is, ast.Eq)) and isinstance(a.left, ast.Name) \
                            and isinstance(a.comparators[0], ast.Constant) and a.comparators[0].value is None:
                        for st_ in g.own_nodes():
                            if isinstance(st_, ast.Assign) and isinstance(st_.value, ast.Constant) and st_.value.value is None \
                                    and any(isinstance(t_, ast.Name) and t_.id == a.left.id for t_ in st_.targets):
                                _o, atoms_ = pass_outcomes(cfg, g.module, st_)
                                for a_ in atoms_:
                                    consts |= _str_consts(g, a_)
                    if ".." in consts and "." in consts:
                        rejects += [o for o in outs if o.ast is a]
                    elif ".." in consts:
                        # '.' must be rejected too, unless '.' segments are dropped before the join (then '/a/./b' IS '/a/b')
                        drops_dot = any(isinstance(c_, ast.Compare) and any(isinstance(k_, ast.Constant) and k_.value == "." for k_ in ast.walk(c_))
                                        for comp in ast.walk(g.node) if isinstance(comp, (ast.ListComp, ast.GeneratorExp)) for gen in comp.generators for c_ in gen.ifs)
                        if drops_dot:
                            rejects += [o for o in outs if o.ast is a]
                        else:
                            flawed.append(f"{g.loc(a)}: `{unparse(a, 70)}` rejects '..' but not '.': the segment is joined as it is and the file system resolves it, "
                                          "so '/a/./b' and '/a/b' (two different paths for dds) share one entry and the later commit overwrites the earlier one")
                    elif "commonpath" in txt or "is_relative_to" in txt or "relative_to" in txt:
                        rejects += [o for o in outs if o.ast is a]
                    elif "commonprefix" in txt:
                        flawed.append(f"{g.loc(a)}: `{unparse(a, 70)}`: os.path.commonprefix compares character by character, so a sibling directory "
                                      "whose name starts with the data directory's name passes ('<data>_backup')")
                    elif "startswith" in txt and "sep" not in txt and '"/"' not in txt and "'/'" not in txt:
                        flawed.append(f"{g.loc(a)}: `{unparse(a, 70)}`: prefix test without a trailing separator accepts sibling directories")
            for j in joins:
                w = dominated(ctx, g, j, rejects) if rejects else ["no rejection / containment test precedes the join"]
                if w is not None and not flawed:
                    # the test may be held in a local (`mappable = bool(segments) and not any(s in ('.', '..') ...)`, `if mappable: <join>`):
                    # for one of its two outcomes a raise can be reached and the join cannot
                    from ..propdom import feasible_path as _fp

                    def _dots(a_: ast.AST, g_=g) -> Optional[str]:
                        if isinstance(a_, (ast.Compare, ast.Call)):
                            cs_ = _str_consts(g_, a_)
                            if ".." in cs_ and "." in cs_:
                                return "<dot-segment>"
                            t_ = ast.unparse(a_)
                            if isinstance(a_, ast.Call) and ("commonpath" in t_ or "relative_to" in t_):
                                return "<contained>"
                        return None
                    raises_ = [nd for r_ in g.own_nodes() if isinstance(r_, ast.Raise) for nd in cfg.nodes_of(r_)]
                    jn = cfg.nodes_of(j)
                    for nm_ in ("<dot-segment>", "<contained>"):
                        if not any(_dots(y) == nm_ for y in g.own_nodes()):
                            continue
                        for b_ in (True, False):
                            if jn and raises_ and _fp(prog, g, cfg, jn, {nm_: b_}, _dots) is None and _fp(prog, g, cfg, raises_, {nm_: b_}, _dots) is not None:
                                w = None
                if w is None:
                    if verdict == "none":
                        verdict = "ok"
                        where = g.loc(j)
                else:
                    verdict = "bad"
                    where = g.loc(j)
                    wit = [f"{g.loc(j)}: `{unparse(j, 70)}` builds the location"] + [x for x in flawed if x] + (w if rejects else [
                        "no test on the path's segments dominates it: a path such as '/../x' is written outside the data directory"])
        if verdict == "ok":
            rep.ok(rule, _site(v, method), desc, where)
        elif verdict == "bad":
            rep.bad(rule, _site(v, method), desc, where, wit, f"confine:{method}", what=f"{method} can create / resolve entries outside the data directory")
        else:
            rep.unknown(rule, _site(v, method), "location-building join not found", where)
    return n


def _str_consts(g: Func, a: ast.AST) -> Set[str]:
    """string constants of a test, module-level constant collections it names included (`s in _RELATIVE`)"""
    out = {c.value for c in ast.walk(a) if isinstance(c, ast.Constant) and isinstance(c.value, str)}
    for n in ast.walk(a):
        if isinstance(n, ast.Name):
            for st in g.module.assigns.get(n.id, []):
                v = getattr(st, "value", None)
                if isinstance(v, (ast.Tuple, ast.List, ast.Set)) or (isinstance(v, ast.Call) and unparse(v.func) in ("frozenset", "set", "tuple") and v.args):
                    out |= {c.value for c in ast.walk(v) if isinstance(c, ast.Constant) and isinstance(c.value, str)}
                elif isinstance(v, ast.Constant) and isinstance(v.value, str):
                    out.add(v.value)   # a named constant (`_REDIRECTION_DIR = "_dds_meta"`)
    return out


def _mentions_path_param(ctx: Ctx, g: Func, call: ast.Call, method: str) -> bool:
    """the join's arguments derive (locally) from a parameter of g or from a loop variable over it"""
    sl = ctx.slicer(follow_calls=False).slice(g, call)
    params = [p for p in g.params if p not in ("self", "cls")]
    return any(sl.has_param(g, p) for p in params)


def names_disjoint(ctx: Ctx, v: LocalView, rule: str) -> int:
    rep = ctx.report
    key_terms = [t for t in v.visible if mentions_sym(t, "KEY")]
    where = v.func("store_blob").loc()
    n = 0
    HEX = set("0123456789abcdef")
    for i, a in enumerate(key_terms):
        for b in key_terms[i + 1:]:
            n += 1
            desc = f"{show(a)} and {show(b)} can never name the same file (keys are hexadecimal)"
            la, lb = _key_suffix(a), _key_suffix(b)
            if la is None or lb is None:
                rep.unknown(rule, v.cls.qname, f"name shapes not understood: {show(a)} / {show(b)}", where)
            elif la != lb and any(ch not in HEX for ch in (la or lb)) and _dir_of(a) == _dir_of(b):
                rep.ok(rule, v.cls.qname, desc, where)
            elif _dir_of(a) != _dir_of(b):
                rep.ok(rule, v.cls.qname, desc + " (different directories)", where)
            else:
                rep.bad(rule, v.cls.qname, desc, where, [f"suffixes {la!r} / {lb!r}: a key that ends with the suffix collides with the other name"],
                        f"names:{la}:{lb}", what="blob and metadata names can collide")
    return n


def _key_suffix(t: Any) -> Optional[str]:
    """join(..., KEY) -> '' ; join(..., KEY + '.meta') -> '.meta'"""
    t = flatten(t)
    if isinstance(t, tuple) and t[0] == "join":
        last = t[-1]
        if last == ("sym", "KEY"):
            return ""
        if isinstance(last, tuple) and last[0] == "cat" and last[1] == ("sym", "KEY") and all(isinstance(x, tuple) and x[0] == "lit" for x in last[2:]):
            return "".join(x[1] for x in last[2:])
    return None


def writer_reader_agree(ctx: Ctx, v: LocalView, rule: str) -> int:
    rep = ctx.report
    n = 0
    where = v.func("sync_paths").loc()
    pubs = [e for e in v.eff["sync_paths"] if e.kind in ("RENAME_INTO", "LINK", "WRITE_INPLACE") and mentions_sym(e.term, "PATH")]
    finals = []
    for e in pubs:
        if not unique_sources(e.term) and e.term not in finals:
            finals.append(e.term)
    n += 1
    desc = f"sync_paths publishes the entry of a path where fetch_paths looks for it ({[show(t) for t in v.L]})"
    if finals and v.L and all(t in v.L for t in finals) and all(t in finals for t in v.L):
        rep.ok(rule, v.cls.qname, desc, where)
    elif not finals or not v.L:
        rep.unknown(rule, v.cls.qname, "cannot identify the published / probed path entry terms", where)
    else:
        rep.bad(rule, v.cls.qname, desc, where, [f"published: {[show(t) for t in finals]}", f"probed by fetch_paths: {[show(t) for t in v.L]}"],
                "wr-loc", what="the path entry is written where the reader does not look")
    # the link points to the blob name that has_blob / fetch_blob use
    links = [e for e in v.eff["sync_paths"] if e.kind == "LINK"]
    blob_terms = [t for t in v.visible if _key_suffix(t) == ""]
    for e in _dedupe(links):
        n += 1
        desc = f"the entry created for a path points to the blob name {[show(t) for t in blob_terms]}"
        if e.src in blob_terms:
            rep.ok(rule, _site(v, "sync_paths"), desc, e.where())
        elif isinstance(e.src, tuple) and e.src and e.src[0] == "relpath":
            real = all(isinstance(a, tuple) and a and a[0] == "real" for a in e.src[1:])
            if real:
                rep.ok(rule, _site(v, "sync_paths"), desc + " (relative to resolved directories)", e.where())
            else:
                rep.bad(rule, _site(v, "sync_paths"), desc, e.where(),
                        [f"{e.where()}: link target {show(e.src)}", "a lexically computed relative target is resolved by the kernel from the link's physical "
                         "directory: with a data directory reached through a symbolic link the entry is dangling"], "link-rel",
                        what="path entries use a lexically relative link target")
        else:
            rep.bad(rule, _site(v, "sync_paths"), desc, e.where(), [f"{e.where()}: link target {show(e.src)}"], "link-target",
                    what="the entry of a path does not point to the blob the store serves")
    return n


def no_resolved_vs_lexical_rejection(ctx: Ctx, v: LocalView, rule: str) -> int:
    """No `raise` of the store methods is decided by comparing a symlink-RESOLVED location (realpath) with a location that is only
    made absolute (the root attributes are abspath, not realpath): with a directory reached through a symbolic link the two
    never compare equal, and a usable configuration is rejected."""
    rep = ctx.report
    m = v.m
    n = 0
    for method in ("has_blob", "fetch_blob", "store_blob", "sync_paths", "fetch_paths"):
        m.expr_terms = {}
        m.effects_of(method)
        f = v.func(method)
        funcs = [f] + [g for g in v.cls.methods.values() if g is not f and g.name.startswith("_")]
        for g in funcs:
            for r in [x for x in g.own_nodes() if isinstance(x, ast.Raise)]:
                guard = None
                for a in _ancestors_of(g, r):
                    if isinstance(a, ast.If):
                        guard = a
                        break
                if guard is None:
                    continue
                for c in ast.walk(guard.test):
                    if not (isinstance(c, ast.Compare) and len(c.ops) == 1 and isinstance(c.ops[0], (ast.Eq, ast.NotEq))):
                        continue
                    lt, rt = m.expr_terms.get(id(c.left)), m.expr_terms.get(id(c.comparators[0]))
                    if lt is None or rt is None:
                        continue
                    for x, y in ((lt, rt), (rt, lt)):
                        has_real = contains(x, lambda t: isinstance(t, tuple) and t and t[0] == "real")
                        y_exp = expand_attrs(y, m)
                        lexical_root = contains(y, lambda t: isinstance(t, tuple) and t[:1] == ("attr",)) and not contains(y_exp, lambda t: isinstance(t, tuple) and t and t[0] == "real")
                        if has_real and lexical_root:
                            n += 1
                            rep.bad(rule, g.qname, "no rejection is decided by comparing a resolved location with a merely absolute one", g.loc(c),
                                    [f"{g.loc(c)}: `{unparse(c, 80)}` compares {show(x)[:90]} with {show(y)[:60]} (= {show(y_exp)[:60]})",
                                     f"{g.loc(r)}: the mismatch raises `{unparse(r.exc, 60) if r.exc is not None else 'raise'}`",
                                     "with internal_dir given through a symbolic link (symlinked parent, /tmp on macOS) realpath never equals the abspath-based location: "
                                     "keep works and the first load fails"], stmt_key(c), what="a store reached through a symbolic link is rejected at read time")
    if n == 0:
        rep.ok(rule, v.cls.qname, "no rejection is decided by comparing a resolved location with a merely absolute one", v.cls.module.relpath)
    return n


def presence_ignores_size(ctx: Ctx, v: LocalView, rule: str) -> int:
    """whether a blob is present never depends on the SIZE of the blob file: the verbatim text / bytes codecs legitimately
    write a zero-length file for '' and b''"""
    rep = ctx.report
    m = v.m
    n = 0
    blob_terms = [t for t in v.visible if _key_suffix(t) == ""]
    for method in ("has_blob", "fetch_blob"):
        n += 1
        m.expr_terms = {}
        m.effects_of(method)
        f = v.func(method)
        funcs = [f] + [g for g in ctx.prog.funcs.values() if g.module is f.module and g is not f]
        wit = []
        for g in funcs:
            for c in g.own_nodes():
                if isinstance(c, ast.Call) and c.args and (unparse(c.func).endswith("getsize") or unparse(c.func) in ("os.stat", "os.lstat")):
                    t = m.expr_terms.get(id(c.args[0]))
                    if t is not None and (t in blob_terms or (not blob_terms and mentions_sym(t, "KEY") and _key_suffix(t) == "")):
                        wit.append(f"{g.loc(c)}: `{unparse(c, 50)}` on the blob file {show(t)} takes part in {method}")
        desc = f"{method}: presence does not depend on the size of the blob file"
        if wit:
            rep.bad(rule, _site(v, method), desc, f.loc(), wit + [
                "dds.keep of a function returning '' (or b''): the string / bytes codecs store the value verbatim, i.e. a zero-length file; the blob is reported absent, "
                "load returns None instead of '' and the function is recomputed on every call"], f"size-presence:{method}",
                what="empty text / bytes results are not read back (presence depends on the blob's size)")
        else:
            rep.ok(rule, _site(v, method), desc, f.loc())
    return n


def presence_from_fs(ctx: Ctx, v: LocalView, rule: str) -> int:
    """has_blob / fetch_blob / fetch_paths decide from the file system at the time of the call: each probes (or reads) a name
    built from its argument, and has_blob's answer reads no per-instance state besides the root directories"""
    rep = ctx.report
    n = 0
    root_attrs = {a for a in v.m.attr_defs}
    for method, terms in (("has_blob", v.H), ("fetch_blob", v.F), ("fetch_paths", v.L)):
        n += 1
        f = v.func(method)
        desc = f"{method} looks its argument up in the file system on every call"
        wit = []
        if not terms:
            wit.append(f"{f.loc()}: no probe / read of a name built from the argument")
        if method == "has_blob":
            init_dirs = {a for a, d in v.m.attr_defs.items() if isinstance(d, tuple)}
            for r in [x for x in f.own_nodes() if isinstance(x, ast.Return) and x.value is not None]:
                for x in ast.walk(r.value):
                    if isinstance(x, ast.Attribute) and isinstance(x.value, ast.Name) and x.value.id == "self" and x.attr not in ("_root", "_data_root") \
                            and not isinstance(f.module.parent.get(x), ast.Call):
                        wit.append(f"{f.loc(x)}: the answer is read from `self.{x.attr}` (state of this store object)")
        if wit:
            rep.bad(rule, _site(v, method), desc, f.loc(), wit + [
                "an index kept in the store object goes stale as soon as another store object (a second data view, another process) writes to the same internal "
                "directory: its blobs are not seen and the functions are recomputed (two data views of one internal directory must share computed blobs)"],
                f"presence-memory:{method}", what=f"{method} answers from in-memory state instead of the shared directory")
        else:
            rep.ok(rule, _site(v, method), desc, f.loc())
    return n


def every_path_processed(ctx: Ctx, rule: str) -> int:
    """In every Store implementation the loop of sync_paths over the given paths treats each path on its own: no `return` /
    `break` inside the loop body (an early exit on one path - 'already up to date' - silently skips the paths that follow it)."""
    rep = ctx.report
    prog = ctx.prog
    n = 0
    for cq in sorted(prog.subclasses(STORE_IFACE)):
        c = prog.classes[cq]
        f = c.methods.get("sync_paths")
        if f is None:
            continue
        pparams = [p for p in f.params if p not in ("self", "cls")]
        for loop in [x for x in f.own_nodes() if isinstance(x, ast.For)]:
            it_names = {y.id for y in ast.walk(loop.iter) if isinstance(y, ast.Name)}
            if not (it_names & set(pparams)):
                continue
            n += 1
            exits = []
            stack = list(loop.body)
            while stack:
                x = stack.pop()
                if isinstance(x, (ast.FunctionDef, ast.AsyncFunctionDef, ast.Lambda, ast.ClassDef)):
                    continue
                if isinstance(x, ast.Return):
                    exits.append(x)
                elif isinstance(x, ast.Break):
                    exits.append(x)
                if isinstance(x, (ast.For, ast.While)) and x is not loop:
                    # a break inside an inner loop only leaves the inner loop; a return still leaves the method
                    stack.extend(y for y in ast.walk(x) if isinstance(y, ast.Return))
                    continue
                stack.extend(ast.iter_child_nodes(x))
            desc = f"{c.name}.sync_paths: every path of the batch is committed (no early exit from the loop)"
            if exits:
                rep.bad(rule, f.qname, desc, f.loc(exits[0]), [f"{f.loc(x)}: `{unparse(x, 30)}` inside the loop over `{unparse(loop.iter, 30)}`" for x in exits] + [
                        "a batch {unchanged path, new path}: the loop stops at the first path that needs nothing, the paths after it are never committed (or keep their old key)"],
                        stmt_key(exits[0]), what="sync_paths stops at the first path that is up to date")
            else:
                rep.ok(rule, f.qname, desc, f.loc(loop))
    return n


def dirs_created_unconditionally(ctx: Ctx, v: LocalView, rule: str) -> int:
    """every directory the constructor creates is created whatever the state of the OTHER directories (its creation may only
    depend on probes of that directory itself and on configuration flags)"""
    rep = ctx.report
    n = 0
    v.m.expr_terms = {}
    effs = v.m.effects_of("__init__")
    for e in _dedupe([x for x in effs if x.kind == "MKDIR"]):
        n += 1
        foreign = []
        for (test, pol) in e.conds:
            tt = v.m.expr_terms.get(id(test))
            probed = []
            if tt is not None:
                def collect(t: Any) -> None:
                    if isinstance(t, tuple):
                        if t and t[0] == "probe" and len(t) > 1:
                            probed.append(t[1])
                        for y in t[1:]:
                            collect(y)
                collect(tt)
            for ptm in probed:
                if ptm != e.term and flatten(ptm) != flatten(e.term):
                    foreign.append(f"{e.where()}: creation of {show(e.term)} happens only when `{unparse(test, 50)}` is {pol}, a test on {show(ptm)}")
        desc = f"the constructor creates {show(e.term)} whatever the state of the other directories"
        if foreign:
            rep.bad(rule, _site(v, "__init__"), desc, e.where(), foreign + [
                "a store opened when the other directory already exists (created by another process a moment ago, or a pre-existing data directory with a fresh internal one) "
                "never gets this directory, and its first store_blob fails with FileNotFoundError"], stmt_key(e.node), what="a store directory is only created as a side effect of creating another one")
        else:
            rep.ok(rule, _site(v, "__init__"), desc, e.where())
    return n


def readers_read_only(ctx: Ctx, v: LocalView, rule: str) -> int:
    """has_blob / fetch_blob / fetch_paths change nothing under a name that the store's protocol reads: a reader killed (or
    racing with another reader) in the middle of such a change leaves a committed entry torn, and no writer will repair it
    because the key is still reported present."""
    rep = ctx.report
    n = 0
    for method in ("has_blob", "fetch_blob", "fetch_paths"):
        n += 1
        f = v.func(method)
        bad = [e for e in _dedupe(v.eff[method]) if e.kind in MUTATING + ("CREATE_EXCL",) and not unique_sources(e.term)
               and (e.term in v.visible or strip_unique(e.term) in v.visible or any(mentions_attr(e.term, a) for a in ("_root", "_data_root")) or mentions_sym(e.term, "KEY") or mentions_sym(e.term, "PATH"))]
        desc = f"{method} performs no write / rename / removal on the entries of the store"
        if not bad:
            rep.ok(rule, _site(v, method), desc, f.loc())
        else:
            rep.bad(rule, _site(v, method), desc, bad[0].where(), [f"{e.where()}: {e!r} ({e.extra.get('how', '')})" for e in bad] + [
                "a process that only READS a committed entry and is killed between the truncating open and the close leaves it empty: has_blob stays true, "
                "so the blob is never stored again and every later fetch of the key (and every load of a path linked to it) fails"],
                f"reader-writes:{method}", what=f"{method} modifies committed entries of the store in place")
    return n


def every_path_answered(ctx: Ctx, rule: str) -> int:
    """fetch_paths of every store: the statement that files a path's key in the returned mapping runs once per requested path (it sits in
    the loop over the paths, keyed by the loop variable) - not once after the loop with the last path"""
    rep = ctx.report
    prog = ctx.prog
    n = 0
    for cq in sorted(prog.subclasses("dds.store.Store")):
        c = prog.classes[cq]
        f = c.methods.get("fetch_paths")
        if f is None:
            continue
        rets = {r.value.id for r in f.own_nodes() if isinstance(r, ast.Return) and isinstance(r.value, ast.Name)}
        # (or a copy of it: `return OrderedDict(resolved)`)
        rets |= {r.value.args[0].id for r in f.own_nodes() if isinstance(r, ast.Return) and isinstance(r.value, ast.Call) and len(r.value.args) == 1 and not r.value.keywords
                 and isinstance(r.value.args[0], ast.Name) and unparse(r.value.func).split(".")[-1] in ("OrderedDict", "dict", "copy", "deepcopy")}
        loops = [x for x in f.own_nodes() if isinstance(x, ast.For)]
        for st in f.own_nodes():
            # (a list of (path, key) pairs that the returned mapping is built from: `resolved.append((path, key))`)
            if isinstance(st, ast.Expr) and isinstance(st.value, ast.Call) and isinstance(st.value.func, ast.Attribute) and st.value.func.attr == "append" \
                    and isinstance(st.value.func.value, ast.Name) and st.value.func.value.id in rets and st.value.args and isinstance(st.value.args[0], ast.Tuple) and st.value.args[0].elts:
                pair0 = st.value.args[0].elts[0]
                st = ast.copy_location(ast.Assign(targets=[ast.Subscript(value=st.value.func.value, slice=pair0, ctx=ast.Store())], value=st.value.args[0].elts[-1], type_comment=None), st)
                st._origin = True  # type: ignore[attr-defined]
            if not (isinstance(st, ast.Assign) and len(st.targets) == 1 and isinstance(st.targets[0], ast.Subscript) and isinstance(st.targets[0].value, ast.Name)
                    and st.targets[0].value.id in rets):
                continue
            keynames = {y.id for y in ast.walk(st.targets[0].slice) if isinstance(y, ast.Name)}
            owning = [lp for lp in loops if keynames & {y.id for y in ast.walk(lp.target) if isinstance(y, ast.Name)}]
            if not owning:
                continue
            n += 1
            inside = any(any(st is y for b_ in lp.body for y in ast.walk(b_)) for lp in owning)
            if getattr(st, "_origin", False):
                inside = any(lp.lineno <= st.lineno <= (lp.end_lineno or lp.lineno) and not any(
                    o_.lineno <= st.lineno <= (getattr(o_, "end_lineno", None) or o_.lineno) for o_ in lp.orelse) for lp in owning)
            desc = f"{c.name}.fetch_paths files `{unparse(st, 50)}` once per requested path"
            # ... in a mapping that lives across the iterations: it is not created again inside the loop
            renew = [y for lp in owning for b_ in lp.body for y in ast.walk(b_) if isinstance(y, (ast.Assign, ast.AnnAssign)) and any(
                isinstance(t, ast.Name) and t.id == st.targets[0].value.id for t in (y.targets if isinstance(y, ast.Assign) else [y.target]))]
            early = [y for lp in owning for b_ in lp.body for y in ast.walk(b_) if isinstance(y, ast.Return) and isinstance(y.value, ast.Name) and y.value.id == st.targets[0].value.id]
            if inside and early:
                rep.bad(rule, f.qname, desc, f.loc(early[0]), [f"{f.loc(early[0])}: `{unparse(early[0], 40)}` inside the loop at {f.loc(owning[0])} returns the mapping after the first path it filed",
                        "an evaluation that loads two or more external paths gets the first one back: the others are reported as loaded before they are produced, although each is committed"],
                        "result-early", what=f"{c.name}.fetch_paths answers only the first requested path")
            elif inside and renew:
                rep.bad(rule, f.qname, desc, f.loc(renew[0]), [f"{f.loc(renew[0])}: `{unparse(renew[0], 50)}` creates the returned mapping again at every iteration of the loop at {f.loc(owning[0])}: "
                        "only the last requested path is answered", "an evaluation that loads two or more external paths gets one of them back: the others are reported as loaded before they are "
                        "produced, although each is committed"], "result-renewed", what=f"{c.name}.fetch_paths answers only the last requested path")
            elif inside:
                rep.ok(rule, f.qname, desc, f.loc(st))
            else:
                rep.bad(rule, f.qname, desc, f.loc(st), [f"{f.loc(st)}: the statement is after the loop at {f.loc(owning[0])}: only the last requested path is answered",
                        "an evaluation that loads two or more external paths fails ('loaded before it is produced'), although every record exists"], stmt_key(st),
                        what=f"{c.name}.fetch_paths answers only the last requested path")
    return n


def path_entry_presence(ctx: Ctx, v: "LocalView", rule: str) -> int:
    """fetch_paths resolves a path entry only after `os.path.exists(<that entry>)` held: the test follows the link (a link whose blob is
    gone - a failed or killed evaluation - is not a committed path) and it is made on the entry itself, not on its directory"""
    rep = ctx.report
    f = v.func("fetch_paths")
    effs = v.m.effects_of("fetch_paths")
    reals = [e for e in effs if e.kind == "PROBE" and str(e.extra.get("how", "")) == "realpath" and mentions_sym(e.term, "PATH")]
    n = 0
    for r in reals:
        n += 1
        same = [e for e in effs if e.kind == "PROBE" and e.term == r.term and e is not r]
        good = [e for e in same if str(e.extra.get("how", "")) in ("os.path.exists", "exists", "os.path.isfile", "is_file")]
        desc = f"the entry {show(r.term)} is resolved only after os.path.exists() of that entry"
        if good:
            rep.ok(rule, _site(v, "fetch_paths"), desc, f.loc(good[0].node))
        else:
            others = [f"{f.loc(e.node)}: {e.extra.get('how')}({show(e.term)})" for e in effs if e.kind == "PROBE" and e is not r]
            rep.bad(rule, _site(v, "fetch_paths"), desc, f.loc(r.node), [f"{f.loc(r.node)}: `{unparse(r.node, 50)}` resolves the entry", "presence tests of fetch_paths:"] + others + [
                    "a path whose link is not committed yet (directory created, process killed before the link) or whose link dangles (blob of a failed evaluation never written) is taken for "
                    "a committed path: dds.load returns None and readers are evaluated and stored on None"], "entry-presence",
                    what="fetch_paths resolves a path entry without a link-following existence test of that entry")
    return n


def dbfs_paths_validated(ctx: Ctx, rule: str) -> int:
    """DBFS store: before a path is turned into locations (the copy under <data_dir>/<path>, the redirection under <data_dir>/<reserved>/<path>), paths
    with '.' / '..' segments and paths that start with the reserved directory of the redirections are refused (a coded raise dominates every
    effect on a path-derived location)"""
    rep = ctx.report
    prog = ctx.prog
    cls = prog.cls("dds.codecs.databricks.DBFSStore")
    if cls is None:
        raise AnchorError("dds.codecs.databricks.DBFSStore not found")
    m = StoreModel(prog, cls, ctx._types)
    n = 0
    for method in ("sync_paths", "fetch_paths"):
        f = cls.methods.get(method)
        if f is None:
            continue
        effs = [e for e in m.effects_of(method) if e.kind in ("PUT", "HEAD", "CP", "RM") and (mentions_sym(e.term, "PATH") or (e.src is not None and mentions_sym(e.src, "PATH")))]
        # the reserved first segment: the literal that the redirection location inserts before the path
        reserved = set()
        for e in effs:
            for t in ([e.term] if e.kind in ("PUT", "HEAD") else []):
                for x in _walk_terms(t):
                    if isinstance(x, tuple) and len(x) == 2 and x[0] == "lit" and isinstance(x[1], str) and x[1].strip("/") and x[1].strip("/") not in (".", ""):
                        reserved.add(x[1].strip("/"))
        cfg = cfg_of(f)
        doms: List[Any] = []
        seen_consts: Set[str] = set()

        def guard_consts(g: Func, r: ast.Raise) -> Set[str]:
            gc = cfg_of(g)
            _o, atoms = pass_outcomes(gc, g.module, r)
            out: Set[str] = set()
            for a in atoms:
                out |= _str_consts(g, a)

            def _predicate_consts(e_: ast.AST) -> Set[str]:
                # a test that asks a package predicate (`_Layout.has_own_location(dds_p)`): the constants of the tests under which the predicate answers
                res: Set[str] = set()
                for c_ in ast.walk(e_):
                    if isinstance(c_, ast.Call):
                        for h_ in prog.callees(g, c_, ctx._types)[0]:
                            if h_.module.name.startswith("dds") and any(isinstance(r_, ast.Return) and isinstance(r_.value, ast.Constant) and isinstance(r_.value.value, bool) for r_ in h_.own_nodes()):
                                for t_ in h_.own_nodes():
                                    if isinstance(t_, (ast.If, ast.While)):
                                        res |= _str_consts(h_, t_.test)
                                    elif isinstance(t_, ast.comprehension):
                                        for i_ in t_.ifs:
                                            res |= _str_consts(h_, i_)
                return res
            for a in atoms:
                out |= _predicate_consts(a)
            if not atoms:
                # the inverted form of a check: `ok = <conditions>; if ok: return; raise ...` (also after the helper was expanded in place): the raise is what is
                # left when the tests of the preceding statements of its block let through - their constants, and those of the boolean locals they name
                fl_ = flow_of(prog, g)
                par_ = g.module.parent.get(r)
                body_ = None
                for fld in ("body", "orelse", "finalbody"):
                    b__ = getattr(par_, fld, None)
                    if isinstance(b__, list) and any(x is r for x in b__):
                        body_ = b__
                if body_ is not None:
                    for st_ in body_[: [i for i, x in enumerate(body_) if x is r][0]]:
                        if isinstance(st_, ast.If):
                            out |= _str_consts(g, st_.test)
                            out |= _predicate_consts(st_.test)
                            for y in ast.walk(st_.test):
                                if isinstance(y, ast.Name):
                                    try:
                                        ds_ = fl_.defs_of_use(y)
                                    except Exception:
                                        ds_ = []
                                    for d_ in ds_:
                                        if d_.value is not None:
                                            out |= _str_consts(g, d_.value)
            return out

        for r in [x for x in f.own_nodes() if isinstance(x, ast.Raise)]:
            cs = guard_consts(f, r)
            if {".", ".."} <= cs and (reserved & cs):
                po = pass_outcomes(cfg, f.module, r)[0]
                if not po:
                    # inverted form: the outcomes of the preceding tests of the block from which the raise cannot be reached ("the check let the path through")
                    par_ = f.module.parent.get(r)
                    for fld in ("body", "orelse", "finalbody"):
                        b__ = getattr(par_, fld, None)
                        if isinstance(b__, list) and any(x is r for x in b__):
                            for st_ in b__[: [i for i, x in enumerate(b__) if x is r][0]]:
                                if isinstance(st_, ast.If):
                                    for bn in cfg.nodes:
                                        if bn.kind == "branch" and bn.ast is not None and any(bn.ast is y for y in ast.walk(st_.test)):
                                            # (within the same iteration: the next iteration of an enclosing loop evaluates the check again)
                                            if cfg.find_path([bn], cfg.nodes_of(r), avoid=[x for x in cfg.nodes if x.kind == "loop"], include_src=False) is None:
                                                po.append(bn)
                doms += po
                seen_consts |= cs
        for c in [x for x in f.own_nodes() if isinstance(x, ast.Call)]:
            fs, _ = prog.callees(f, c, ctx._types)
            for h in fs:
                if h is f or not h.module.name.startswith("dds"):
                    continue
                for r in [x for x in h.own_nodes() if isinstance(x, ast.Raise)]:
                    cs = guard_consts(h, r)
                    if {".", ".."} <= cs and (reserved & cs):
                        doms += done_nodes(cfg, c)
                        seen_consts |= cs
        n += 1
        desc = f"DBFS {method}: paths with '.' / '..' segments or under the reserved directory {sorted(reserved)} are refused before a location is built from them"
        sites = []
        for e in effs:
            call = getattr(e, "root_node", None) or e.node
            sites += [(call, e)]
        bad_site = None
        for call, e in sites:
            w = dominated(ctx, f, call, doms) if doms else ["no refusal of such paths in this method (nor in a helper it calls)"]
            if w is not None:
                bad_site = (call, e, w)
                break
        if not effs:
            rep.unknown(rule, f.qname, "no effect on a path-derived location found", f.loc())
        elif bad_site is None:
            rep.ok(rule, f.qname, desc, f.loc())
        else:
            call, e, w = bad_site
            rep.bad(rule, f.qname, desc, f.loc(call), [f"{f.loc(call)}: {e.kind}({show(e.term)}) is reached without such a refusal"] + w[-5:] + [
                    "'/_dds_meta/x' is the redirection of '/x' (under the full commit the copy of one overwrites the record of the other); '/a/./b' and '/a/b' share their locations; "
                    "'/../../x' is written outside the store directories"], f"dbfs-unvalidated:{method}", what=f"DBFS {method} builds locations from paths it should refuse")
    return n


def _walk_terms(t: Any):
    yield t
    if isinstance(t, tuple):
        for x in t[1:]:
            yield from _walk_terms(x)


def record_rewritten_unless_current(ctx: Ctx, rule: str) -> int:
    """DBFS sync_paths: an iteration ends without writing the redirect record of its path only after a comparison showed that the
    record read from the store already names the key being committed"""
    rep = ctx.report
    prog = ctx.prog
    cls = prog.cls("dds.codecs.databricks.DBFSStore")
    if cls is None or "sync_paths" not in cls.methods:
        raise AnchorError("dds.codecs.databricks.DBFSStore.sync_paths not found")
    f = cls.methods["sync_paths"]
    m = StoreModel(prog, cls, ctx._types)
    puts = [e for e in m.effects_of("sync_paths") if e.kind == "PUT" and mentions_sym(e.term, "PATH")]
    cfg = cfg_of(f)
    n = 0
    for loop in [x for x in f.own_nodes() if isinstance(x, ast.For)]:
        if not (isinstance(loop.target, (ast.Tuple, ast.List)) and len(loop.target.elts) == 2 and isinstance(loop.target.elts[1], ast.Name)):
            continue
        keyv = loop.target.elts[1].id
        n += 1
        put_nodes = []
        for e in puts:
            call = getattr(e, "root_node", None) or e.node
            put_nodes += [g for g in cfg.nodes_of(call)]
        eq_nodes = []
        for b in cfg.nodes:
            if b.kind == "branch" and isinstance(b.ast, ast.Compare) and len(b.ast.ops) == 1 and isinstance(b.ast.ops[0], (ast.Eq, ast.NotEq)):
                sides = [b.ast.left, b.ast.comparators[0]]
                if any(isinstance(x, ast.Name) and x.id == keyv for x in sides):
                    if (isinstance(b.ast.ops[0], ast.Eq) and b.label == "T") or (isinstance(b.ast.ops[0], ast.NotEq) and b.label == "F"):
                        eq_nodes.append(b)
        # the comparison may be kept in a boolean local first: `needs_update = k is None or k != key` ... `if not needs_update: continue`
        fl_ = flow_of(prog, f)

        def _cmp_key(a: ast.AST, op) -> bool:
            return isinstance(a, ast.Compare) and len(a.ops) == 1 and isinstance(a.ops[0], op) and any(
                isinstance(x, ast.Name) and x.id == keyv for x in [a.left, a.comparators[0]])
        for b in cfg.nodes:
            if b.kind == "branch" and isinstance(b.ast, ast.Name):
                ds = fl_.defs_of_use(b.ast)
                if len(ds) == 1 and isinstance(ds[0].value, ast.BoolOp):
                    v_ = ds[0].value
                    if isinstance(v_.op, ast.Or) and b.label == "F" and any(_cmp_key(a, ast.NotEq) for a in v_.values):
                        eq_nodes.append(b)
                    if isinstance(v_.op, ast.And) and b.label == "T" and any(_cmp_key(a, ast.Eq) for a in v_.values):
                        eq_nodes.append(b)
        tb = [x for x in cfg.nodes if x.kind == "branch" and x.ast is loop and x.label == "T"]
        heads = [x for x in cfg.nodes if x.kind == "loop" and x.ast is loop]
        desc = "an iteration of DBFS sync_paths leaves the redirect record as it is only when the record names the committed key"
        if not put_nodes or not tb or not heads:
            rep.unknown(rule, f.qname, "redirect record write of DBFS sync_paths not found", f.loc(loop))
            continue
        pth = cfg.find_path(tb, heads + [cfg.exit], avoid=put_nodes + eq_nodes, include_src=False)
        opaque = opaque_decision_on_path(ctx, f, pth, {keyv}) if pth is not None else None
        if pth is None:
            rep.ok(rule, f.qname, desc, f.loc(loop))
        elif opaque is not None:
            rep.unknown(rule, f.qname, f"the iteration is decided by `{opaque}`, a method of a local object that is given the key: the comparison is not visible to this rule", f.loc(loop))
        else:
            from .common import witness_path
            rep.bad(rule, f.qname, desc, f.loc(loop), ["an iteration that keeps a record without comparing it with the key:"] + witness_path(cfg, f, pth)[-10:] + [
                    "a path committed a second time with another key (re-keep with changed code) keeps resolving to the old key; under the 'full' commit type the data copy stays stale"],
                    "record-kept", what="DBFS sync_paths keeps an existing redirect record whatever key it names")
    return n


def opaque_decision_on_path(ctx: Ctx, f: Func, pth: List[Any], names: Set[str]) -> Optional[str]:
    """A branch of the path whose test is the answer of a package function / a method of a local object that is handed one of `names` (the key of the iteration, the
    commit flag): the comparison this rule looks for may sit in that callee, which the analysis did not expand - the rule must not decide.  The callee's text, or None."""
    prog = ctx.prog
    fl = flow_of(prog, f)
    for b in pth:
        if getattr(b, "kind", "") != "branch" or b.ast is None or not isinstance(b.ast, ast.expr):
            continue
        exprs = [b.ast]
        for y in ast.walk(b.ast):
            if isinstance(y, ast.Name) and isinstance(y.ctx, ast.Load):
                try:
                    exprs += [d.value for d in fl.defs_of_use(y) if d.value is not None and getattr(d, "kind", "assign") == "assign"]
                except Exception:
                    pass
        # a field of a local object that a package callable built (`current = _Redirection.parse(meta, ..)`, `if current.copied:`)
        for e in exprs:
            for a_ in ast.walk(e):
                if isinstance(a_, ast.Attribute) and isinstance(a_.value, ast.Name) and a_.value.id not in ("self", "cls") and prog.is_local(f, a_.value.id):
                    try:
                        ds_ = fl.defs_of_use(a_.value)
                    except Exception:
                        ds_ = []
                    for d_ in ds_:
                        v_ = d_.value
                        if isinstance(v_, ast.Call) and any(g.module.name.startswith("dds") for g in prog.callees(f, v_, ctx._types)[0]):
                            return unparse(a_, 40) + " of " + unparse(v_, 50)
        for e in exprs:
            for c in ast.walk(e):
                if not (isinstance(c, ast.Call) and isinstance(c.func, ast.Attribute)):
                    continue
                args = list(c.args) + [k.value for k in c.keywords]
                if not any(isinstance(a, ast.Name) and a.id in names for a in args):
                    continue
                recv = c.func.value
                if isinstance(recv, ast.Name) and recv.id not in ("self", "os", "json", "cls") and prog.is_local(f, recv.id):
                    return unparse(c, 60)
                fs, _ = prog.callees(f, c, ctx._types)
                if any(g.module.name.startswith("dds") for g in fs):
                    return unparse(c, 60)
    return None


def uri_join_keeps_names(ctx: Ctx, rule: str) -> int:
    """The URI join of the DBFS store removes separator syntax only: a statement `s = s[k:]` is reached only under a test
    that pins what is removed to a separator (`s == LIT`, or `s.startswith(LIT)` with LIT ending in '/'). A bare
    `s.startswith('.')` also matches '.hidden' and cuts into the name: '/.a/b' and '/a/b' then share a location."""
    rep = ctx.report
    prog = ctx.prog
    cls = prog.cls("dds.codecs.databricks.DBFSURI")
    if cls is None or "joinpath" not in cls.methods:
        raise AnchorError("role URI join (dds.codecs.databricks.DBFSURI.joinpath) not found")
    n = 0
    sites = [(g, st) for g in cls.methods.values() for st in g.own_nodes()]
    for f, st in sites:
        if not (isinstance(st, ast.Assign) and len(st.targets) == 1 and isinstance(st.targets[0], ast.Name) and isinstance(st.value, ast.Subscript)
                and isinstance(st.value.value, ast.Name) and st.value.value.id == st.targets[0].id and isinstance(st.value.slice, ast.Slice)
                and st.value.slice.upper is None and isinstance(st.value.slice.lower, ast.Constant)):
            continue
        n += 1
        var, k = st.targets[0].id, st.value.slice.lower.value
        guard = None
        for a in f.module.parent and _ancestors_of(f, st):
            if isinstance(a, ast.If) and any(x is st for b in a.body for x in ast.walk(b)):
                guard = a
                break
        desc = f"`{unparse(st, 30)}` removes separator syntax only"
        wit: List[str] = []
        if guard is None:
            wit.append(f"{f.loc(st)}: unconditional removal of {k} character(s)")
        else:
            atoms = guard.test.values if isinstance(guard.test, ast.BoolOp) and isinstance(guard.test.op, ast.Or) else [guard.test]
            for a in atoms:
                lit = None
                exact = False
                if isinstance(a, ast.Compare) and len(a.ops) == 1 and isinstance(a.ops[0], ast.Eq) and isinstance(a.left, ast.Name) and a.left.id == var \
                        and isinstance(a.comparators[0], ast.Constant) and isinstance(a.comparators[0].value, str):
                    lit, exact = a.comparators[0].value, True
                elif isinstance(a, ast.Call) and isinstance(a.func, ast.Attribute) and a.func.attr == "startswith" and isinstance(a.func.value, ast.Name) \
                        and a.func.value.id == var and a.args and isinstance(a.args[0], ast.Constant) and isinstance(a.args[0].value, str):
                    lit = a.args[0].value
                if lit is None:
                    wit.append(f"{f.loc(a)}: test `{unparse(a, 50)}` does not pin the removed text")
                elif not all(ch in "./" for ch in lit[:k]) or k > len(lit):
                    wit.append(f"{f.loc(a)}: removes {lit[:k]!r} / more than the tested prefix {lit!r}")
                elif not exact and not lit.endswith("/"):
                    wit.append(f"{f.loc(a)}: `{unparse(a, 40)}` also matches a name that merely begins with {lit!r} ('.hidden'): its first character is cut, "
                               "so '/.a/b' and '/a/b' are joined to the same location (data copies overwrite each other; with the path passed as its own segment the redirect records alias too)")
        if wit:
            rep.bad(rule, f.qname, desc, f.loc(st), wit, stmt_key(st), what="the URI join of the DBFS store cuts the leading '.' of hidden names: distinct paths alias")
        else:
            rep.ok(rule, f.qname, desc, f.loc(st))
    # every segment is appended, whatever the spelling of the base (with or without a trailing separator)
    jp = cls.methods.get("joinpath")
    if jp is not None:
        jcfg = cfg_of(jp)
        for loop in [x for x in jp.own_nodes() if isinstance(x, ast.For)]:
            n += 1
            lv = {y.id for y in ast.walk(loop.target) if isinstance(y, ast.Name)}
            # names derived from the loop variable inside the body (s = str(seg) ...)
            derived = set(lv)
            changed = True
            while changed:
                changed = False
                for st in ast.walk(loop):
                    if isinstance(st, (ast.Assign, ast.AnnAssign)) and getattr(st, "value", None) is not None:
                        tg = st.targets[0] if isinstance(st, ast.Assign) else st.target
                        if isinstance(tg, ast.Name) and tg.id not in derived and any(isinstance(y, ast.Name) and y.id in derived for y in ast.walk(st.value)):
                            derived.add(tg.id)
                            changed = True
            # the text of a segment is the whole segment (a Path segment may hold several names: 'a/b')
            lossy = []
            for x in ast.walk(loop):
                if isinstance(x, ast.Attribute) and isinstance(x.value, ast.Name) and x.value.id in lv and x.attr in ("name", "stem", "suffix", "parent", "parts", "anchor", "root", "drive"):
                    lossy.append(x)
                elif isinstance(x, ast.Call) and unparse(x.func).split(".")[-1] in ("basename", "dirname", "split", "splitext") and x.args and isinstance(x.args[0], ast.Name) and x.args[0].id in lv:
                    lossy.append(x)
            n += 1
            desc_l = "a segment enters the URI with its whole text (str(segment)), not with a part of it"
            if lossy:
                rep.bad(rule, jp.qname, desc_l, jp.loc(lossy[0]), [f"{jp.loc(lossy[0])}: `{unparse(lossy[0], 50)}` keeps one component of the segment: a path segment such as Path('left/result') "
                        "is joined as 'result'", "the redirect records / data copies of all paths with the same last name share one location: committing '/right/result' switches '/left/result'"],
                        "segment-part", what="the URI join keeps only a part of a path segment: distinct paths share a location")
            else:
                rep.ok(rule, jp.qname, desc_l, jp.loc(loop))
            rets = [r.value.args[0].id for r in jp.own_nodes() if isinstance(r, ast.Return) and isinstance(r.value, ast.Call) and r.value.args and isinstance(r.value.args[0], ast.Name)]
            acc = rets[0] if rets else None
            appends = [st for st in ast.walk(loop) if isinstance(st, ast.Assign) and isinstance(st.targets[0], ast.Name) and st.targets[0].id == acc
                       and any(isinstance(y, ast.Name) and y.id in (derived - {acc}) for y in ast.walk(st.value))]
            desc = "every segment is appended to the URI on every iteration"
            heads = [x for x in jcfg.nodes if x.kind == "loop" and x.ast is loop]
            tb = [x for x in jcfg.nodes if x.kind == "branch" and x.ast is loop and x.label == "T"]
            if acc is None or not appends or not heads or not tb:
                rep.unknown(rule, jp.qname, "accumulation of the joined URI not understood", jp.loc(loop))
                continue
            app_nodes = [x for a in appends for x in jcfg.nodes_of(a)]
            pth = jcfg.find_path(tb, heads, avoid=app_nodes)
            if pth is None:
                rep.ok(rule, jp.qname, desc, jp.loc(appends[0]))
            else:
                rep.bad(rule, jp.qname, desc, jp.loc(loop), ["iteration that appends nothing:"] + CFG.show_path(pth, jp.module.relpath) + [
                        "with a directory URI that ends with '/' every join returns the base unchanged: all redirect records (and blobs) share one location"],
                        stmt_key(loop), what="the URI join drops the segment when the base ends with a separator")
    return n


def _ancestors_of(f: Func, node: ast.AST):
    cur = node
    while cur in f.module.parent:
        cur = f.module.parent[cur]
        yield cur
        if isinstance(cur, (ast.FunctionDef, ast.AsyncFunctionDef)):
            return


def link_current_test(ctx: Ctx, v: LocalView, rule: str) -> int:
    """An existing path entry is left alone only when it is known to designate the blob of THIS store: the test that
    skips the (re)creation of a link must hold the comparison  <whole target of the entry> == <blob location term>."""
    rep = ctx.report
    m = v.m
    m.expr_terms = {}
    effs = m.effects_of("sync_paths")
    n = 0
    for e in _dedupe([x for x in effs if x.kind == "LINK"]):
        target = e.src
        loc = e.term
        if unique_sources(loc):
            ren = [r for r in effs if r.kind == "RENAME_INTO" and r.src == loc]
            loc = ren[0].term if ren else strip_unique(loc)
        for test, outcome in e.conds:
            tt = m.expr_terms.get(id(test))
            if tt is None or not contains(tt, lambda x: x == loc):
                continue  # not a test about the existing entry
            n += 1
            desc = f"`{unparse(test, 70)}` leaves an existing entry alone only if its whole target is {show(target)}"
            conj: List[ast.AST] = []
            equalities: List[ast.AST] = []
            seen_names: List[str] = []

            def split(t: ast.AST, pos: bool) -> bool:
                """conjuncts that hold on the skipping outcome; False when the shape is not a conjunction there"""
                if isinstance(t, ast.UnaryOp) and isinstance(t.op, ast.Not):
                    return split(t.operand, not pos)
                if isinstance(t, ast.BoolOp):
                    if (isinstance(t.op, ast.And) and pos) or (isinstance(t.op, ast.Or) and not pos):
                        return all(split(x, pos) for x in t.values)
                    return False
                if isinstance(t, ast.Name) and len(seen_names) < 4:
                    # a boolean local (`stale = not os.path.exists(loc) or os.path.realpath(loc) != loc_blob`) stands for its definition
                    try:
                        ds_ = flow_of(ctx.prog, e.func or v.func("sync_paths")).defs_of_use(t)
                    except Exception:
                        ds_ = []
                    if len(ds_) == 1 and getattr(ds_[0], "kind", "assign") == "assign" and isinstance(ds_[0].value, (ast.BoolOp, ast.UnaryOp, ast.Compare)):
                        seen_names.append(t.id)
                        return split(ds_[0].value, pos)
                if isinstance(t, ast.Compare) and len(t.ops) == 1 and ((isinstance(t.ops[0], ast.Eq) and pos) or (isinstance(t.ops[0], ast.NotEq) and not pos)):
                    equalities.append(t)
                conj.append(t if pos else ast.UnaryOp(op=ast.Not(), operand=t))
                return True

            skipping_outcome = not outcome  # the effect runs under `outcome`; the entry is left alone under the other one
            if not split(test, skipping_outcome):
                rep.unknown(rule, _site(v, "sync_paths"), f"up-to-date test `{unparse(test, 60)}` is not a conjunction on the skipping outcome", e.where())
                continue
            ok = False

            def whole_cmp(at: Any) -> bool:
                if isinstance(at, tuple) and at and at[0] == "cmp" and len(at) == 3:
                    for x, y in ((at[1], at[2]), (at[2], at[1])):
                        whole = (x == ("real", loc)) or (isinstance(x, tuple) and x[0] == "call" and any(isinstance(z, str) and z.endswith("readlink") for z in x[1:3])
                                                          and loc in x[1:])
                        if whole and (y == target or y == ("real", target)):
                            return True
                return False

            for a in conj:
                at = m.expr_terms.get(id(a))
                if isinstance(a, ast.Compare) and len(a.ops) == 1 and isinstance(a.ops[0], ast.Eq) and whole_cmp(at):
                    ok = True
                elif isinstance(a, ast.UnaryOp) and any(a.operand is q for q in equalities) and whole_cmp(m.expr_terms.get(id(a.operand))):
                    ok = True  # `not (<whole target> != <blob location>)`
                elif isinstance(a, ast.Call) and contains(at, whole_cmp):
                    ok = True  # a package helper whose (inlined) result holds the comparison
            if ok:
                rep.ok(rule, _site(v, "sync_paths"), desc, e.where())
            else:
                rep.bad(rule, _site(v, "sync_paths"), desc, e.where(),
                        [f"{e.where()}: the entry {show(loc)} is kept when `{unparse(test, 80)}`", f"terms compared: {show(tt)}",
                         "no conjunct compares the entry's whole target with the blob location of this store: an entry left by another (moved / removed) internal "
                         "directory with the same key is taken for current, keep succeeds and the following load finds a dangling entry"],
                        "link-current", what="a stale path entry pointing into another internal directory is not replaced")
    return n


def confined_destruction(ctx: Ctx, v: LocalView, rule: str) -> int:
    rep = ctx.report
    n = 0
    for e in _dedupe([x for x in v.eff["sync_paths"] if x.kind in ("REMOVE", "RMTREE", "RENAME_INTO", "LINK", "WRITE_INPLACE")]):
        n += 1
        desc = f"{e.kind}({show(e.term)}) in sync_paths only touches the entry of the path being committed"
        base = strip_unique(e.term) if unique_sources(e.term) else e.term
        if base in v.L:
            rep.ok(rule, _site(v, "sync_paths"), desc, e.where())
        else:
            rep.bad(rule, _site(v, "sync_paths"), desc, e.where(), [f"{e.where()}: {e!r} is not a term of the current path: other committed paths lose their content"],
                    f"destroy:{show(e.term)}", what="sync_paths modifies locations that do not belong to the committed path")
    return n


def roots_absolute(ctx: Ctx, v: LocalView, rule: str) -> int:
    rep = ctx.report
    n = 0
    init = v.m.init
    where = init.loc() if init is not None else v.cls.module.relpath
    attrs: Set[str] = set()
    for effs in v.eff.values():
        for e in effs:
            for t in (e.term, e.src):
                if t is not None:
                    _collect_attrs(t, attrs)
    for a in sorted(attrs):
        d = v.m.attr_defs.get(a)
        if d is None or not contains(d, lambda x: isinstance(x, tuple) and x and x[0] == "ctor"):
            continue
        n += 1
        desc = f"root attribute self.{a} is made absolute in the constructor"
        if isinstance(d, tuple) and d[0] in ("abs", "real") or (isinstance(d, tuple) and d[0] == "call" and d[1] in ("resolve", "absolute")):
            rep.ok(rule, v.cls.qname + ".__init__", desc, where)
        else:
            rep.bad(rule, v.cls.qname + ".__init__", desc, where,
                    [f"self.{a} = {show(d)}", "with a relative directory the link target is resolved relative to the link's own directory (dangling), "
                     "and a later chdir moves the store"], f"root:{a}", what=f"self.{a} keeps a relative directory as given")
    return n


def entries_apart_from_directories(ctx: Ctx, v: LocalView, rule: str) -> int:
    """The entry of a path (the link that sync_paths publishes) never has the name of a directory that the entry of a LONGER path needs: with the entry of P at
    <data>/<segments of P> and the directories of P/x made by makedirs(dirname(<data>/<segments of P/x>)) = <data>/<segments of P>, the two collide - the dictionary
    model of the property holds '/a' and '/a/b' together, the local store raises FileExistsError / IsADirectoryError on the second commit."""
    rep = ctx.report
    effs = v.m.effects_of("sync_paths")
    entries = [e for e in effs if e.kind in ("RENAME_INTO", "LINK") and mentions_sym(e.term, "PATH") and not unique_sources(e.term)]
    mkdirs = [e for e in effs if e.kind == "MKDIR" and mentions_sym(e.term, "PATH")]
    n = 0
    for e in _dedupe(entries):
        n += 1
        E = e.term
        last_is_segment = isinstance(E, tuple) and E and E[0] == "join" and isinstance(E[-1], tuple) and E[-1][:1] == ("star",) and isinstance(E[-1][1], tuple) and E[-1][1][:1] == ("segs",)
        clash = [m_ for m_ in mkdirs if m_.term == ("dirname", E)]
        desc = f"the entry {show(E)} of a path cannot be the directory that a longer path needs"
        if last_is_segment and clash:
            rep.bad(rule, _site(v, "sync_paths"), desc, e.where(), [f"{e.where()}: the entry is named by the path's segments alone", f"{clash[0].where()}: the directories of a longer path are "
                    f"{show(clash[0].term)}: for the path P/x that is the entry of P", "sync_paths({'/a': k1}) then sync_paths({'/a/b': k2}): FileExistsError from os.makedirs; the other order: "
                    "IsADirectoryError from os.replace and a stray temporary link (demo: /verif/findings/K10_prefix_paths_across_evaluations.py)"], "entry-is-directory-name",
                    what="a path and a longer path that starts with it cannot both be committed to the local store")
        else:
            rep.ok(rule, _site(v, "sync_paths"), desc, e.where())
    return n


def per_path_state_is_fresh(ctx: Ctx, rule: str) -> int:
    """In the loop of `sync_paths` / `fetch_paths` over the requested paths, what is known about ONE path (the key its record names, whether its copy exists) is established again
    at every iteration: a local that the body assigns is never read on a path of the body that skips all its assignments - there it would still hold what the previous path
    left (or the initial value written before the loop), and the decision for this path would be taken with the state of another one."""
    rep = ctx.report
    prog = ctx.prog
    n = 0
    for cq in sorted(prog.subclasses("dds.store.Store")):
        c = prog.classes[cq]
        for mname in ("sync_paths", "fetch_paths"):
            f = c.methods.get(mname)
            if f is None:
                continue
            params = set(f.positional_params())
            cfg = cfg_of(f)
            for loop in [x for x in f.own_nodes() if isinstance(x, ast.For) and any(isinstance(y, ast.Name) and y.id in params for y in ast.walk(x.iter))]:
                body_nodes = [y for b_ in loop.body for y in ast.walk(b_)]
                targets = {y.id for y in ast.walk(loop.target) if isinstance(y, ast.Name)}
                assigned: Dict[str, List[ast.AST]] = {}
                for y in body_nodes:
                    if isinstance(y, (ast.Assign, ast.AnnAssign)) and getattr(y, "value", None) is not None:
                        for t in (y.targets if isinstance(y, ast.Assign) else [y.target]):
                            for z in ast.walk(t):
                                if isinstance(z, ast.Name) and isinstance(z.ctx, ast.Store):
                                    assigned.setdefault(z.id, []).append(y)
                    elif isinstance(y, (ast.For, ast.comprehension)):
                        for z in ast.walk(y.target):
                            if isinstance(z, ast.Name):
                                assigned.setdefault(z.id, []).append(y)
                    elif isinstance(y, ast.withitem) and y.optional_vars is not None:
                        for z in ast.walk(y.optional_vars):
                            if isinstance(z, ast.Name):
                                assigned.setdefault(z.id, []).append(y)
                    elif isinstance(y, ast.ExceptHandler) and y.name:
                        assigned.setdefault(y.name, []).append(y)
                heads = [b for b in cfg.nodes if b.kind == "branch" and b.ast is loop and b.label == "T"]
                for v_, defs in sorted(assigned.items()):
                    if v_ in targets:
                        continue
                    if any(isinstance(d, (ast.comprehension, ast.For, ast.withitem, ast.ExceptHandler)) for d in defs):
                        continue  # bound by the construct that uses it
                    uses = [y for y in body_nodes if isinstance(y, ast.Name) and y.id == v_ and isinstance(y.ctx, ast.Load)]
                    if not uses:
                        continue
                    n += 1
                    def_nodes = [nd for d in defs for nd in done_nodes(cfg, d)]
                    stale = None
                    for u in uses:
                        st_u = prog.enclosing_stmt(f.module, u)
                        # (a use inside its own defining statement - `x = x + 1` - reads the previous value by design: not this rule's business)
                        tg = [nd for nd in cfg.nodes_of(st_u)] or [nd for nd in cfg.nodes if nd.ast is not None and any(z is u for z in ast.walk(nd.ast))]
                        tg = [nd for nd in cfg.nodes if nd.kind in ("stmt", "test", "loop") and nd.ast is not None and any(z is u for z in nd.exprs() for z in ast.walk(z))] or tg
                        if any(st_u is d for d in defs):
                            continue
                        p_ = cfg.find_path(heads, tg, avoid=def_nodes + [b for b in cfg.nodes if b.kind == "loop" and b.ast is loop])
                        if p_ is not None:
                            stale = (u, p_)
                            break
                    desc = f"{c.name}.{mname}: `{v_}` is established again for every path before it is read"
                    if stale is None:
                        rep.ok(rule, f.qname, desc, f.loc(defs[0]))
                    else:
                        u, p_ = stale
                        rep.bad(rule, f.qname, desc, f.loc(u), [f"{f.loc(u)}: `{v_}` is read on a path of the loop body that assigns it nowhere:"] + CFG.show_path(p_, f.module.relpath)[-5:] + [
                                "sync_paths([P1 -> K (already committed), P2 -> K (new)]): P2 is judged with the record of P1 - 'up to date' - and gets neither record nor copy; fetch_paths cannot "
                                "resolve it although sync_paths returned normally"], f"loop-carried:{v_}", what=f"{c.name}.{mname} decides about one path with what it learnt about the previous one")
    return n


def uri_join_is_a_path_join(ctx: Ctx, rule: str) -> int:
    """`DBFSURI.joinpath` puts exactly one '/' between what it has built so far and the next segment - whatever the spelling of the root (with or without a trailing slash)
    and however many segments are joined at once.  Abstract evaluation of the method on sample roots and segment lists, compared with the plain path join."""
    from ..absint import Evaluator, Const, Obj, Unsupported
    rep = ctx.report
    prog = ctx.prog
    f = prog.func("dds.codecs.databricks.DBFSURI.joinpath")
    if f is None:
        raise AnchorError("role URI join (dds.codecs.databricks.DBFSURI.joinpath) not found")
    n = 0
    for root in ("dbfs:/store/int", "dbfs:/store/int/"):
        for segs in (["blobs"], ["blobs", "abcd"], ["blobs", "abcd.meta"], ["a", "b", "c"]):
            n += 1
            want = root.rstrip("/") + "/" + "/".join(segs)
            desc = f"joinpath of {root!r} and {segs} is {want!r}"
            o = Obj("dds.codecs.databricks.DBFSURI", [], {"_uri": Const(root)})
            o.instance = True
            try:
                outs = Evaluator(prog, max_depth=12, instance_modules=["dds.codecs.databricks"]).run(f, [o] + [Const(x) for x in segs])
            except Unsupported as e:
                rep.unknown(rule, f.qname, f"abstract evaluation of joinpath stopped: {e}", f.loc())
                continue
            got = set()
            for out in outs:
                v = out.value
                if out.kind == "return" and isinstance(v, Obj) and (v.args or v.kwargs):
                    a0 = v.args[0] if v.args else list(v.kwargs.values())[0]
                    got.add(a0.v if isinstance(a0, Const) else repr(a0))
                else:
                    got.add(f"<{out.kind}>")
            if got == {want}:
                rep.ok(rule, f.qname, desc, f.loc())
            else:
                rep.bad(rule, f.qname, desc, f.loc(), [f"{f.loc()}: the method gives {sorted(got)}", "a store opened as 'dbfs:/store/int/' (trailing slash) looks for its blobs at "
                        "'.../intblobs<key>'-like names: the blobs written under the other spelling - legacy blobs included - are not found, load fails although the record exists"],
                        f"uri-join:{root}:{len(segs)}", what="the URI join of the DBFS store glues segments together for some spelling of the root")
    return n


def _collect_attrs(t: Any, out: Set[str]) -> None:
    if isinstance(t, tuple) and t:
        if t[0] == "attr":
            out.add(t[1])
        for x in t[1:]:
            _collect_attrs(x, out)


def independent_views(ctx: Ctx, v: LocalView, rule: str) -> int:
    rep = ctx.report
    params = v.m.ctor_params
    if len(params) < 2:
        rep.unknown(rule, v.cls.qname, "constructor does not take (internal_dir, data_dir)", v.cls.module.relpath)
        return 0
    internal = [a for a, d in v.m.attr_defs.items() if contains(d, lambda x: isinstance(x, tuple) and x[:2] == ("ctor", 0))]
    data = [a for a, d in v.m.attr_defs.items() if contains(d, lambda x: isinstance(x, tuple) and x[:2] == ("ctor", 1))]
    where = v.func("store_blob").loc()
    n = 0
    for t in v.visible:
        n += 1
        is_blob = mentions_sym(t, "KEY")
        uses_int = any(mentions_attr(t, a) for a in internal)
        uses_data = any(mentions_attr(t, a) for a in data)
        if is_blob:
            desc = f"blob name {show(t)} depends on the internal directory only (shared between data views)"
            ok = uses_int and not uses_data
        else:
            desc = f"path entry {show(t)} depends on the data directory only (each view has its own paths)"
            ok = uses_data and not uses_int
        if ok:
            rep.ok(rule, v.cls.qname, desc, where)
        else:
            rep.bad(rule, v.cls.qname, desc, where, [f"internal attrs {internal}, data attrs {data}; term {show(t)}"], f"view:{show(t)}",
                    what="blob / path locations mix the internal and the data directory")
    return n


def no_shared_removal(ctx: Ctx, v: LocalView, rule: str) -> int:
    """no store code removes a name it did not create in the same call (another process may be using it)"""
    rep = ctx.report
    n = 0
    for method, effs in list(v.eff.items()) + [("__init__", v.init)]:
        for e in _dedupe([x for x in effs if x.kind in ("REMOVE", "RMTREE")]):
            n += 1
            own = bool(unique_sources(e.term) & set(REAL_UNIQUE))
            desc = f"{e.kind}({show(e.term)}) only removes a name this call created itself"
            if own:
                rep.ok(rule, _site(v, method), desc, e.where())
            else:
                rep.bad(rule, _site(v, method), desc, e.where(), [f"{e.where()}: {e!r}" ] + e.via + [
                    "the name can belong to another process (a committed entry, or a temporary file between its write and its rename): that process "
                    "then fails with FileNotFoundError, or a reader finds the entry gone"], f"rm:{method}:{show(e.term)}", what=f"{method} removes files it does not own")
    if n == 0:
        rep.ok(rule, v.cls.qname, "the store removes no file or directory", v.func("store_blob").loc())
    return n


def rename_after_close(ctx: Ctx, v: LocalView, rule: str) -> int:
    """a temporary is renamed into place only after the file object that writes it was closed"""
    rep = ctx.report
    n = 0
    for f in [g for g in ctx.prog.funcs.values() if g.module is v.cls.module]:
        for w in [x for x in f.own_nodes() if isinstance(x, ast.With)]:
            opened = []
            for it in w.items:
                c = it.context_expr
                if isinstance(c, ast.Call) and unparse(c.func) == "open" and c.args and len(c.args) > 1 and isinstance(c.args[1], ast.Constant) and any(ch in str(c.args[1].value) for ch in "wax"):
                    opened.append(unparse(c.args[0]))
            if not opened:
                continue
            n += 1
            inside = [x for x in ast.walk(ast.Module(body=w.body, type_ignores=[])) if isinstance(x, ast.Call) and unparse(x.func) in ("os.replace", "os.rename", "shutil.move")
                      and x.args and unparse(x.args[0]) in opened]
            desc = f"the file written under `{opened[0]}` is closed before it is renamed into place"
            if inside:
                rep.bad(rule, f.qname, desc, f.loc(inside[0]), [f"{f.loc(inside[0])}: `{unparse(inside[0], 60)}` inside the `with open(...)` block that writes the file",
                        "the name is published while the content is still buffered: a kill between the rename and the close leaves an empty / truncated file under the final name"],
                        stmt_key(inside[0]), what="a temporary is renamed into place before it is flushed and closed")
            else:
                rep.ok(rule, f.qname, desc, f.loc(w))
    return n


# ------------------------------------------------------------------------------------------
# typestate exploration of the extracted effect sequences (crash points, interleavings)
# ------------------------------------------------------------------------------------------
def _sim_setup(ctx: Ctx, v: LocalView):
    from .. import crashsim as cs

    sim = cs.Sim(v.m, {})
    blob_terms = [t for t in v.visible if _key_suffix(t) == ""]
    # the boolean expression has_blob returns (with the terms of its sub-expressions), for the reader's view
    saved = getattr(v.m, "expr_terms", None)
    v.m.expr_terms = {}
    v.m.effects_of("has_blob")
    sim.aux_terms = dict(v.m.expr_terms)
    v.m.expr_terms = saved if saved is not None else {}
    hb = v.func("has_blob")
    rets = [r for r in hb.own_nodes() if isinstance(r, ast.Return) and r.value is not None]
    sim.presence_expr = rets[0].value if len(rets) == 1 and isinstance(rets[0].value, (ast.BoolOp, ast.Call, ast.UnaryOp)) else None
    return cs, sim, blob_terms


def crash_sweep(ctx: Ctx, v: LocalView, rule: str) -> int:
    """kill the writer after every prefix of its extracted step sequence; observe; re-run"""
    rep = ctx.report
    cs, sim, blob_terms = _sim_setup(ctx, v)
    n = 0
    if not blob_terms or not v.L:
        rep.unknown(rule, v.cls.qname, "blob / path terms not identified for the crash sweep", v.cls.module.relpath)
        return 0
    blob_t, L = blob_terms[0], v.L[0]
    base_dirs = {}
    try:
        # ---- store_blob ------------------------------------------------------------------------
        steps = cs.steps_of(v.m, "store_blob")
        envA = {"KEY": "k1", "pid": "1", "uid": "a", "version": "new", "PATH": "p"}
        worst = None
        for i in range(len(steps) + 1):
            n += 1
            fs = cs.FS(base_dirs)
            pa = cs.Proc("killed writer", steps, envA)
            trace = []
            for _ in range(i):
                trace.append(repr(pa.steps[pa.pc]))
                sim.step(pa, fs)
            msg = cs.blob_view(sim, fs, v.H, v.F, envA)
            if msg is None:
                for (pid, uid, who) in (("2", "b", "a recovery process"), ("1", "b", "a recovery process that got the pid of the killed one")):
                    fs2 = fs.clone()
                    pb = cs.Proc(who, steps, {**envA, "pid": pid, "uid": uid})
                    try:
                        cs.run_all(sim, pb, fs2)
                    except cs.Failure as f_:
                        msg = f"after the kill, {f_.what}"
                        break
                    m2 = cs.blob_view(sim, fs2, v.H, v.F, envA)
                    if m2 is None and not all(fs2.exists(cs.inst(t, envA)) for t in v.H):
                        m2 = "after a complete re-run of store_blob the key is still not reported present"
                    if m2:
                        msg = f"after the kill and a complete re-run by {who}: {m2}"
                        break
            if msg and worst is None:
                worst = (i, trace, msg)
        desc = f"store_blob killed after each of its {len(steps)} atomic steps: a later process never sees has_blob without a complete entry, and can store the key again"
        if worst is None:
            rep.ok(rule, _site(v, "store_blob"), desc, v.func("store_blob").loc())
        else:
            i, trace, msg = worst
            rep.bad(rule, _site(v, "store_blob"), desc, v.func("store_blob").loc(), [f"kill after step {i}: " + (trace[-1] if trace else "<before the first step>"), msg] + trace[-6:],
                    "crash-store_blob", what="a kill inside store_blob leaves a store that serves wrong data or cannot be repaired by re-running")
        # ---- sync_paths --------------------------------------------------------------------------
        steps = cs.steps_of(v.m, "sync_paths")
        new_blob = cs.inst(blob_t, envA)
        old_blob = cs.inst(blob_t, {**envA, "KEY": "k0"})
        Lt = cs.inst(L, envA)
        for scen, init in (("first commit of the path", {}), ("path committed before with another blob", {Lt: ("link", old_blob)})):
            worst = None
            for i in range(len(steps) + 1):
                n += 1
                fs = cs.FS({**base_dirs, new_blob: ("file", "new"), old_blob: ("file", "old"), **init})
                pa = cs.Proc("killed writer", steps, envA)
                trace = []
                msg = None
                try:
                    for _ in range(i):
                        trace.append(repr(pa.steps[pa.pc]))
                        sim.step(pa, fs)
                except cs.Failure as f0_:
                    # the writer itself fails before it is killed (a step of its own sequence cannot run on the state it built)
                    msg = f"the writer fails on its own: {f0_.what}"
                if msg is None:
                    msg = cs.path_view(fs, L, envA, [old_blob, new_blob], must_exist=bool(init))
                if msg is None:
                    for (pid, uid, who) in (("2", "b", "a recovery process"), ("1", "b", "a recovery process that got the pid of the killed one")):
                        fs2 = fs.clone()
                        pb = cs.Proc(who, steps, {**envA, "pid": pid, "uid": uid})
                        try:
                            cs.run_all(sim, pb, fs2)
                        except cs.Failure as f_:
                            msg = f"after the kill, {f_.what}"
                            break
                        m2 = cs.path_view(fs2, L, envA, [new_blob], must_exist=True)
                        if m2:
                            msg = f"after the kill and a complete re-run by {who}: {m2}"
                            break
                if msg and worst is None:
                    worst = (i, trace, msg)
            desc = f"sync_paths ({scen}) killed after each of its {len(steps)} atomic steps: the path keeps resolving to its old or new blob and a re-run commits it"
            if worst is None:
                rep.ok(rule, _site(v, "sync_paths"), desc, v.func("sync_paths").loc())
            else:
                i, trace, msg = worst
                rep.bad(rule, _site(v, "sync_paths"), desc, v.func("sync_paths").loc(), [f"kill after step {i}: " + (trace[-1] if trace else "<before the first step>"), msg] + trace[-6:],
                        f"crash-sync_paths:{scen[:5]}", what="a kill inside sync_paths loses a committed path or blocks later commits")
    except cs.Unknown as u:
        rep.unknown(rule, v.cls.qname, f"effect sequence not interpretable by the typestate model: {u}", v.cls.module.relpath)
    return n


def interleaving_sweep(ctx: Ctx, v: LocalView, rule: str) -> int:
    """every interleaving of two processes over the extracted step sequences"""
    rep = ctx.report
    cs, sim, blob_terms = _sim_setup(ctx, v)
    if not blob_terms or not v.L:
        rep.unknown(rule, v.cls.qname, "blob / path terms not identified for the interleaving sweep", v.cls.module.relpath)
        return 0
    blob_t, L = blob_terms[0], v.L[0]
    total = 0
    try:
        envA = {"KEY": "k1", "pid": "1", "uid": "a", "version": "new", "PATH": "p"}
        envB = {"KEY": "k1", "pid": "2", "uid": "b", "version": "new", "PATH": "p"}
        # two writers of one key on a cold store
        steps = cs.steps_of(v.m, "store_blob")

        def chk_blob(fs, final):
            m_ = cs.blob_view(sim, fs, v.H, v.F, envA)
            if m_ is None and final and not all(fs.exists(cs.inst(t, envA)) for t in v.H):
                m_ = "both writers finished but the key is not reported present"
            return m_

        nst, trace, msg = cs.interleavings(sim, cs.Proc("process 1", steps, envA), cs.Proc("process 2", steps, envB), cs.FS({}), chk_blob)
        total += nst
        desc = f"two processes storing the same key: {nst} interleaved states, no failure, no torn read"
        if msg is None:
            rep.ok(rule, _site(v, "store_blob"), desc, v.func("store_blob").loc())
        else:
            rep.bad(rule, _site(v, "store_blob"), "two processes storing the same key never fail or expose a partial entry", v.func("store_blob").loc(), [msg] + (trace or [])[-8:],
                    "il-store_blob", what="concurrent store_blob of one key fails or exposes a partial entry")
        # two committers of one path
        steps = cs.steps_of(v.m, "sync_paths")
        new_blob = cs.inst(blob_t, envA)
        other_blob = cs.inst(blob_t, {**envA, "KEY": "k2"})
        old_blob = cs.inst(blob_t, {**envA, "KEY": "k0"})
        Lt = cs.inst(L, envA)
        for scen, init, envB2, finals in (
            ("same key, first commit", {}, envB, [new_blob]),
            ("same key, path committed before", {Lt: ("link", old_blob)}, envB, [new_blob]),
            ("different keys, path committed before", {Lt: ("link", old_blob)}, {**envB, "KEY": "k2"}, [new_blob, other_blob]),
        ):
            def chk_path(fs, final, init=init, finals=finals):
                m_ = cs.path_view(fs, L, envA, [old_blob, new_blob, other_blob], must_exist=bool(init))
                if m_ is None and final:
                    m_ = cs.path_view(fs, L, envA, finals, must_exist=True)
                return m_

            fs0 = cs.FS({new_blob: ("file", "new"), other_blob: ("file", "new"), old_blob: ("file", "old"), **init})
            nst, trace, msg = cs.interleavings(sim, cs.Proc("process 1", steps, envA), cs.Proc("process 2", steps, envB2), fs0, chk_path)
            total += nst
            if msg is None:
                rep.ok(rule, _site(v, "sync_paths"), f"two processes committing one path ({scen}): {nst} interleaved states, no failure, the path always resolves", v.func("sync_paths").loc())
            else:
                rep.bad(rule, _site(v, "sync_paths"), f"two processes committing one path ({scen}) never fail and the path always resolves", v.func("sync_paths").loc(), [msg] + (trace or [])[-8:],
                        f"il-sync_paths:{scen[:12]}", what="concurrent sync_paths of one path fails or leaves the path unresolved")
        # store creation race
        steps = cs.steps_of(v.m, "__init__")
        nst, trace, msg = cs.interleavings(sim, cs.Proc("process 1", steps, envA), cs.Proc("process 2", steps, envB), cs.FS({}), lambda fs, final: None)
        total += nst
        if msg is None:
            rep.ok(rule, _site(v, "__init__"), f"two processes creating the store on the same fresh directories: {nst} interleaved states, no failure", v.func("store_blob").loc())
        else:
            rep.bad(rule, _site(v, "__init__"), "two processes creating the store on the same directories never fail", v.cls.module.relpath, [msg] + (trace or [])[-8:], "il-init",
                    what="concurrent creation of the store fails")
    except cs.Unknown as u:
        rep.unknown(rule, v.cls.qname, f"effect sequence not interpretable by the typestate model: {u}", v.cls.module.relpath)
    return total


def one_spelling_per_path(ctx: Ctx, rule: str) -> int:
    """`DDSPathUtils.create` gives one DDSPath per sequence of non-empty segments: '/a//b', '/a/b/' and '/a/b' are one path.  The local and
    DBFS stores drop empty segments when they place a path while the memory store keys by the text, so two spellings would be one
    path in one store and two in another.  Decided by abstract evaluation of `create` on sample spellings."""
    from ..absint import Evaluator, Const
    rep = ctx.report
    prog = ctx.prog
    f = prog.func("dds.structures_utils.DDSPathUtils.create")
    if f is None:
        raise AnchorError("dds.structures_utils.DDSPathUtils.create not found")
    import pathlib
    # (a path object names the same path as its text: keep(Path('/a/b'), f) is read back with load('/a/b'))
    groups = [["/a/b", "/a//b", "/a/b/", "//a/b", pathlib.Path("/a/b")], ["/x", "//x", "/x//", pathlib.Path("/x")], ["/p/q/r", "/p//q///r/", pathlib.Path("/p/q/r")]]
    bad: List[str] = []
    und: List[str] = []
    notes: List[str] = []
    for grp in groups:
        seen = {}
        for s in grp:
            try:
                outs = Evaluator(prog).run(f, [Const(s)])
            except Exception as e:  # the evaluator declines
                if isinstance(s, pathlib.PurePath):
                    # a path object handled by something else than its lexical methods: that is the business of the rule `store_paths_lexical`, run next to this one
                    notes.append(f"create({s!r}) not evaluated ({type(e).__name__}: {e})")
                    continue
                und.append(f"create({s!r}): {type(e).__name__}: {e}")
                continue
            vals = set()
            for o in outs:
                if o.kind == "return" and isinstance(getattr(o.value, "v", None), str):
                    vals.add(o.value.v)
                elif o.kind == "raise":
                    vals.add("<refused>")
                else:
                    und.append(f"create({s!r}): outcome {o.kind} {o.value!r} not a constant")
            if len(vals) == 1:
                seen[s] = next(iter(vals))
            elif vals:
                und.append(f"create({s!r}): several outcomes {sorted(vals)}")
        accepted = {s: v for s, v in seen.items() if v != "<refused>"}
        if len(set(accepted.values())) > 1:
            bad.append("spellings of one path give different paths: " + ", ".join(f"create({s!r}) = {v!r}" for s, v in accepted.items()))
    # ... and paths whose non-empty segments differ stay different (a segment made of white space is a segment)
    for sa, sb in [("/a/ /b", "/a/b"), ("/a b", "/ab"), ("/a/b", "/ab"), ("/r/\t/x", "/r/x")]:
        vals2 = []
        for s_ in (sa, sb):
            try:
                o2 = Evaluator(prog).run(f, [Const(s_)])
            except Exception as e:
                und.append(f"create({s_!r}): {type(e).__name__}: {e}")
                o2 = []
            vs_ = {o.value.v for o in o2 if o.kind == "return" and isinstance(getattr(o.value, "v", None), str)}
            vals2.append(next(iter(vs_)) if len(vs_) == 1 and all(o.kind == "return" for o in o2) else None)
        if vals2[0] is not None and vals2[0] == vals2[1]:
            bad.append(f"paths with different non-empty segments are made one path: create({sa!r}) = create({sb!r}) = {vals2[0]!r}: keep({sa!r}, f); keep({sb!r}, g); load({sb!r}) serves f's value")
    # the path without any segment ('/') is a prefix of every path and a location in no store: it is refused when the path is made
    for s0 in ["/", "//", pathlib.Path("/")]:
        try:
            outs0 = Evaluator(prog).run(f, [Const(s0)])
        except Exception as e:
            if isinstance(s0, pathlib.PurePath):
                notes.append(f"create({s0!r}) not evaluated ({type(e).__name__}: {e})")
                continue
            und.append(f"create({s0!r}): {type(e).__name__}: {e}")
            continue
        if any(o.kind != "raise" for o in outs0):
            got0 = [getattr(o.value, "v", o.value) for o in outs0 if o.kind == "return"]
            bad.append(f"create({s0!r}) gives the path {got0} that has no segment: it overlaps every other path of an evaluation and is reported by no check before the user functions run "
                       "(the local store refuses it at the commit, after everything ran)")
    desc = "DDSPathUtils.create gives one path per sequence of non-empty segments (empty segments are dropped or refused; a pathlib.Path names the path of its text)"
    if bad:
        rep.bad(rule, f.qname, desc, f.loc(), bad + ["the local and DBFS stores place a path by its non-empty segments, the memory store by its text: keep('/a/b', f); "
                "keep('/a//b', g); load('/a/b') serves g from the local store and f from the memory store; a path kept through a pathlib.Path and loaded through its text "
                "(or kept again through the other spelling) must be one entry of the store"], "spelling",
                what="DDSPathUtils.create gives two paths for two spellings of one path")
    elif und:
        rep.unknown(rule, f.qname, desc, f.loc(), und[:3])
    else:
        rep.ok(rule, f.qname, desc + f" ({sum(len(g) for g in groups)} sample spellings in {len(groups)} groups)" + ("; " + "; ".join(notes[:2]) if notes else ""), f.loc())
    return 1


def memory_presence_by_membership(ctx: Ctx, rule: str) -> int:
    """MemoryStore.has_blob answers from the KEYS of the mapping that store_blob fills (`key in self._cache`), never from the stored value:
    None (and any falsy value) is a legitimate blob.  `self._cache.get(key) is not None` reports a kept None absent: its path is left out of the
    commit (only the paths whose blob is present are committed) and keeps serving the previous value."""
    rep = ctx.report
    prog = ctx.prog
    mem = prog.cls("dds.store.MemoryStore")
    if mem is None or "has_blob" not in mem.methods or "store_blob" not in mem.methods:
        raise AnchorError("dds.store.MemoryStore.has_blob / store_blob not found")
    hb, sb = mem.methods["has_blob"], mem.methods["store_blob"]
    tables = set()
    for n_ in sb.own_nodes():
        if isinstance(n_, ast.Subscript) and isinstance(n_.ctx, ast.Store) and isinstance(n_.value, ast.Attribute) and isinstance(n_.value.value, ast.Name) and n_.value.value.id == "self":
            tables.add(n_.value.attr)
    n = 0
    for r in hb.own_nodes():
        if not isinstance(r, ast.Return) or r.value is None:
            continue
        n += 1

        def on_table(x: ast.AST) -> bool:
            return isinstance(x, ast.Attribute) and isinstance(x.value, ast.Name) and x.value.id == "self" and x.attr in tables
        reads_value = [y for y in ast.walk(r.value) if (isinstance(y, ast.Call) and isinstance(y.func, ast.Attribute) and y.func.attr in ("get", "pop", "setdefault") and on_table(y.func.value))
                       or (isinstance(y, ast.Subscript) and on_table(y.value))]
        member = [y for y in ast.walk(r.value) if isinstance(y, ast.Compare) and len(y.ops) == 1 and isinstance(y.ops[0], (ast.In, ast.NotIn)) and (
            on_table(y.comparators[0]) or (isinstance(y.comparators[0], ast.Call) and isinstance(y.comparators[0].func, ast.Attribute) and y.comparators[0].func.attr == "keys"
                                           and on_table(y.comparators[0].func.value)))]
        member += [y for y in ast.walk(r.value) if isinstance(y, ast.Call) and isinstance(y.func, ast.Attribute) and y.func.attr == "__contains__" and on_table(y.func.value)]
        desc = f"MemoryStore.has_blob answers by membership in {sorted(tables)} (a stored None / falsy value is present)"
        if reads_value:
            rep.bad(rule, hb.qname, desc, hb.loc(r), [f"{hb.loc(r)}: `{unparse(r.value, 70)}` looks at the stored value",
                    "a kept function whose latest version returns None: the blob is reported absent, the path is left out of the commit and dds.load keeps serving the value of the "
                    "earlier version (or fails for a new path) while dds.keep returned None"], "mem-presence-by-value", what="MemoryStore.has_blob reports a stored None as absent")
        elif member:
            rep.ok(rule, hb.qname, desc, hb.loc(r))
        else:
            rep.info(rule, hb.qname, f"has_blob of the memory store returns `{unparse(r.value, 60)}` (not judged)", hb.loc(r))
    return n


def _exists_arg(ctx: Ctx, f: Func, e: ast.AST, depth: int = 0, names: Tuple[str, ...] = ("exists", "lexists", "isfile")) -> Optional[ast.AST]:
    """the expression whose existence the call `e` asks about: `os.path.exists(X)` (lexists / isfile / islink), directly or through a thin package helper
    whose body returns such a call on its parameter (`def _exists(p): return os.path.exists(p)`)"""
    if not (isinstance(e, ast.Call) and e.args):
        return None
    fn = unparse(e.func)
    if fn.split(".")[-1] in names and "path" in fn:
        return e.args[0]
    if depth < 2:
        fs, _ = ctx.prog.callees(f, e, ctx._types)
        if len(fs) == 1 and fs[0].module.name.startswith("dds"):
            g = fs[0]
            body = [st for st in g.node.body if not (isinstance(st, ast.Expr) and isinstance(st.value, ast.Constant))]
            ps = [p_ for p_ in g.positional_params() if p_ not in ("self", "cls")]
            if len(body) == 1 and isinstance(body[0], ast.Return) and body[0].value is not None and len(ps) == 1 and len(e.args) == 1:
                inner = _exists_arg(ctx, g, body[0].value, depth + 1, names)
                if isinstance(inner, ast.Name) and inner.id == ps[0]:
                    return e.args[0]
    return None


def reads_after_presence(ctx: Ctx, v: LocalView, rule: str) -> int:
    """The reading methods of the local store open a file (fetch_blob: the metadata, the blob) or resolve a link (fetch_paths) only under
    conditions that imply that this very name exists: a reader that arrives between two publications of a writer (blob renamed, metadata
    not yet; directory created, link not yet) is told "absent" - it does not fail on the missing name, and it does not take the name of a
    link that is not there for a key.  Decided propositionally from the conditions the effect model attaches to each read."""
    from ..propdom import conj_possible
    rep = ctx.report
    prog = ctx.prog
    m = v.m
    n = 0
    for method in ("fetch_blob", "fetch_paths"):
        m.expr_terms = {}
        effs = m.effects_of(method)
        f = v.func(method)

        def atom_name(e: ast.AST) -> Optional[str]:
            a_ = _exists_arg(ctx, f, e)
            if a_ is not None:
                t = m.expr_terms.get(id(a_))
                return "exists:" + (show(t) if t is not None else unparse(a_))
            a_ = _exists_arg(ctx, f, e, 0, ("islink",))
            if a_ is not None:
                t = m.expr_terms.get(id(a_))
                return "islink:" + (show(t) if t is not None else unparse(a_))
            return None
        seen = set()
        for e in effs:
            call = getattr(e, "node", None)
            is_read = e.kind == "READ"
            is_resolve = e.kind == "PROBE" and isinstance(call, ast.Call) and unparse(call.func).split(".")[-1] in ("realpath", "readlink")
            if not (is_read or is_resolve):
                continue
            key = (e.kind, show(e.term), e.where())
            if key in seen:
                continue
            seen.add(key)
            n += 1
            what = "reads" if is_read else "resolves the link"
            desc = f"{method} {what} {show(e.term)[:70]} only when that name exists"
            func_ = getattr(e, "func", None) or f
            world = {"exists:" + show(e.term): False}
            if conj_possible(prog, func_, e.conds, world, atom_name):
                rep.bad(rule, _site(v, method), desc, e.where(), [f"{e.where()}: reached under " + (" and ".join(f"{'' if p else 'not '}({unparse(t, 60)})" for t, p in e.conds) or "no condition")
                        + f", which also holds when {show(e.term)} does not exist",
                        ("a reader between the two renames of store_blob (blob published, metadata not yet) fails with FileNotFoundError instead of being told 'absent'" if method == "fetch_blob" else
                         "a reader between the writer's makedirs and the publication of the link (or of a never-kept path next to a kept one) takes the last segment of the path for a key: "
                         "dds.load returns None - a value nobody kept - instead of an error")],
                        f"read-unguarded:{method}:{show(e.term)[:40]}", what=f"{method} uses a name of the store without having seen it")
            else:
                rep.ok(rule, _site(v, method), desc, e.where())
            if is_resolve:
                # ... and only when that name IS a link: the directory that holds the entries of longer paths is not a committed path
                n += 1
                d2 = f"{method} resolves {show(e.term)[:70]} only when it is a link (a path entry), not a directory of entries"
                how = unparse(call.func).split(".")[-1] if isinstance(call, ast.Call) else ""
                if how == "readlink" or not conj_possible(prog, func_, e.conds, {"islink:" + show(e.term): False}, atom_name):
                    rep.ok(rule, _site(v, method), d2, e.where())
                else:
                    rep.bad(rule, _site(v, method), d2, e.where(), [f"{e.where()}: `{unparse(call, 50)}` is reached also when {show(e.term)} is a directory",
                            "after the commit of '/k/x', fetch_paths(['/k']) answers {'/k': 'k'} for a path that was never committed (the key is the directory's name); when a segment equals "
                            "an existing key, dds.load of the never-kept path serves that blob"], f"dir-for-path:{method}", what="fetch_paths takes a directory of path entries for a committed path")
    return n


def memory_readers_pure(ctx: Ctx, rule: str) -> int:
    """The reading methods of the memory store (has_blob, fetch_blob, fetch_paths) change none of its tables: a fetch that inserts the key
    (`setdefault`) makes an absent blob present - the key of a function that failed is then taken for computed; a fetch that removes it
    (`pop`) makes the bare store forget what the cache-wrapped store still serves."""
    rep = ctx.report
    prog = ctx.prog
    mem = prog.cls("dds.store.MemoryStore")
    if mem is None:
        raise AnchorError("dds.store.MemoryStore not found")
    MUT = {"setdefault", "pop", "popitem", "clear", "update", "__setitem__", "__delitem__", "move_to_end", "append", "add", "remove", "discard", "insert", "extend"}
    n = 0
    for name in ("has_blob", "fetch_blob", "fetch_paths"):
        m = mem.methods.get(name)
        if m is None:
            continue
        n += 1

        def on_self(x: ast.AST) -> bool:
            return isinstance(x, ast.Attribute) and isinstance(x.value, ast.Name) and x.value.id == "self"
        wit = []
        for y in m.own_nodes():
            if isinstance(y, ast.Call) and isinstance(y.func, ast.Attribute) and y.func.attr in MUT and on_self(y.func.value):
                wit.append(f"{m.loc(y)}: `{unparse(y, 60)}` changes self.{y.func.value.attr}")
            if isinstance(y, ast.Subscript) and isinstance(y.ctx, (ast.Store, ast.Del)) and on_self(y.value):
                wit.append(f"{m.loc(y)}: `{unparse(y, 60)}` is assigned / deleted")
            if isinstance(y, ast.Attribute) and isinstance(y.ctx, ast.Store) and isinstance(y.value, ast.Name) and y.value.id == "self":
                wit.append(f"{m.loc(y)}: self.{y.attr} is re-bound")
        desc = f"MemoryStore.{name} reads the tables of the store without changing them"
        if wit:
            rep.bad(rule, m.qname, desc, m.loc(), wit + ["`try: x = dds.keep('/p', g) except OSError: x = dds.load('/p')` with a failing g: the fallback load fetches the key g would have had; a fetch "
                    "that inserts it makes the failure a stored None (served from then on, g never runs again); a fetch that removes a key makes the store answer differently with and without the object cache"],
                    f"mem-reader-mutates:{name}", what=f"MemoryStore.{name} modifies the store")
        else:
            rep.ok(rule, m.qname, desc, m.loc())
    return n


def presence_requires_all(ctx: Ctx, v: LocalView, rule: str) -> int:
    """has_blob answers True only when EVERY name that fetch_blob reads exists (the blob and its metadata - the commit marker, published last): for
    each such name, no return of has_blob can yield a true value, along a feasible path, in a world where that name does not exist.  A blob file
    without its metadata (a writer between its two renames, or killed there) is not a blob: fetch_blob answers None for it."""
    from ..propdom import outcome_possible, excluding_branches
    rep = ctx.report
    prog = ctx.prog
    m = v.m
    m.expr_terms = {}
    f = v.func("has_blob")
    m.effects_of("has_blob")
    hb_terms = dict(m.expr_terms)
    m.expr_terms = {}
    reads = []
    for e in m.effects_of("fetch_blob"):
        if e.kind == "READ" and show(e.term) not in [show(t) for t in reads]:
            reads.append(e.term)
    m.expr_terms = hb_terms

    def atom_name(e: ast.AST) -> Optional[str]:
        a_ = _exists_arg(ctx, f, e)
        if a_ is not None:
            t = hb_terms.get(id(a_))
            return "exists:" + (show(t) if t is not None else unparse(a_))
        return None
    cfg = cfg_of(f)
    n = 0
    for t in reads:
        n += 1
        world = {"exists:" + show(t): False}
        desc = f"has_blob answers False when {show(t)} (read by fetch_blob) does not exist"
        avoid = excluding_branches(prog, f, cfg, world, atom_name)
        bad_ret = None
        for r in f.own_nodes():
            if isinstance(r, ast.Return) and r.value is not None and not (isinstance(r.value, ast.Constant) and not r.value.value):
                if outcome_possible(prog, f, r.value, "T", world, atom_name) and cfg.find_path([cfg.entry], cfg.nodes_of(r), avoid=avoid) is not None:
                    bad_ret = r
        if bad_ret is None:
            rep.ok(rule, _site(v, "has_blob"), desc, f.loc())
        else:
            rep.bad(rule, _site(v, "has_blob"), desc, f.loc(bad_ret), [f"{f.loc(bad_ret)}: `{unparse(bad_ret, 70)}` can be true although {show(t)} is missing",
                    "a second store on the same internal directory (another data view, another process) keeps the function while the first one is between its two renames - or after it "
                    "died there: the blob counts as present, fetch_blob answers None, keep returns None and commits the path of that view to it"],
                    f"presence-partial:{show(t)[:40]}", what="has_blob reports a blob present while a name fetch_blob needs is missing")
    return n


def presence_predicates_agree(ctx: Ctx, v: LocalView, rule: str) -> int:
    """has_blob and fetch_blob ask the same question about each name they both look at (`os.path.exists` in both, not `isfile` in one): a blob that a file codec
    lays out as a directory is otherwise absent for has_blob and present for fetch_blob - and present for the cache wrapper once it was fetched."""
    rep = ctx.report
    m = v.m
    n = 0
    hb = {}
    for e in m.effects_of("has_blob"):
        if e.kind == "PROBE":
            hb.setdefault(show(e.term), set()).add(str(e.extra.get("how", "")).split(".")[-1])
    fb = {}
    for e in m.effects_of("fetch_blob"):
        if e.kind == "PROBE":
            fb.setdefault(show(e.term), set()).add(str(e.extra.get("how", "")).split(".")[-1])
    f = v.func("has_blob")
    for t in sorted(set(hb) & set(fb)):
        n += 1
        desc = f"has_blob and fetch_blob test {t[:60]} with the same predicate"
        if hb[t] == fb[t]:
            rep.ok(rule, _site(v, "has_blob"), desc + f" ({sorted(hb[t])})", f.loc())
        else:
            rep.bad(rule, _site(v, "has_blob"), desc, f.loc(), [f"has_blob: {sorted(hb[t])}; fetch_blob: {sorted(fb[t])}",
                    "a registered file codec that writes a directory (partitioned data set): the bare store says absent although it can fetch the blob; once fetched through the cache wrapper "
                    "the wrapper says present: wrapped and bare store disagree for the same operations"], f"presence-predicate:{t[:40]}",
                    what="has_blob and fetch_blob disagree on what 'the blob file exists' means")
    return n


def decode_reads_blob(ctx: Ctx, v: LocalView, rule: str) -> int:
    """Every `deserialize_from(..)` of fetch_blob is handed the location of the BLOB (the name under which store_blob published what the codec wrote), in every branch on
    the kind of codec - not the location of the metadata or any other name."""
    rep = ctx.report
    m = v.m
    m.expr_terms = {}
    m.effects_of("fetch_blob")
    f = v.func("fetch_blob")
    n = 0
    for c in f.own_nodes():
        if not (isinstance(c, ast.Call) and isinstance(c.func, ast.Attribute) and c.func.attr == "deserialize_from" and c.args):
            continue
        a0 = c.args[0]
        inner = a0.args[0] if isinstance(a0, ast.Call) and a0.args else a0
        t = m.expr_terms.get(id(inner))
        if t is None and isinstance(inner, ast.Name):
            # the argument was evaluated elsewhere: the definition of the name
            ds = flow_of(ctx.prog, f).defs_of_use(inner)
            for d in ds:
                if d.value is not None and m.expr_terms.get(id(d.value)) is not None:
                    t = m.expr_terms.get(id(d.value))
        n += 1
        desc = f"`{unparse(c, 60)}` decodes the blob file"
        if t is None:
            rep.unknown(rule, _site(v, "fetch_blob"), desc, f.loc(c), [f"location `{unparse(inner, 40)}` not resolved by the effect model"])
        elif _key_suffix(t) == "":
            rep.ok(rule, _site(v, "fetch_blob"), desc + f" ({show(t)})", f.loc(c))
        else:
            rep.bad(rule, _site(v, "fetch_blob"), desc, f.loc(c), [f"{f.loc(c)}: the codec is handed {show(t)}",
                    "a user codec of the CodecProtocol kind (registered with add_codec): the right codec is chosen by the persisted reference but it is given the metadata file: the value "
                    "read back is not the value that was written"], stmt_key(c), what="fetch_blob hands a codec another file than the blob")
    return n
