"""
C12 - the in-memory object cache is invisible and bounded.

R1  every insertion into the object cache is control-dependent on evidence that the wrapped store holds the key.
R2  every statement that adds a key to the cache mapping is post-dominated by the eviction loop
    `while len(mapping) > capacity: popitem`; capacity has one writer; nobody outside the class touches the mapping.
R3  pass-through: path queries, store_blob and codec_registry delegate with their own parameters and return the
    wrapped store's answer; has_blob = hit or wrapped.has_blob; fetch_blob = cached object on a hit, wrapped result otherwise.
R4  decode table of cache_objects in set_store.
"""
from __future__ import annotations

import ast
from typing import Any, List, Optional, Tuple

from ..absint import Evaluator, Const, Sym, Obj, TOP, NOT_HANDLED
from ..cfg import cfg_of, Node
from ..flow import flow_of
from ..model import unparse, stmt_key, Func, Class, AnchorError, f_cls
from .common import Ctx, dominated, done_nodes, witness_path, STORE_IFACE

PROP = "C12"
ADDERS = ("setdefault", "update", "__setitem__")


def _constructed(ctx: Ctx, f: Func, e: ast.AST, depth: int) -> List[str]:
    """program classes constructed inside the expression, directly or by a package factory it calls"""
    out: List[str] = []
    for x in ast.walk(e):
        if isinstance(x, ast.Call):
            d = ctx.prog.dotted(f, x.func)
            if d in ctx.prog.classes:
                out.append(d)
            elif depth < 2:
                fs, _ = ctx.prog.callees(f, x, ctx._types)
                for g in fs:
                    for r in g.own_nodes():
                        if isinstance(r, ast.Return) and r.value is not None:
                            out += _constructed(ctx, g, r.value, depth + 1)
    return out


def find_classes(ctx: Ctx) -> Tuple[Class, Class, str, str, str]:
    """(wrapper store class, cache class, wrapper's cache attribute, wrapper's wrapped-store attribute, cache's mapping attribute)"""
    prog = ctx.prog
    for cq in sorted(prog.subclasses(STORE_IFACE)):
        c = prog.classes[cq]
        init = c.methods.get("__init__")
        if init is None:
            continue
        cache_attr = store_attr = None
        cache_cls = None
        for n in init.own_nodes():
            if isinstance(n, (ast.Assign, ast.AnnAssign)):
                t = n.targets[0] if isinstance(n, ast.Assign) else n.target
                if isinstance(t, ast.Attribute) and isinstance(t.value, ast.Name) and t.value.id == "self" and n.value is not None:
                    built = [d for d in _constructed(ctx, init, n.value, 0) if d not in prog.subclasses(STORE_IFACE) and d != STORE_IFACE]
                    if built:
                        # the cache object (possibly under a conditional expression)
                        cache_attr, cache_cls = t.attr, prog.classes[built[0]]
                    elif isinstance(n.value, ast.Name) and n.value.id in init.params:
                        ann = unparse(n.annotation) if isinstance(n, ast.AnnAssign) else ""
                        if "Store" in ann or n.value.id == "store":
                            store_attr = t.attr
        if cache_attr and store_attr and cache_cls is not None:
            mapping = None
            ci = cache_cls.methods.get("__init__")
            if ci is not None:
                for n in ci.own_nodes():
                    if isinstance(n, (ast.Assign, ast.AnnAssign)) and n.value is not None and isinstance(n.value, ast.Call) and (
                            prog.dotted(ci, n.value.func) or "").split(".")[-1] in ("OrderedDict", "dict"):
                        t = n.targets[0] if isinstance(n, ast.Assign) else n.target
                        if isinstance(t, ast.Attribute):
                            mapping = t.attr
            if mapping:
                return c, cache_cls, cache_attr, store_attr, mapping
    raise AnchorError("role object-cache store (Store subclass holding a wrapped Store and a cache object) not found")


def _self_attr_call(n: ast.AST, attr: str) -> Optional[str]:
    """self.<attr>.<m>(...) -> m"""
    if isinstance(n, ast.Call) and isinstance(n.func, ast.Attribute):
        r = n.func.value
        if isinstance(r, ast.Attribute) and r.attr == attr and isinstance(r.value, ast.Name) and r.value.id == "self":
            return n.func.attr
    return None


def _fresh_cache(ctx: Ctx, f: Func, v: ast.AST, cache: Class, depth: int) -> bool:
    """v is a construction of the cache class, or a call of a package function / method whose every return is one"""
    if not isinstance(v, ast.Call):
        return False
    if ctx.prog.dotted(f, v.func) == cache.qname:
        return True
    if depth >= 2:
        return False
    fs, _ = ctx.prog.callees(f, v, ctx._types)
    if not fs:
        return False
    for g in fs:
        rets = [r for r in g.own_nodes() if isinstance(r, ast.Return)]
        if not rets or not all(r.value is not None and _fresh_cache(ctx, g, r.value, cache, depth + 1) for r in rets):
            return False
    return True


def cache_ownership(ctx: Ctx, rule: str) -> None:
    """the wrapper's cache object is created by the wrapper's constructor and never shared with another store"""
    rep = ctx.report
    prog = ctx.prog
    wrap, cache, cache_attr, store_attr, mapping = find_classes(ctx)
    wi = wrap.methods.get("__init__")
    # ownership: the wrapper's cache is always a fresh cache built by its own constructor, and is never handed out
    if wi is not None:
        stores = [(f, v, st) for (f, v, st) in ctx.heap.attr_stores.get(cache_attr, []) if f_cls(f) is wrap and isinstance(st, (ast.Assign, ast.AnnAssign, ast.AugAssign))
                  and any(isinstance(t_, ast.Attribute) and t_.attr == cache_attr for t_ in (st.targets if isinstance(st, ast.Assign) else [st.target]))]
        desc = f"self.{cache_attr} is only ever a fresh {cache.name} built by the constructor with the configured bound"
        wit = []
        for f, v, st in stores:
            fresh = _fresh_cache(ctx, f, v, cache, 0)
            if f.name != "__init__" or not fresh:
                wit.append(f"{f.loc(st)}: `{unparse(st, 80)}`: the cache can be an object built elsewhere (with another capacity, filled through another store)")
        leaks = []
        for m_ in wrap.methods.values():
            for n in m_.own_nodes():
                if isinstance(n, ast.Attribute) and n.attr == cache_attr and isinstance(n.value, ast.Name) and n.value.id == "self" and isinstance(n.ctx, ast.Load):
                    par = m_.module.parent.get(n)
                    if isinstance(par, ast.Return) or (isinstance(par, ast.Call) and n in par.args) or (isinstance(par, ast.keyword)) or (
                            isinstance(par, (ast.Assign, ast.AnnAssign)) and par.value is n) or isinstance(par, (ast.IfExp, ast.Tuple, ast.List)):
                        leaks.append(f"{m_.loc(n)}: `{unparse(m_.module.parent.get(n), 70)}` in {m_.name}: the cache object leaves the store that owns it")
        for f in prog.funcs.values():
            if f_cls(f) in (wrap, cache):
                continue
            for n in f.own_nodes():
                if isinstance(n, ast.Attribute) and n.attr == cache_attr and ctx.types.receiver_class(f.module.name, n.value) == wrap.qname:
                    leaks.append(f"{f.loc(n)}: `{unparse(n, 50)}` in {f.qname}: the cache of a store is reached from outside")
        if wit or leaks:
            rep.bad(rule, wrap.qname, desc, wi.loc(), wit + leaks, "cache-owner",
                    what="a cache object is shared between / handed over to stores: the configured bound and the wrapped store's content no longer govern it")
        elif stores:
            rep.ok(rule, wrap.qname, desc + "; it never leaves the store", wi.loc(stores[0][2]))
        else:
            rep.unknown(rule, wrap.qname, f"no store to self.{cache_attr} found", wi.loc())


def run(ctx: Ctx) -> None:
    rep = ctx.report
    prog = ctx.prog
    ctx.types
    wrap, cache, cache_attr, store_attr, mapping = find_classes(ctx)
    rep.analysed["wrapper"] = wrap.qname
    rep.analysed["cache"] = cache.qname
    rep.rule("C12.R1", "cache insertion dominated by: fetched value is not None / wrapped.has_blob true / wrapped.store_blob completed")
    rep.rule("C12.R2", "key additions post-dominated by `while len(mapping) > capacity: popitem`; capacity written once; mapping private")
    rep.rule("C12.R3", "pass-through shapes of sync_paths / fetch_paths / store_blob / codec_registry / has_blob / fetch_blob")
    rep.rule("C12.R4", "abstract evaluation of the cache_objects decoder in set_store")

    # which cache methods add keys
    adders: List[str] = []
    for name, m in cache.methods.items():
        if name == "__init__":
            continue
        for n in m.own_nodes():
            if _adds_key(n, mapping):
                adders.append(name)
                break

    n1 = insertion_rule(ctx, "C12.R1")
    rep.floor("C12.R1", n1, 1)

    # ---- R2 -------------------------------------------------------------------------------
    n2 = 0
    cap_attr = None
    ci = cache.methods.get("__init__")
    if ci is not None:
        for n in ci.own_nodes():
            if isinstance(n, ast.Assign) and isinstance(n.value, ast.Name) and n.value.id in ci.params and isinstance(n.targets[0], ast.Attribute):
                cap_attr = n.targets[0].attr
    if cap_attr is None:
        rep.unknown("C12.R2", cache.qname, "capacity attribute not found", cache.module.relpath)
    # methods of the cache class that always shrink the mapping to the capacity before returning
    evicting = set()
    for name, m in cache.methods.items():
        cfg = cfg_of(m)
        lps = [n for n in m.own_nodes() if isinstance(n, ast.While) and _is_evict_loop(n, mapping, cap_attr)]
        exits_ = [b for lp in lps for b in cfg.nodes if b.kind == "branch" and b.label == "F" and b.ast is lp.test]
        if lps and cfg.find_path([cfg.entry], [cfg.exit], avoid=exits_) is None:
            evicting.add(name)
    for name in adders:
        m = cache.methods[name]
        cfg = cfg_of(m)
        loops = []
        for n in m.own_nodes():
            if isinstance(n, ast.While) and _is_evict_loop(n, mapping, cap_attr):
                loops.append(n)
        helper_calls = [n for n in m.own_nodes() if isinstance(n, ast.Call) and isinstance(n.func, ast.Attribute) and isinstance(n.func.value, ast.Name)
                        and n.func.value.id == "self" and n.func.attr in evicting]
        for n in m.own_nodes():
            if not _adds_key(n, mapping):
                continue
            n2 += 1
            st = prog.enclosing_stmt(m.module, n)
            desc = f"after `{unparse(st, 50)}` the mapping is shrunk to the capacity before the method returns"
            exits = []
            for lp in loops:
                exits += [b for b in cfg.nodes if b.kind == "branch" and b.label == "F" and b.ast is lp.test]
            for hc in helper_calls:
                exits += done_nodes(cfg, hc)
            bad_path = None
            for d in done_nodes(cfg, st):
                p = cfg.find_path([d], [cfg.exit], avoid=exits)
                if p is not None:
                    bad_path = p
            if (loops or helper_calls) and bad_path is None:
                rep.ok("C12.R2", m.qname, desc, m.loc(st))
            else:
                loose = [lp for g_ in cache.methods.values() for lp in g_.own_nodes() if isinstance(lp, ast.While)]
                wit = witness_path(cfg, m, bad_path) if bad_path else []
                if loose and not loops and not helper_calls:
                    if unparse(loose[0].test).replace(" ", "") in (f"len(self.{mapping})>self.{cap_attr}", f"len(self.{mapping})>=self.{cap_attr}"):
                        wit = [f"{cache.module.relpath}:{loose[0].lineno}: the body of the loop `while {unparse(loose[0].test)}` removes no entry of self.{mapping} (popitem, pop with a key, del): "
                               f"`{unparse(loose[0].body[0], 50)}`"] + wit
                    else:
                        wit = [f"{cache.module.relpath}:{loose[0].lineno}: loop condition `{unparse(loose[0].test)}` is not `len(self.{mapping}) > self.{cap_attr}`: the bound can be exceeded"] + wit
                rep.bad("C12.R2", m.qname, desc, m.loc(st), wit or ["no eviction loop in this method"], stmt_key(st), what="the cache can retain more objects than its capacity")
    rep.floor("C12.R2", n2, 1)
    # the configured bound is the capacity: wrapper.__init__(.., num) -> Cache(num) -> self.capacity = num
    wi = wrap.methods.get("__init__")
    if wi is not None and ci is not None and cap_attr:
        ctor = [n for n in wi.own_nodes() if isinstance(n, ast.Call) and prog.dotted(wi, n.func) == cache.qname]
        desc = "the configured number of objects is passed unchanged to the cache and stored as its capacity"
        okc = False
        if ctor and ctor[0].args:
            a0 = ctor[0].args[0]
            okc = isinstance(a0, ast.Name) and a0.id in wi.params
        if not ctor:
            # built by a factory of the package: the factory passes its own parameter, the constructor passes its own to the factory
            from ..flow import bind_arg
            for call in [n for n in wi.own_nodes() if isinstance(n, ast.Call)]:
                fs_, _ = prog.callees(wi, call, ctx._types)
                for g in fs_:
                    inner = [n for n in g.own_nodes() if isinstance(n, ast.Call) and prog.dotted(g, n.func) == cache.qname]
                    if inner and inner[0].args and isinstance(inner[0].args[0], ast.Name) and inner[0].args[0].id in g.params:
                        outer = bind_arg(g, call, inner[0].args[0].id)
                        ctor = inner
                        okc = bool(outer) and all(isinstance(o, ast.Name) and o.id in wi.params for o in outer)
        capdef = [n for n in ci.own_nodes() if isinstance(n, ast.Assign) and isinstance(n.targets[0], ast.Attribute) and n.targets[0].attr == cap_attr]
        okd = bool(capdef) and isinstance(capdef[0].value, ast.Name) and capdef[0].value.id in ci.params
        if okc and okd:
            rep.ok("C12.R2", wrap.qname, desc, wi.loc(ctor[0]))
        else:
            rep.bad("C12.R2", wrap.qname, desc, wi.loc(), [f"cache constructed with `{unparse(ctor[0], 50) if ctor else '?'}`; capacity set by `{unparse(capdef[0], 50) if capdef else '?'}`"],
                    "cap-flow", what="the effective capacity is not the configured number of objects")
    cache_ownership(ctx, "C12.R2")
    # writers of the capacity and outside access to the mapping
    if cap_attr:
        writers = [(f, st) for (f, v, st) in ctx.heap.attr_stores.get(cap_attr, []) if f_cls(f) is cache]
        if len(writers) == 1 and writers[0][0].name == "__init__":
            rep.ok("C12.R2", cache.qname, f"self.{cap_attr} is written by the constructor only", writers[0][0].loc(writers[0][1]))
        else:
            rep.bad("C12.R2", cache.qname, f"self.{cap_attr} is written by the constructor only", cache.module.relpath,
                    [f"{f.loc(st)}: {unparse(st, 60)}" for f, st in writers], "cap-writers", what="the capacity of the cache is changed after construction")
    outside = []
    for f in prog.funcs.values():
        if f_cls(f) is cache:
            continue
        for n in f.own_nodes():
            if isinstance(n, ast.Attribute) and n.attr == mapping and ctx.types.receiver_class(f.module.name, n.value) == cache.qname:
                outside.append((f, n))
    if outside:
        rep.bad("C12.R2", cache.qname, "the cache mapping is private to the cache class", outside[0][0].loc(outside[0][1]),
                [f"{f.loc(n)}: {unparse(n, 60)} in {f.qname}" for f, n in outside], "mapping-escape", what="code outside the cache class manipulates its mapping (eviction can be bypassed)")
    else:
        rep.ok("C12.R2", cache.qname, "the cache mapping is not touched outside the cache class", cache.module.relpath)

    from .storerules import memory_readers_pure as _mrp
    rep.rule("C12.R5", "the wrapped and the bare store answer alike because reading changes nothing: the reading methods of the memory store change none of its tables (a fetch that consumed the blob would be masked by the cache)")
    _n_mrp = _mrp(ctx, "C12.R5")
    rep.floor("C12.R5", _n_mrp, 3)
    rep.rule("C12.R6", "the wrapper treats the objects it fetches as opaque (None test, cache, return, type()): it answers as the bare store also for objects that cannot be printed")
    n6 = fetched_value_opaque(ctx, "C12.R6")
    rep.floor("C12.R6", n6, 3)
    from . import storerules as _S12
    rep.rule("C12.R7", "the bare local store is consistent with itself on what 'present' means (has_blob and fetch_blob use the same existence predicate), so that the wrapper - which "
                       "answers from what it fetched - never disagrees with it")
    n7 = _S12.presence_predicates_agree(ctx, _S12.LocalView(ctx), "C12.R7")
    rep.floor("C12.R7", n7, 2)
    n3 = passthrough_rules(ctx, "C12.R3")
    rep.floor("C12.R3", n3, 6)
    rep.rule("C12.R10", "presence answers are booleans: `has_blob` of every store returns a test (comparison, membership, existence, another has_blob), never the looked-up object")
    n10 = presence_answers_are_booleans(ctx, "C12.R10")
    rep.floor("C12.R10", n10, 4)
    rep.rule("C12.R8", "after the wrapper has stored a blob under a key, the object cached under that key (fetched before) is not served any more: every path from the completed "
                       "`store_blob` of the wrapped store to the exit drops the key from the cache or puts the stored object itself there (the bare stores overwrite)")
    n8 = store_refreshes_cache(ctx, "C12.R8")
    rep.floor("C12.R8", n8, 1)

    # ---- R4 -------------------------------------------------------------------------------
    decode_cache_objects(ctx, wrap)
    if ctx.report.prop == "C12":
        from .common import share_rules as _share8
        _share8(ctx, "C08", "C12.R9", ['C08.R14'], 'the bare memory store decides presence by membership, not by the truth value of the blob: the wrapped store - which answers presence from what it fetched - then never disagrees with it on falsy blobs')


def presence_answers_are_booleans(ctx: Ctx, rule: str) -> int:
    """`has_blob` of every store answers True or False - the wrapped store exactly what the bare one answers.  An answer that is the looked-up object itself (`self._cache.get(key) or
    ..`) is truthy where the bare store says True, but it is not equal to it, and it keeps the cached object alive in the hands of whoever keeps presence answers."""
    rep = ctx.report
    prog = ctx.prog
    n = 0

    def boolean(f: Func, e: ast.AST, depth: int = 0) -> bool:
        if isinstance(e, ast.Constant):
            return isinstance(e.value, bool)
        if isinstance(e, ast.Compare):
            return True
        if isinstance(e, ast.UnaryOp) and isinstance(e.op, ast.Not):
            return True
        if isinstance(e, ast.BoolOp):
            return all(boolean(f, v, depth) for v in e.values)
        if isinstance(e, ast.IfExp):
            return boolean(f, e.body, depth) and boolean(f, e.orelse, depth)
        if isinstance(e, ast.Call):
            d = prog.dotted(f, e.func) or unparse(e.func)
            last = d.split(".")[-1]
            if last in ("bool", "isinstance", "issubclass", "callable", "any", "all", "exists", "isfile", "isdir", "islink", "lexists", "has_blob", "startswith", "endswith", "is_file", "is_dir"):
                return True
            fs, _ = prog.callees(f, e, ctx._types)
            if fs and depth < 2 and all(g.module.name.startswith("dds") for g in fs):
                return all(r.value is not None and boolean(g, r.value, depth + 1) for g in fs for r in g.own_nodes() if isinstance(r, ast.Return)) and all(
                    any(isinstance(r, ast.Return) for r in g.own_nodes()) for g in fs)
            return False
        if isinstance(e, ast.Name) and depth < 3:
            try:
                ds = flow_of(prog, f).defs_of_use(e)
            except Exception:
                ds = []
            return bool(ds) and all(d.value is not None and getattr(d, "kind", "assign") == "assign" and boolean(f, d.value, depth + 1) for d in ds)
        return False
    for cq in sorted(prog.subclasses("dds.store.Store")):
        c = prog.classes[cq]
        m = c.methods.get("has_blob")
        if m is None:
            continue
        for r in m.own_nodes():
            if not (isinstance(r, ast.Return) and r.value is not None):
                continue
            n += 1
            desc = f"{c.name}.has_blob answers True or False"
            if boolean(m, r.value):
                rep.ok(rule, m.qname, desc, m.loc(r))
            else:
                rep.bad(rule, m.qname, desc, m.loc(r), [f"{m.loc(r)}: `{unparse(r, 70)}`: an operand of the answer is an object, not a test",
                        "for a key whose object is in the cache the wrapped store answers `Entry(obj=<the cached object>)` where the bare store answers True: the two answers differ "
                        "(`==`, `is True`), and the answer pins the cached object"], stmt_key(r), what=f"{c.name}.has_blob answers with an object instead of True / False")
    return n


def store_refreshes_cache(ctx: Ctx, rule: str) -> int:
    """store_blob(k, v1); fetch_blob(k); store_blob(k, v2); fetch_blob(k): the bare stores answer v2.  The wrapper, which answers fetches from its cache first, must forget
    (or replace) the entry of a key when it stores that key."""
    rep = ctx.report
    prog = ctx.prog
    wrap, cache, cache_attr, store_attr, mapping = find_classes(ctx)
    m = wrap.methods.get("store_blob")
    if m is None:
        return 0
    cfg = cfg_of(m)
    params = m.positional_params()
    key_p = params[0] if params else "key"
    blob_p = params[1] if len(params) > 1 else "blob"
    # methods of the cache class that remove the key they are given (`self._cache.pop(key, None)`, `del self._cache[key]`)
    removers = set()
    for name, cm in cache.methods.items():
        cps = cm.positional_params()
        if not cps:
            continue
        for n in cm.own_nodes():
            if isinstance(n, ast.Call) and isinstance(n.func, ast.Attribute) and n.func.attr == "pop" and isinstance(n.func.value, ast.Attribute) and n.func.value.attr == mapping \
                    and n.args and isinstance(n.args[0], ast.Name) and n.args[0].id == cps[0]:
                removers.add(name)
            if isinstance(n, ast.Delete) and any(isinstance(t, ast.Subscript) and isinstance(t.value, ast.Attribute) and t.value.attr == mapping and isinstance(t.slice, ast.Name)
                                                 and t.slice.id == cps[0] for t in n.targets):
                removers.add(name)
    adders = {name for name, cm in cache.methods.items() if name != "__init__" and any(_adds_key(n, mapping) for n in cm.own_nodes())}
    n = 0
    for c in [x for x in m.own_nodes() if _self_attr_call(x, store_attr) == "store_blob"]:
        n += 1
        refresh = []
        for x in m.own_nodes():
            mm = _self_attr_call(x, cache_attr)
            if mm is None or not isinstance(x, ast.Call) or not x.args or not (isinstance(x.args[0], ast.Name) and x.args[0].id == key_p):
                continue
            if mm in removers:
                refresh += done_nodes(cfg, x)
            elif mm in adders and len(x.args) > 1 and isinstance(x.args[1], ast.Name) and x.args[1].id == blob_p:
                refresh += done_nodes(cfg, x)
        desc = f"after `{unparse(c, 50)}` the cache does not hold another object under the key"
        bad_path = None
        for d in done_nodes(cfg, c):
            p = cfg.find_path([d], [cfg.exit], avoid=refresh)
            if p is not None:
                bad_path = p
        if bad_path is None:
            rep.ok(rule, m.qname, desc, m.loc(c))
        else:
            rep.bad(rule, m.qname, desc, m.loc(c), [f"{m.loc(c)}: the method returns without touching the cache entry of `{key_p}`",
                    "store_blob(k, [1]); fetch_blob(k); store_blob(k, [2]); fetch_blob(k): the bare memory and local stores answer [2] (both overwrite), the wrapped one answers the cached [1] "
                    "(demo: /verif/findings/F47_cache_serves_replaced_blob.py)"], "stale-after-store", what="the object cache serves the object fetched before the key was stored again")
    return n


def _through_locals(fl: Any, test: ast.AST, label: str, depth: int = 0) -> Tuple[ast.AST, str]:
    """the test a branch decides, read through `not` and through boolean locals with one definition (`cacheable = blob is not None`, `if cacheable:`):
    (expression, the outcome of that expression on this branch)"""
    if isinstance(test, ast.UnaryOp) and isinstance(test.op, ast.Not):
        return _through_locals(fl, test.operand, "F" if label == "T" else "T", depth)
    if isinstance(test, ast.Name) and depth < 4:
        try:
            ds = fl.defs_of_use(test)
        except Exception:
            ds = []
        if len(ds) == 1 and getattr(ds[0], "kind", "assign") == "assign" and isinstance(ds[0].value, (ast.Compare, ast.UnaryOp, ast.BoolOp, ast.Name, ast.Call)):
            return _through_locals(fl, ds[0].value, label, depth + 1)
    return test, label


def _is_hit_local(fl: Any, pt: ast.AST, cache_attr: str) -> bool:
    e, lab = _through_locals(fl, pt, "T")
    if not (isinstance(e, ast.Compare) and len(e.ops) == 1 and isinstance(e.comparators[0], ast.Constant) and e.comparators[0].value is None):
        return False
    if not ((isinstance(e.ops[0], ast.IsNot) and lab == "T") or (isinstance(e.ops[0], ast.Is) and lab == "F")):
        return False
    x = e.left
    if isinstance(x, ast.Name):
        try:
            ds = fl.defs_of_use(x)
        except Exception:
            ds = []
        return bool(ds) and all(d.value is not None and getattr(d, "kind", "assign") == "assign" and _self_attr_call(d.value, cache_attr) is not None for d in ds)
    return _self_attr_call(x, cache_attr) is not None


def insertion_rule(ctx: Ctx, rule: str) -> int:
    """every insertion into the object cache is control-dependent on evidence that the wrapped store holds the key"""
    rep = ctx.report
    prog = ctx.prog
    wrap, cache, cache_attr, store_attr, mapping = find_classes(ctx)
    adders: List[str] = []
    for name, m in cache.methods.items():
        if name == "__init__":
            continue
        for n in m.own_nodes():
            if _adds_key(n, mapping):
                adders.append(name)
                break
    # ---- R1 -------------------------------------------------------------------------------
    n1 = 0
    for mname, m in wrap.methods.items():
        cfg = cfg_of(m)
        fl = flow_of(prog, m)
        for call in [n for n in m.own_nodes() if _self_attr_call(n, cache_attr) in adders]:
            n1 += 1
            assert isinstance(call, ast.Call)
            val = call.args[1] if len(call.args) > 1 else None
            evidence: List[Node] = []
            for b in cfg.nodes:
                if b.kind != "branch" or b.ast is None:
                    continue
                a, lab = _through_locals(fl, b.ast, b.label)
                if isinstance(a, ast.Compare) and len(a.ops) == 1 and isinstance(a.comparators[0], ast.Constant) and a.comparators[0].value is None:
                    from_store = isinstance(val, ast.Name) and bool(fl.defs_of_use(val)) and all(
                        d_.value is not None and _self_attr_call(d_.value, store_attr) == "fetch_blob" for d_ in fl.defs_of_use(val))
                    if from_store and isinstance(a.left, ast.Name) and isinstance(val, ast.Name) and a.left.id == val.id and set(fl.defs_of_use(a.left)) == set(fl.defs_of_use(val)):
                        if (isinstance(a.ops[0], ast.IsNot) and lab == "T") or (isinstance(a.ops[0], ast.Is) and lab == "F"):
                            evidence.append(b)
                if lab == "T" and any(_self_attr_call(x, store_attr) == "has_blob" for x in ast.walk(a)) and not any(
                        isinstance(x, ast.BoolOp) and isinstance(x.op, ast.Or) for x in ast.walk(a)):
                    evidence.append(b)
            for n in m.own_nodes():
                if _self_attr_call(n, store_attr) == "store_blob":
                    evidence += done_nodes(cfg, n)
            desc = f"insertion `{unparse(call, 50)}` happens only with evidence that the wrapped store holds the key"
            # the value must come from the wrapped store (or be the blob just stored)
            w = dominated(ctx, m, call, evidence)
            if w is None:
                rep.ok(rule, m.qname, desc, m.loc(call))
            else:
                rep.bad(rule, m.qname, desc, m.loc(call),
                        ["path to the insertion without presence evidence:"] + w + [
                            "counterexample: the wrapped store does not hold the key (absent key, or its store_blob raised); the cache then answers "
                            "has_blob True / serves the object while the bare store answers False / None"],
                        stmt_key(call), what="the object cache can hold a key the wrapped store does not hold")
    return n1



def passthrough_rules(ctx: Ctx, rule: str, only: Optional[List[str]] = None) -> int:
    """pass-through shapes of the wrapper store (shared with C04 / C07: path answers always come from the wrapped store)"""
    rep = ctx.report
    prog = ctx.prog
    wrap, cache, cache_attr, store_attr, mapping = find_classes(ctx)
    # ---- R3 -------------------------------------------------------------------------------
    n3 = 0
    for name in (only or ("sync_paths", "fetch_paths", "store_blob", "codec_registry")):
        m = wrap.methods.get(name)
        if m is None:
            rep.bad(rule, wrap.qname, f"{name} is delegated to the wrapped store", wrap.module.relpath, [f"{wrap.qname} does not define {name}: the base class default answers"],
                    f"missing:{name}", what=f"{name} is not forwarded to the wrapped store")
            continue
        n3 += 1
        calls = [n for n in m.own_nodes() if _self_attr_call(n, store_attr) == name]
        params = m.positional_params()
        desc = f"{name} forwards its own parameters to the wrapped store and returns its answer"
        wit: List[str] = []
        if len(calls) != 1:
            wit.append(f"{len(calls)} delegate call(s) to self.{store_attr}.{name}")
        else:
            c = calls[0]
            got = [a.id if isinstance(a, ast.Name) else unparse(a) for a in c.args] + [f"{k.arg}={unparse(k.value)}" for k in c.keywords]
            if [g.split("=")[-1] for g in got] != params:
                wit.append(f"delegate arguments {got} differ from the parameters {params}")
            fl = flow_of(prog, m)
            rets = [n for n in m.own_nodes() if isinstance(n, ast.Return) and n.value is not None]
            needs_ret = name in ("fetch_paths", "codec_registry")
            for r in rets:
                v = r.value
                ok = v is c
                if isinstance(v, ast.Name):
                    defs = fl.defs_of_use(v)
                    ok = bool(defs) and all(d.kind == "assign" and d.value is c for d in defs)
                if not ok:
                    wit.append(f"{m.loc(r)}: returns `{unparse(v, 50)}`, which is not (only) the wrapped store's answer")
            if needs_ret and not rets:
                wit.append("the wrapped store's answer is not returned")
            # anything else that consults or feeds wrapper state
            other = [n for n in m.own_nodes() if _self_attr_call(n, cache_attr) is not None and name != "store_blob"]
            extra_state = [n for n in m.own_nodes() if isinstance(n, ast.Attribute) and isinstance(n.value, ast.Name) and n.value.id == "self"
                           and n.attr not in (store_attr, cache_attr) and isinstance(n.ctx, (ast.Store, ast.Load)) and not n.attr.startswith("__")
                           and n.attr not in [x for x in wrap.methods]]
            extra_state = [n for n in extra_state if n.attr not in ("_num_elem",)]
            if other:
                wit.append(f"{m.loc(other[0])}: the object cache takes part in {name}")
            if extra_state and name in ("fetch_paths", "sync_paths"):
                wit.append(f"{m.loc(extra_state[0])}: wrapper state self.{extra_state[0].attr} takes part in {name} (path answers must come from the store every time)")
        if wit:
            rep.bad(rule, m.qname, desc, m.loc(), wit, f"pass:{name}", what=f"{name} is not a pure pass-through to the wrapped store")
        else:
            rep.ok(rule, m.qname, desc, m.loc())
    hb = wrap.methods.get("has_blob") if not only else None
    if hb is not None:
        n3 += 1
        rets = [n for n in hb.own_nodes() if isinstance(n, ast.Return) and n.value is not None]
        desc = "has_blob answers `cache hit or wrapped.has_blob(key)`"
        cfgh = cfg_of(hb)
        hit_T = [b for b in cfgh.nodes if b.kind == "branch" and b.ast is not None and any(_self_attr_call(x, cache_attr) is not None for x in ast.walk(b.ast))
                 and ((b.label == "T" and "is not None" in unparse(b.ast)) or (b.label == "F" and unparse(b.ast).endswith("is None")) or (b.label == "T" and " in " in unparse(b.ast)))]
        n_deleg = 0
        ok = bool(rets)
        for r_ in rets:
            v_ = r_.value
            parts = v_.values if isinstance(v_, ast.BoolOp) and isinstance(v_.op, ast.Or) else [v_]
            for pt in parts:
                if _self_attr_call(pt, store_attr) == "has_blob":
                    n_deleg += 1
                elif any(_self_attr_call(x, cache_attr) is not None for x in ast.walk(pt)) and not isinstance(pt, ast.UnaryOp):
                    pass  # a cache probe
                elif isinstance(pt, ast.Constant) and pt.value is True and dominated(ctx, hb, r_, hit_T) is None:
                    pass  # `return True` under a cache hit
                elif _is_hit_local(flow_of(prog, hb), pt, cache_attr):
                    pass  # a local that holds the outcome of a cache probe (`entry = self._cache.get(key)`, `hit = entry is not None`)
                else:
                    ok = False
        ok = ok and n_deleg >= 1
        if ok:
            rep.ok(rule, hb.qname, desc, hb.loc())
        else:
            rep.bad(rule, hb.qname, desc, hb.loc(), [f"{hb.loc(r)}: return {unparse(r.value, 70)}" for r in rets], "has_blob", what="has_blob of the wrapper is not `hit or wrapped.has_blob`")
    fb = wrap.methods.get("fetch_blob") if not only else None
    if fb is not None:
        n3 += 1
        rets = [n for n in fb.own_nodes() if isinstance(n, ast.Return) and n.value is not None]
        desc = "fetch_blob returns the cached object on a hit and the wrapped store's answer otherwise"
        wit = []
        n_deleg = 0
        for r in rets:
            v = r.value
            if isinstance(v, ast.Constant) and v.value is None:
                continue
            sl = ctx.slicer(follow_calls=True, through_records=True).slice(fb, v)
            has_deleg = sl.find(lambda f_, x: _self_attr_call(x, store_attr) == "fetch_blob") is not None
            has_cache = sl.find(lambda f_, x: _self_attr_call(x, cache_attr) is not None) is not None
            if has_deleg:
                n_deleg += 1
            if not has_deleg and not has_cache:
                wit.append(f"{fb.loc(r)}: returns `{unparse(v, 50)}`, neither a cache entry nor the wrapped store's answer")
        if n_deleg == 0:
            wit.append("no return value derives from the wrapped store's fetch_blob")
        if wit:
            rep.bad(rule, fb.qname, desc, fb.loc(), wit, "fetch_blob", what="fetch_blob of the wrapper can answer something else than cache entry / wrapped answer")
        else:
            rep.ok(rule, fb.qname, desc, fb.loc())
    return n3



def _adds_key(n: ast.AST, mapping: str) -> bool:
    if isinstance(n, ast.Subscript) and isinstance(n.ctx, ast.Store) and isinstance(n.value, ast.Attribute) and n.value.attr == mapping:
        return True
    if isinstance(n, ast.Call) and isinstance(n.func, ast.Attribute) and n.func.attr in ADDERS and isinstance(n.func.value, ast.Attribute) and n.func.value.attr == mapping:
        return True
    return False


def _is_evict_loop(w: ast.While, mapping: str, cap: Optional[str]) -> bool:
    t = w.test
    if not (isinstance(t, ast.Compare) and len(t.ops) == 1 and isinstance(t.ops[0], (ast.Gt, ast.GtE))):
        return False
    l, r = t.left, t.comparators[0]
    if not (isinstance(l, ast.Call) and unparse(l.func) == "len" and l.args and isinstance(l.args[0], ast.Attribute) and l.args[0].attr == mapping):
        return False
    if not (isinstance(r, ast.Attribute) and r.attr == cap and isinstance(r.value, ast.Name) and r.value.id == "self"):
        return False
    # `popitem(..)` removes an entry; `pop` does only when it is given the key (`pop(last=False)` is a TypeError: nothing is removed)
    pops = [n for n in ast.walk(w) if isinstance(n, ast.Call) and isinstance(n.func, ast.Attribute) and n.func.attr in ("popitem", "pop")
            and isinstance(n.func.value, ast.Attribute) and n.func.value.attr == mapping and (n.func.attr == "popitem" or n.args)]
    dels = [n for n in ast.walk(w) if isinstance(n, ast.Delete)]
    return bool(pops or dels) and not any(isinstance(n, (ast.Break, ast.Return)) for n in ast.walk(w))


def decode_cache_objects(ctx: Ctx, wrap: Class) -> None:
    rep = ctx.report
    prog = ctx.prog
    f = prog.func("dds._api.set_store")
    if f is None:
        raise AnchorError("dds._api.set_store not found")

    def oracle(name, args, kwargs, node):
        if name.endswith("_store") and not args:
            return Obj("current-store", [], {})
        return NOT_HANDLED

    ev0 = Evaluator(prog)
    default = ev0.dotted_value("dds._lru_store.default_cache_size")
    cases = [
        ("None", Const(None), "none"), ("False", Const(False), "none"), ("0", Const(0), "none"),
        ("True", Const(True), "default"), ("negative int", Sym("neg", none=False, truthy=True, sign="neg", pytype=int), "huge"),
        ("positive int n", Sym("n", none=False, truthy=True, sign="pos", pytype=int), "same"),
        ("1", Const(1), "const"), ("2", Const(2), "const"), ("-1", Const(-1), "huge"),
    ]
    bad, und = [], []
    for label, val, want in cases:
        ev = Evaluator(prog, oracle=oracle)
        outs = ev.run(f, [Const("memory"), Const(None), Const(None), Const(None), Const(None), val])
        if not outs:
            und.append(f"cache_objects={label}: no outcome")
        for o in outs:
            wraps = [e for e in o.events if e.callee == wrap.qname]
            if o.kind != "return":
                bad.append(f"cache_objects={label}: {o!r}")
                continue
            if want == "none":
                if wraps:
                    bad.append(f"cache_objects={label}: the store is wrapped ({wraps[0].kwargs or wraps[0].args}) although the documentation says no caching")
                continue
            if len(wraps) != 1:
                bad.append(f"cache_objects={label}: expected one {wrap.name}(...) construction, got {len(wraps)} (conditions {o.conds})")
                continue
            ne = wraps[0].kwargs.get("num_elem", wraps[0].args[1] if len(wraps[0].args) > 1 else TOP)
            if ne is TOP:
                und.append(f"cache_objects={label}: capacity not evaluated")
            elif want == "default" and not (isinstance(ne, Const) and isinstance(default, Const) and ne.v == default.v):
                bad.append(f"cache_objects={label}: capacity {ne!r}, expected the default size {default!r}")
            elif want == "huge" and not (isinstance(ne, Sym) and ne.sign == "pos" and ne.name == "huge") and not (isinstance(ne, Const) and isinstance(ne.v, int) and ne.v > 10**6):
                bad.append(f"cache_objects={label}: capacity {ne!r}, expected 'everything cached'")
            elif want == "same" and ne is not val:
                bad.append(f"cache_objects={label}: capacity {ne!r}, expected the given number")
            elif want == "const" and not (isinstance(ne, Const) and ne.v == val.v and type(ne.v) is int):
                bad.append(f"cache_objects={label}: capacity {ne!r}, expected {val.v}: the configured bound is not the effective one")
    desc = "cache_objects decodes as documented: None/False/0 no cache, True default size, negative unbounded, n -> n"
    if bad:
        rep.bad("C12.R4", f.qname, desc, f.loc(), bad[:8], "cache_objects", what="cache_objects is decoded to another capacity than documented")
    elif und:
        rep.unknown("C12.R4", f.qname, "cache_objects decoder uses syntax outside the abstract evaluator", f.loc(), und[:4])
    else:
        rep.ok("C12.R4", f.qname, desc + f" ({len(cases)} input classes)", f.loc())
    rep.floor("C12.R4", len(cases), 9)



def fetched_value_opaque(ctx: Ctx, rule: str) -> int:
    """The cache wrapper does nothing with a fetched object but compare it with None, keep it, and hand it out (and ask for its type): it never formats it,
    calls a method of it or passes it to anything else - `str(blob)` / `repr(blob)` may be expensive or raise for an object the bare store returns without trouble."""
    rep = ctx.report
    prog = ctx.prog
    wrap, cache, cache_attr, store_attr, mapping = find_classes(ctx)
    n = 0
    for mname in ("fetch_blob", "store_blob"):
        m = wrap.methods.get(mname)
        if m is None:
            continue
        vals = set()
        for st in m.own_nodes():
            if isinstance(st, (ast.Assign, ast.AnnAssign)) and isinstance(st.value, ast.Call) and _self_attr_call(st.value, store_attr) == "fetch_blob":
                t = st.targets[0] if isinstance(st, ast.Assign) else st.target
                if isinstance(t, ast.Name):
                    vals.add(t.id)
        if mname == "store_blob":
            vals |= {p_ for p_ in m.positional_params() if p_ == "blob"}
        for y in m.own_nodes():
            if not (isinstance(y, ast.Name) and y.id in vals and isinstance(y.ctx, ast.Load)):
                continue
            par = m.module.parent.get(y)
            n += 1
            ok = isinstance(par, ast.Return) or (isinstance(par, ast.Compare) and all(isinstance(o, (ast.Is, ast.IsNot)) for o in par.ops)) \
                or (isinstance(par, ast.Call) and (unparse(par.func) == "type" or _self_attr_call(par, cache_attr) is not None or _self_attr_call(par, store_attr) is not None))
            desc = f"{wrap.name}.{mname}: the object `{y.id}` is only tested against None, kept and handed on"
            if ok:
                rep.ok(rule, m.qname, desc, m.loc(y), nontrivial=False)
            else:
                rep.bad(rule, m.qname, desc, m.loc(y), [f"{m.loc(y)}: `{unparse(par, 70) if par is not None else y.id}` uses the object itself",
                        "a blob whose __repr__ / __str__ raises (or takes minutes: a large data frame) makes the wrapped fetch fail where the bare store returns the object"],
                        stmt_key(par if par is not None else y), what="the cache wrapper formats / inspects the fetched object")
    return n
