"""
C01 - memoized evaluation returns exactly what plain execution would return.

R1  signature composition completeness: every parameter of the composer reaches the order-insensitive combiner; at
    the call that produces fun_return_sig every component derives from its producer (body text, argument context,
    loaded paths, sub-calls, external names, tracked variables); the *input* signature that identifies the call-site
    context of nested keeps carries the arguments, the external names and the tracked variables; same for classes.
R2  traversal completeness of the discovery visitors (every visit_<Kind> reaches generic_visit on all normal paths);
    only value binders are local variables.
R3  call-site extent: the upper bound of the source lines hashed as call-site context depends on the call's end line.
R4  tracked-type table: abstract evaluation of the type classifier on every type the value hasher has a branch for: a
    hashable plain type is either tracked by value or refused loudly, never silently reduced to its name.
R5  memo protocol: the key fetched on a hit is the key tested; the value stored is the user call's result, under the
    tested key; the same value is returned; the user call forwards the caller's args / kwargs unchanged.
R6  name resolution consults the module namespace before dismissing a name: every `return None` of the resolver is
    dominated by "name not in the module's dict".
"""
from __future__ import annotations

import ast
from typing import Any, Dict, List, Optional, Tuple

from ..absint import Evaluator, Const, Sym, Obj, TypeV, TOP, NOT_HANDLED, PYTYPES
from ..cfg import cfg_of
from ..flow import flow_of
from ..model import unparse, stmt_key, Func, AnchorError
from . import visitors
from .c02 import composer
from .c05 import hasher, branches, all_branches
from .common import Ctx, find_api_functions, user_calls, store_calls, dominated, done_nodes, ancestors

PROP = "C01"
COMPONENTS = {
    "body_sig": ("the text of the function body", lambda s: "getsource" in s or "function_body_lines" in s or "body_lines" in s),
    "arg_ctx": ("the argument context", lambda s: "arg_ctx" in s),
    "indirect_deps": ("the loaded paths", lambda s: "load_paths" in s),
    "sub_fis": ("the sub-calls", lambda s: ".inters" in s),
    "ext_deps": ("the external names", lambda s: ".vars" in s),
    "ext_vars": ("the tracked variables", lambda s: ".vars" in s),
}



def _nothing_to_mark(prog, f: Func, cfg, marks) -> list:
    """branch outcomes under which the value a mark would add does not exist (`if callee_name is not None: seen.add(callee_name)`: the F outcome)"""
    out = []
    fl = flow_of(prog, f)
    for mk in marks:
        v = mk.args[0]
        if not isinstance(v, ast.Name):
            continue
        try:
            vd = set(fl.defs_of_use(v))
        except Exception:
            continue
        for b in cfg.nodes:
            if b.kind != "branch" or b.ast is None or not isinstance(b.ast, ast.expr):
                continue
            t, lab = b.ast, b.label
            while isinstance(t, ast.UnaryOp) and isinstance(t.op, ast.Not):
                t, lab = t.operand, ("F" if lab == "T" else "T")
            nm = None
            if isinstance(t, ast.Name) and lab == "F":
                nm = t
            elif isinstance(t, ast.Compare) and len(t.ops) == 1 and isinstance(t.left, ast.Name) and isinstance(t.comparators[0], ast.Constant) and t.comparators[0].value is None:
                if (isinstance(t.ops[0], ast.Is) and lab == "T") or (isinstance(t.ops[0], ast.IsNot) and lab == "F"):
                    nm = t.left
            if nm is not None and nm.id == v.id:
                try:
                    if set(fl.defs_of_use(nm)) == vd:
                        out.append(b)
                except Exception:
                    pass
    return out


def sources_dedented(ctx: Ctx, rule: str) -> int:
    """every `ast.parse(<text>)` of the analysis whose text comes from inspect.getsource (directly, or through a package function that returns it) goes
    through textwrap.dedent / inspect.cleandoc on the way"""
    from ..flow import flow_of
    rep = ctx.report
    prog = ctx.prog

    def is_getsource(f: Func, n: ast.AST, depth: int = 0) -> bool:
        if not isinstance(n, ast.Call):
            return False
        d = prog.dotted(f, n.func) or unparse(n.func)
        if d in ("inspect.getsource",):
            return True
        if depth < 2:
            fs, _ = prog.callees(f, n, ctx._types)
            for g in fs:
                if g.module.name.startswith("dds") and any(isinstance(r, ast.Return) and r.value is not None and any(is_getsource(g, x, depth + 1) for x in ast.walk(r.value)) for r in g.own_nodes()):
                    return True
        return False

    def is_dedent(f: Func, n: ast.AST) -> bool:
        return isinstance(n, ast.Call) and (prog.dotted(f, n.func) or unparse(n.func)) in ("textwrap.dedent", "inspect.cleandoc")

    n = 0
    for f in prog.funcs.values():
        if f.module.name not in ("dds.introspect", "dds._introspect_indirect"):
            continue
        fl = None
        for call in f.own_nodes():
            if not (isinstance(call, ast.Call) and (prog.dotted(f, call.func) or unparse(call.func)) == "ast.parse" and call.args):
                continue
            fl = fl or flow_of(prog, f)
            # expressions the text comes from: the argument itself and, through local names, their reaching definitions (two levels)
            exprs = [call.args[0]]
            seen = set()
            raw: List[ast.AST] = []
            covered = False
            while exprs:
                e = exprs.pop()
                if id(e) in seen:
                    continue
                seen.add(id(e))
                if is_dedent(f, e):
                    covered = covered or any(is_getsource(f, x) for a in e.args for x in ast.walk(a)) or any(isinstance(a, ast.Name) for a in e.args)
                    # what is inside a dedent is dedented: do not descend
                    inner = [x for a in e.args for x in ast.walk(a) if is_getsource(f, x)]
                    if not inner:
                        for a in e.args:
                            if isinstance(a, ast.Name):
                                for d in fl.defs_of_use(a):
                                    if d.value is not None and any(is_getsource(f, x) for x in ast.walk(d.value)):
                                        inner.append(d.value)
                    if inner:
                        covered = True
                    continue
                if is_getsource(f, e):
                    raw.append(e)
                    continue
                if isinstance(e, ast.Name):
                    for d in fl.defs_of_use(e):
                        if d.value is not None:
                            exprs.append(d.value)
                    continue
                for ch in ast.iter_child_nodes(e):
                    exprs.append(ch)
            if not raw and not covered:
                continue   # a text that does not come from inspect.getsource
            n += 1
            desc = f"{f.name}: the source text given to ast.parse is dedented"
            if raw:
                rep.bad(rule, f.qname, desc, f.loc(call), [f"{f.loc(raw[0])}: `{unparse(raw[0], 50)}` reaches `{unparse(call, 40)}` without textwrap.dedent",
                        "`if True:\\n    def cond(x): return x * 2` and `def top(): return cond(2)`: dds.eval(top) raises IndentationError('unexpected indent'), plain execution returns 4"],
                        stmt_key(call), what="the indented source of a definition nested in a block is parsed as it stands")
            else:
                rep.ok(rule, f.qname, desc, f.loc(call))
    return n

def composer_components(ctx: Ctx, rule: str, floor: int = 14) -> None:
    """every component of a signature (body text, arguments, calls, dependencies, tracked variables) reaches the combined pair list, and every call site of the
    composer hands over components that derive from their producers - no literal empty value"""
    rep = ctx.report
    prog = ctx.prog
    # ---- R1 -------------------------------------------------------------------------------
    comp = composer(ctx)
    commut = [n for n in comp.own_nodes() if isinstance(n, ast.Call) and (prog.dotted(comp, n.func) or "").endswith("dds_hash_commut")]
    if not commut:
        raise AnchorError("the composer does not call the order-insensitive combiner")
    sl = ctx.slicer(follow_calls=False).slice(comp, commut[-1].args[0])
    n1 = 0
    for p in comp.params:
        n1 += 1
        desc = f"composer parameter `{p}` ({COMPONENTS.get(p, ('?',))[0]}) reaches the combined pair list"
        if sl.has_param(comp, p) is not None or any(isinstance(x, ast.Name) and x.id == p for _, nd in sl.nodes() for x in ast.walk(nd)):
            rep.ok(rule, comp.qname, desc, comp.loc())
        else:
            rep.bad(rule, comp.qname, desc, comp.loc(), [f"`{p}` is not used on the way to `{unparse(commut[-1], 40)}`: two programs that differ only in {COMPONENTS.get(p, ('it',))[0]} share a key"],
                    f"unused:{p}", what=f"{COMPONENTS.get(p, (p,))[0]} is not part of the signature")
    # call sites
    for f in prog.funcs.values():
        if f.module.name != "dds.introspect":
            continue
        fl = flow_of(prog, f)
        for n in f.own_nodes():
            if not (isinstance(n, ast.Call) and (prog.dotted(f, n.func) or "") == comp.qname):
                continue
            kws = {k.arg: k.value for k in n.keywords}
            # positional arguments take the composer's parameters in order
            for i_, a_ in enumerate(n.args):
                if i_ < len(comp.params) and not isinstance(a_, ast.Starred):
                    kws.setdefault(comp.params[i_], a_)
            is_input = isinstance(kws.get("body_sig"), ast.Constant) and kws["body_sig"].value is None
            role = "input signature (call-site context of nested keeps)" if is_input else "return signature"
            required = ["arg_ctx", "ext_deps", "ext_vars"] if is_input else list(COMPONENTS)
            # an inspector that runs no visitor over a body (the class inspector for a class without methods) has no calls, loads, external names or
            # tracked variables of its own to hand over: the text of the body and the argument binding are what it must pass
            if not any(isinstance(y, ast.Call) and unparse(y.func).split(".")[-1].endswith("Visitor") for y in f.own_nodes()):
                required = [c_ for c_ in required if c_ in ("body_sig", "arg_ctx")]
            for cname in required:
                n1 += 1
                a = kws.get(cname)
                what, pred = COMPONENTS[cname]
                desc = f"{role} of {f.name}: {what} derive from their producer"
                if a is None:
                    rep.bad(rule, f.qname, desc, f.loc(n), [f"component `{cname}` is not passed"], f"{f.name}:{cname}:missing", what=f"{what} are not part of the {role}")
                    continue
                if (isinstance(a, (ast.Dict, ast.List)) and not (a.keys if isinstance(a, ast.Dict) else a.elts)) or (isinstance(a, ast.Constant) and a.value is None):
                    rep.bad(rule, f.qname, desc, f.loc(n), [f"{f.loc(n)}: `{cname}={unparse(a)}` is a literal empty value",
                            "a nested dds.keep with run-time arguments is identified by this context: it keeps its key when " + what + " change, and the stale blob is served"],
                            f"{f.name}:{cname}:empty", what=f"{what} are dropped from the {role}")
                    continue
                s2 = ctx.slicer(follow_calls=True, follow_callers=(cname == "body_sig"), through_records=True).slice(f, a)
                text = " ".join(unparse(x, 200) for _, x in s2.nodes())
                if pred(text):
                    rep.ok(rule, f.qname, desc, f.loc(n))
                else:
                    rep.bad(rule, f.qname, desc, f.loc(n), [f"`{cname}={unparse(a, 40)}` does not derive from its producer; slice: {text[:200]}"], f"{f.name}:{cname}:producer",
                            what=f"{what} in the {role} do not come from the analysis of the function")
    # class composer
    ic = prog.func("dds.introspect.InspectFunction.inspect_class")
    if ic is not None:
        n1 += 1
        cm = [n for n in ic.own_nodes() if isinstance(n, ast.Call) and (prog.dotted(ic, n.func) or "").endswith("dds_hash_commut")]
        text = unparse(cm[0], 400) if cm else ""
        desc = "class signature combines the class body text and the interactions of every method"
        if cm and "body_sig" in text and "method_fis" in text:
            rep.ok(rule, ic.qname, desc, ic.loc(cm[0]))
        else:
            rep.bad(rule, ic.qname, desc, ic.loc(), [f"combined: {text}"], "class-composer", what="class signature misses the body or the method interactions")
    rep.floor(rule, n1, floor)





def pairs_distinct(ctx: Ctx, rule: str) -> int:
    """every literal list of (constant key, value) pairs handed to the order-insensitive combiner holds pairwise different values, and every hash computed
    in a function of the introspection is used"""
    rep = ctx.report
    prog = ctx.prog
    n11 = 0
    for f in prog.funcs.values():
        if f.module.name not in ("dds.introspect", "dds._introspect_indirect"):
            continue
        for n in f.own_nodes():
            if isinstance(n, ast.Call) and (prog.dotted(f, n.func) or "").endswith("dds_hash_commut") and n.args:
                def alts(e: ast.AST, depth: int = 0) -> List[List[str]]:
                    """the value names of the (key, value) pairs, per alternative way of building the list"""
                    if isinstance(e, ast.List):
                        return [[unparse(x.elts[1]) for x in e.elts if isinstance(x, ast.Tuple) and len(x.elts) == 2 and isinstance(x.elts[1], ast.Name)]]
                    if isinstance(e, ast.BinOp) and isinstance(e.op, ast.Add):
                        return [a + b for a in alts(e.left, depth) for b in alts(e.right, depth)][:16]
                    if isinstance(e, ast.IfExp):
                        return (alts(e.body, depth) + alts(e.orelse, depth))[:16]
                    if isinstance(e, ast.Name) and depth < 2:
                        # a list built beforehand: its literal definition(s), then the pairs appended to it in this function
                        base: List[List[str]] = []
                        extra: List[str] = []
                        for st in f.own_nodes():
                            if isinstance(st, (ast.Assign, ast.AnnAssign)) and st.value is not None and any(
                                    isinstance(t, ast.Name) and t.id == e.id for t in (st.targets if isinstance(st, ast.Assign) else [st.target])):
                                base += alts(st.value, depth + 1)
                            elif isinstance(st, ast.Call) and isinstance(st.func, ast.Attribute) and st.func.attr in ("append", "insert") \
                                    and isinstance(st.func.value, ast.Name) and st.func.value.id == e.id and st.args and isinstance(st.args[-1], ast.Tuple) \
                                    and len(st.args[-1].elts) == 2 and isinstance(st.args[-1].elts[1], ast.Name):
                                extra.append(unparse(st.args[-1].elts[1]))
                        return [b + extra for b in (base or [[]])][:16]
                    return [[]]

                alternatives = alts(n.args[0])
                names = max(alternatives, key=len) if alternatives else []
                for al in alternatives:
                    if any(al.count(x) > 1 for x in al):
                        names = al
                if len(names) < 2:
                    continue
                n11 += 1
                dup = sorted({x for x in names if names.count(x) > 1})
                desc = f"the {len(names)} components of `{unparse(n, 40)}` are distinct values"
                if dup:
                    fl_ = flow_of(prog, f)
                    unused = []
                    for st in f.own_nodes():
                        if isinstance(st, ast.Assign) and len(st.targets) == 1 and isinstance(st.targets[0], ast.Name) and isinstance(st.value, ast.Call) and "hash" in unparse(st.value.func):
                            v_ = st.targets[0].id
                            if not any(isinstance(y, ast.Name) and y.id == v_ and isinstance(y.ctx, ast.Load) for y in f.own_nodes()):
                                unused.append(f"{f.loc(st)}: `{v_}` is computed and never used")
                    rep.bad(rule, f.qname, desc, f.loc(n), [f"{f.loc(n)}: `{d}` is given under two different keys" for d in dup] + unused + [
                        "the component that is missing no longer influences this key: a nested dds.keep whose run-time argument comes from an earlier call keeps its key when that "
                        "call's dependencies change, and serves the stale blob"], stmt_key(n), what="a component of a signature is written twice and another one is dropped")
                else:
                    rep.ok(rule, f.qname, desc, f.loc(n))
    return n11


def run(ctx: Ctx) -> None:
    rep = ctx.report
    prog = ctx.prog
    from .roles import path_map_field as _pmf_role
    _pmf1 = _pmf_role(ctx)
    ctx.types
    top, nested = find_api_functions(ctx)
    rep.rule("C01.R1", "composer: every parameter reaches the pair list; call sites: every component derives from its producer")
    rep.rule("C01.R2", "visitors: generic_visit on every normal path; only value binders are local variables")
    rep.rule("C01.R3", "call-site context slice bound depends on the call node's end line")
    rep.rule("C01.R4", "abstract evaluation of the tracked-type classifier over the hasher's type tags")
    rep.rule("C01.R5", "memo protocol key / value identity in both API functions")
    rep.rule("C01.R6", "every `return None` of the name resolver is dominated by `name not in module.__dict__`")

    # ---- R1 -------------------------------------------------------------------------------
    composer_components(ctx, "C01.R1")
    comp = composer(ctx)

    # ---- R2 -------------------------------------------------------------------------------
    n2 = visitors.traversal_complete(ctx, "C01.R2")
    visitors.only_value_binders(ctx, "C01.R2")
    visitors.body_only(ctx, "C01.R2")
    rep.floor("C01.R2", n2, 5)

    # ---- R3 -------------------------------------------------------------------------------
    n3 = 0
    for (m_, n, kind, fn_, e_) in context_extent(ctx):
        n3 += 1
        desc = "the lines hashed as call-site context extend to the end of the (possibly multi-line) call"
        if kind in ("end", "whole"):
            rep.ok("C01.R3", m_.qname, desc + (" (the whole body is hashed)" if kind == "whole" else ""), m_.loc(n))
        else:
            rep.bad("C01.R3", m_.qname, desc, m_.loc(n), [f"{fn_.loc(e_) if e_ is not None else m_.loc(n)}: upper bound `{unparse(e_)}` depends on the start line only",
                    "an argument on the third or a later line of a kept call with run-time arguments is outside the context: editing it keeps the signature, the stale value is served"],
                    "call-extent", what="call-site context stops before the end of a multi-line call")
    rep.floor("C01.R3", n3, 1)

    rep.rule("C01.R23", "the lines hashed as the context of a node reach at least the node's own line (the slice bound is the node's line number plus a non-negative constant)")
    n23 = context_covers_own_line(ctx, "C01.R23")
    rep.floor("C01.R23", n23, 2)
    # ---- R4 -------------------------------------------------------------------------------
    tracked_type_table(ctx)

    # ---- R5 -------------------------------------------------------------------------------
    n5 = 0
    for f in (top, nested):
        fl = flow_of(prog, f)
        cfg = cfg_of(f)
        ucs = user_calls(f)
        has = store_calls(ctx, f, ["has_blob"])
        fetch = store_calls(ctx, f, ["fetch_blob"])
        stores = store_calls(ctx, f, ["store_blob"])
        for uc in ucs:
            n5 += 1
            star = [a.value for a in uc.args if isinstance(a, ast.Starred)]
            dstar = [k.value for k in uc.keywords if k.arg is None]
            desc = "the user function is called with the caller's args / kwargs unchanged"
            ok = (len(uc.args) == 1 and len(star) == 1 and isinstance(star[0], ast.Name) and star[0].id in f.params and all(d.kind == "param" for d in fl.root_defs(star[0]))
                  and len(uc.keywords) == 1 and isinstance(dstar[0], ast.Name) and dstar[0].id in f.params and all(d.kind == "param" for d in fl.root_defs(dstar[0])))
            if ok:
                rep.ok("C01.R5", f.qname, desc, f.loc(uc))
            else:
                rep.bad("C01.R5", f.qname, desc, f.loc(uc), [f"call `{unparse(uc)}`"], stmt_key(uc), what="the user function is not called with the caller's arguments")
            # the function returns the call's value
            st = prog.enclosing_stmt(f.module, uc)
            desc = "on a miss the value returned is the user call's result"
            if isinstance(st, ast.Assign) and isinstance(st.targets[0], ast.Name):
                var = st.targets[0].id
                rets = [r for r in f.own_nodes() if isinstance(r, ast.Return) and isinstance(r.value, ast.Name)]
                good = [r for r in rets if any(d.stmt is st for d in fl.root_defs(r.value))]
                if good:
                    rep.ok("C01.R5", f.qname, desc, f.loc(good[0]))
                else:
                    rep.bad("C01.R5", f.qname, desc, f.loc(st), [f"no `return {var}` is reached by `{unparse(st, 50)}`"], stmt_key(st) + "ret", what="the computed value is not what is returned")
        has = [h for h in has if any(t.kind == "test" and t.ast is not None and any(x is h for x in ast.walk(t.ast)) for t in cfg.nodes)]
        n_hit = 0
        for h in has:
            tb = [b for b in cfg.nodes if b.kind == "branch" and b.label == "T" and b.ast is not None and any(x is h for x in ast.walk(b.ast))]
            served = [fb for fb in fetch if tb and dominated(ctx, f, fb, tb) is None]
            if not served and n_hit + len([x for x in has if x is not h]) > 0 and any(
                    [b2 for b2 in cfg.nodes if b2.kind == "branch" and b2.label == "T" and b2.ast is not None and any(x is h2 for x in ast.walk(b2.ast))]
                    and any(dominated(ctx, f, fb, [b2 for b2 in cfg.nodes if b2.kind == "branch" and b2.label == "T" and b2.ast is not None and any(x is h2 for x in ast.walk(b2.ast))]) is None for fb in fetch)
                    for h2 in has if h2 is not h):
                # a presence test that serves no blob (a debugging census of the present blobs ...) is not the hit test of the memo protocol: another test is
                continue
            n_hit += 1
            n5 += 1
            k = h.args[0] if h.args else None
            desc = f"the key fetched on a hit is the key tested by `{unparse(h, 40)}`"
            ok = False
            for fb in fetch:
                kb = fb.args[0] if fb.args else None
                if isinstance(k, ast.Name) and isinstance(kb, ast.Name) and k.id == kb.id and set(fl.root_defs(k)) == set(fl.root_defs(kb)):
                    if dominated(ctx, f, fb, tb) is None:
                        ok = True
            if ok:
                rep.ok("C01.R5", f.qname, desc, f.loc(h))
            else:
                rep.bad("C01.R5", f.qname, desc, f.loc(h), [f"fetch_blob calls: {[unparse(x, 40) for x in fetch]}"], stmt_key(h), what="a hit returns the blob of another key than the one tested")
        for sb in stores:
            n5 += 1
            v_ = sb.args[1] if len(sb.args) > 1 else None
            d_ = "the value stored is the user call's result"
            okv = isinstance(v_, ast.Name) and bool(fl.root_defs(v_)) and all(d.kind == "assign" and d.value in ucs for d in fl.root_defs(v_))
            if okv:
                rep.ok("C01.R5", f.qname, d_, f.loc(sb))
            else:
                rep.bad("C01.R5", f.qname, d_, f.loc(sb), [f"{f.loc(sb)}: `{unparse(sb, 60)}` stores `{unparse(v_)}`"], stmt_key(sb) + "val", what="the blob stored is not the value the user function returned")
            desc = "the blob is stored under the signature that the presence test / the analysis computed for this call"
            k = sb.args[0] if sb.args else None
            ok = False
            if isinstance(k, ast.Name):
                kd = fl.root_defs(k)
                for h in has:
                    hk = h.args[0] if h.args else None
                    if isinstance(hk, ast.Name):
                        if hk.id == k.id and set(fl.root_defs(hk)) == set(kd):
                            ok = True
                        # same lookup expression of the evaluation's path map
                        hv = [unparse(d.value, 200) for d in fl.root_defs(hk) if d.value is not None]
                        kv = [unparse(d.value, 200) for d in kd if d.value is not None]
                        if hv and kv and (_pmf1 in " ".join(kv)) and (hk.id == k.id or any(_pmf1 in x or "fun_return_sig" in x for x in hv)):
                            ok = True
            if ok:
                rep.ok("C01.R5", f.qname, desc, f.loc(sb))
            else:
                rep.bad("C01.R5", f.qname, desc, f.loc(sb), [f"store key `{unparse(k)}` vs tested keys {[unparse(h.args[0]) for h in has if h.args]}"], stmt_key(sb), what="results are stored under another key than the one looked up")
    rep.floor("C01.R5", n5, 6)

    # ---- R7 / R8 ------------------------------------------------------------------------------
    from .c03 import global_cache_rule
    rep.rule("C01.R7", "as C03.R3(i): no process-wide cache of analysis inputs / results is both written and returned (earlier evaluations must not influence later ones)")
    global_cache_rule(ctx, "C01.R7")
    from . import c13
    rep.rule("C01.R8", "as C13.R1-R3: arguments of direct calls and literals seen in source bind and hash alike")
    before = len(rep.obligations)
    c13.run(ctx)
    for o in rep.obligations[before:]:
        o.rule = "C01.R8/" + o.rule
    for k in [k for k in rep.floors if k.startswith("C13.")]:
        rep.floors["C01.R8/" + k] = rep.floors.pop(k)

    # ---- R14: one key per path in an evaluation ----------------------------------------------------------------------------
    rep.rule("C01.R14", "the (path -> signature) map of an evaluation is built with a collision check: a path that the analysis meets with two different "
                        "signatures is refused, because the nested keep looks its key up by path")
    asp = prog.func("dds.structures_utils.FunctionInteractionsUtils.all_store_paths")
    if asp is None:
        raise AnchorError("dds.structures_utils.FunctionInteractionsUtils.all_store_paths not found")
    holders14 = [asp] + [g_ for g_ in prog.funcs.values() if g_ is not asp and any(isinstance(x, ast.Call) and unparse(x.func).endswith("all_store_paths") for x in g_.own_nodes())]
    found14 = None
    for g_ in holders14:
        for r in [x for x in g_.own_nodes() if isinstance(x, ast.Raise)]:
            guard = None
            for a in ancestors(g_.module, r):
                if isinstance(a, ast.If):
                    guard = a
                    break
                if isinstance(a, (ast.FunctionDef, ast.AsyncFunctionDef)):
                    break
            if guard is None:
                continue
            cmp_ = [c for c in ast.walk(guard.test) if isinstance(c, ast.Compare) and isinstance(c.ops[0], (ast.NotEq, ast.IsNot))]
            looks = [c for c in ast.walk(guard.test) if (isinstance(c, ast.Call) and isinstance(c.func, ast.Attribute) and c.func.attr == "get") or isinstance(c, ast.Subscript)]
            if cmp_ and looks:
                found14 = (g_, r)
    desc14 = "a path met twice with different signatures is refused when the path map is built"
    if found14 is not None:
        rep.ok("C01.R14", found14[0].qname, desc14, found14[0].loc(found14[1]))
    else:
        conv = [x for x in asp.own_nodes() if isinstance(x, ast.Return)]
        rep.bad("C01.R14", asp.qname, desc14, asp.loc(conv[0]) if conv else asp.loc(), [f"{asp.loc(conv[0]) if conv else asp.loc()}: `{unparse(conv[0], 50) if conv else ''}` keeps the last signature of a path silently",
                "`a = dds.keep('/p', f, 1); b = dds.keep('/p', f, 2)` (or the two branches of an if): both keeps look up the key of '/p' and get the key of f(2); f(1) is stored "
                "under it and the second keep is served 10 instead of 20 (/verif/findings/F21_path_kept_twice.py)"], "dup-path", what="a path kept twice in one evaluation gives every keep of that path the last key")

    # ---- R13: the calls made in argument position precede the call that receives their values ------------------------------
    rep.rule("C01.R13", "IntroVisitor.visit_Call visits the sub-expressions of a call (its arguments) before it computes the hash of the previous interactions "
                        "that keys a kept call with run-time arguments: python evaluates the arguments first, so `dds.keep(p, f, helper())` depends on helper")
    iv13 = prog.cls("dds.introspect.IntroVisitor")
    vc13 = iv13.methods.get("visit_Call") if iv13 is not None else None
    if vc13 is None:
        raise AnchorError("dds.introspect.IntroVisitor.visit_Call not found")
    c13cfg = cfg_of(vc13)
    gv = [x for x in vc13.own_nodes() if isinstance(x, ast.Call) and isinstance(x.func, ast.Attribute) and x.func.attr == "generic_visit"]
    # the hash of the previous interactions: the call of the order-insensitive combiner made by visit_Call itself (or by a helper of the
    # visitor / of the module that it calls) - not the one made inside the call inspector
    def _is_commut(g_, y):
        return isinstance(y, ast.Call) and (prog.dotted(g_, y.func) or "").endswith("dds_hash_commut")
    prev = [x for x in vc13.own_nodes() if _is_commut(vc13, x)]
    if not prev:
        for x in vc13.own_nodes():
            if isinstance(x, ast.Call):
                fs_, _d = prog.callees(vc13, x, ctx._types)
                if any((g_.cls is None or g_.cls is vc13.cls) and any(_is_commut(g_, y) for y in g_.own_nodes()) for g_ in fs_):
                    prev.append(x)
    n13 = 0
    for pcall in prev:
        n13 += 1
        desc = "the arguments of a call are visited before the hash of the previous interactions is taken"
        doms13 = [d for g_ in gv for d in done_nodes(c13cfg, g_)]
        w = dominated(ctx, vc13, pcall, doms13) if doms13 else [f"{vc13.loc()}: visit_Call never visits the children of the call"]
        if w is None:
            rep.ok("C01.R13", vc13.qname, desc, vc13.loc(pcall))
        else:
            rep.bad("C01.R13", vc13.qname, desc, vc13.loc(pcall), [f"{vc13.loc(pcall)}: `{unparse(pcall, 50)}` is computed before `generic_visit(node)` has visited the arguments:"] + w[-6:] + [
                    "`def outer(): return dds.keep('/p', g, helper())`: the interaction of helper() is recorded after the key of the keep was computed, so editing what helper depends on "
                    "leaves the key of g unchanged and the stale blob is served (20 instead of 70 in /verif/findings/F20_call_in_argument_position.py)"], "args-after-call",
                    what="calls in argument position are not part of the key of the kept call that receives their values")
    rep.floor("C01.R13", n13, 1)

    # ---- R18: the function handed to keep / eval is analysed once, with the call ----------------------------------------------
    rep.rule("C01.R18", "IntroVisitor.visit_Call marks the arguments of the call as seen (in the set of names that visit_Name consults) before it visits them: the function "
                        "given to dds.keep / dds.eval is analysed with that call and its arguments, not a second time as a bare reference without arguments (two different "
                        "signatures for the paths it keeps: the evaluation is refused, or the wrong one wins)")
    vis18 = prog.cls("dds.introspect.IntroVisitor")
    vc18 = vis18.methods.get("visit_Call") if vis18 is not None else None
    vn18 = vis18.methods.get("visit_Name") if vis18 is not None else None
    if vc18 is None or vn18 is None:
        raise AnchorError("dds.introspect.IntroVisitor.visit_Call / visit_Name not found")
    seen_sets = {c_.comparators[0].attr for c_ in vn18.own_nodes() if isinstance(c_, ast.Compare) and len(c_.ops) == 1 and isinstance(c_.ops[0], ast.NotIn)
                 and isinstance(c_.comparators[0], ast.Attribute) and isinstance(c_.comparators[0].value, ast.Name) and c_.comparators[0].value.id == "self"}
    node_param = vc18.positional_params()[0] if vc18.positional_params() else "node"
    marks = []
    for x in vc18.own_nodes():
        if isinstance(x, ast.Call) and isinstance(x.func, ast.Attribute) and x.func.attr in ("add", "update") and isinstance(x.func.value, ast.Attribute) \
                and x.func.value.attr in seen_sets and x.args:
            # derived from the arguments of the call: mentions node.args directly, or calls a method of the visitor that reads them
            srcs = [x.args[0]]
            # (through a local: `callee_name = self._dds_callee_name(node)`, `if callee_name is not None: self._store_names.add(callee_name)`)
            work18 = [x.args[0]]
            for _lvl in range(4):
                nxt18 = []
                for w_ in work18:
                    for y in ast.walk(w_):
                        if isinstance(y, ast.Name) and isinstance(y.ctx, ast.Load):
                            try:
                                nxt18 += [d_.value for d_ in flow_of(prog, vc18).defs_of_use(y) if d_.value is not None and getattr(d_, "kind", "assign") == "assign"
                                          and not any(d_.value is z for z in srcs)]
                            except Exception:
                                pass
                srcs += nxt18
                work18 = nxt18
            for s0 in list(srcs):
                for y in ast.walk(s0):
                    if isinstance(y, ast.Call) and isinstance(y.func, ast.Attribute) and isinstance(y.func.value, ast.Name) and y.func.value.id == "self" and y.func.attr in vis18.methods:
                        srcs.append(vis18.methods[y.func.attr].node)
            if any(isinstance(z, ast.Attribute) and z.attr == "args" for s_ in srcs for z in ast.walk(s_)):
                marks.append(x)
    gv18 = [x for x in vc18.own_nodes() if isinstance(x, ast.Call) and isinstance(x.func, ast.Attribute) and x.func.attr == "generic_visit"]
    desc18 = "the function argument of a dds.keep / dds.eval call is marked as seen before the arguments are visited"
    c18 = cfg_of(vc18)
    if not gv18:
        rep.unknown("C01.R18", vc18.qname, "visit_Call does not visit the sub-expressions of the call", vc18.loc())
    elif marks and all(dominated(ctx, vc18, g_, [d for mk in marks for d in done_nodes(c18, mk)] + _nothing_to_mark(prog, vc18, c18, marks)) is None for g_ in gv18):
        rep.ok("C01.R18", vc18.qname, desc18, vc18.loc(marks[0]))
    else:
        rep.bad("C01.R18", vc18.qname, desc18, vc18.loc(gv18[0]), [f"{vc18.loc(gv18[0])}: `{unparse(gv18[0], 40)}` visits the arguments; no statement before it adds the function argument of the call to "
                f"{sorted(seen_sets)}", "`def outer(x): return dds.keep('/inner', inner, x) + 1` and `def top(): return dds.keep('/outer', outer, 1)`: `outer` is analysed with the "
                "argument 1 (by the keep) and once more without arguments (by visit_Name): '/inner' gets two signatures and dds.eval(top) is refused with OVERLAPPING_PATH, where plain "
                "execution returns 12"], "callee-analysed-twice", what="the function given to dds.keep is also analysed as a bare reference: its kept paths get two signatures")
    # ---- R19: sources are dedented before they are parsed -----------------------------------------------------------------------
    rep.rule("C01.R19", "the source text of a function / class (inspect.getsource, or the package's class-source helper) is dedented before ast.parse: a definition nested in a block "
                        "(`if cond: def f(): ..`) has an indented source, and parsing it as it stands raises IndentationError where plain execution returns a value")
    n19 = sources_dedented(ctx, "C01.R19")
    rep.floor("C01.R19", n19, 4)
    if rep.prop == "C01":
        from .common import share_rules
        share_rules(ctx, "C14", "C01.R22", ["C14.R1"], "a variable / function of an accepted module is tracked whatever the depth of the module and the way the package was accepted: the "
                    "authorisation test enumerates every prefix of the module path, the whole path included (else the object is tracked by name only and its edits are not seen)")
    if rep.prop == "C01":
        from .c11 import method_on_result_is_not_the_call
        rep.rule("C01.R24", "as C11.R19: a method called on the value of a dds call (`dds.load(p).upper()`) is not analysed as that dds call - the evaluation of natural code is not refused "
                            "where plain execution returns a value")
        n24 = method_on_result_is_not_the_call(ctx, "C01.R24")
        rep.floor("C01.R24", n24, 2)
    from .common import forwarding_complete
    rep.rule("C01.R21", "the public entry points, the decorators' wrappers and the internal API hand over the user's `*args` and `**kwargs` together: no argument is dropped between the "
                        "user's call and the binder / the user function")
    n21 = forwarding_complete(ctx, "C01.R21", "`@dds.dds_function('/p') def scaled(base, factor=2)`: scaled(10, factor=5) is keyed and evaluated as scaled(10): the result for the default "
                                             "factor is returned, where plain execution returns the result for factor=5")
    rep.floor("C01.R21", n21, 4)
    from .c13 import pair_values_rule
    rep.rule("C01.R20", "in the signature composer the entries built from a mapping (dependencies by path, external dependencies by name) hash the mapping's VALUE - the signature / "
                        "canonical path the name stands for - not the key a second time")
    n20 = pair_values_rule(ctx, "C01.R20")
    rep.floor("C01.R20", n20, 2)
    from .c09 import previous_covers_loads
    rep.rule("C01.R17", "as C09.R16: the call-site context of a kept call covers the paths loaded before the call (their values can be its run-time arguments)")
    n17 = previous_covers_loads(ctx, "C01.R17")
    rep.floor("C01.R17", n17, 2)
    from .common import kinds_not_confused
    rep.rule("C01.R15", "as C14.R12: names, canonical paths, store paths and signatures are not used in place of one another in the analysis (mypy): the memo of "
                        "variable hashes is keyed by the canonical path of the variable")
    n15 = kinds_not_confused(ctx, "C01.R15", ("dds.introspect", "dds._introspect_indirect", "dds._retrieve_objects", "dds._eval_ctx", "dds._api", "dds.structures_utils"),
                             "a variable of one accepted module is given the hash of a same-named variable of another: editing it changes no signature and the stale result is served")
    rep.floor("C01.R15", n15, 3)

    from .c17 import codec_duals
    rep.rule("C01.R16", "as C17.R4: the value served from the store equals the one the function returned: serialize_into / deserialize_from of every codec are duals "
                        "(a str result read back in text mode comes back with its '\\r' translated: the second call differs from plain execution)")
    n16 = codec_duals(ctx, "C01.R16", "C01.R16")
    rep.floor("C01.R16", n16, 4)

    # ---- R11 / R12 --------------------------------------------------------------------------------------------------------
    rep.rule("C01.R11", "every literal list of (constant key, value) pairs handed to the order-insensitive combiner holds pairwise different values, and every hash "
                        "computed in a function of the introspection is used (a component written twice means another one is missing)")
    n11 = pairs_distinct(ctx, "C01.R11")
    rep.floor("C01.R11", n11, 1)
    rep.rule("C01.R12", "as C05.R1-R9: the value hasher is total and injective on what it supports (a lossy encoding of a module variable or an argument keeps the signature when the value changes)")
    from . import c05 as _c05
    before_ = len(rep.obligations)
    _c05.run(ctx)
    for o in rep.obligations[before_:]:
        o.rule = "C01.R12/" + o.rule
    for k in [k for k in rep.floors if k.startswith("C05.")]:
        rep.floors["C01.R12/" + k] = rep.floors.pop(k)

    # ---- R10: the root keeps the path its decorator will ask for ---------------------------------------------------
    rep.rule("C01.R10", "attaching the explicit path of dds.keep to the root interactions does not drop a path the root already has (its "
                        "@data_function path): the decorated function still asks for that path at run time")
    n10 = 0
    tcfg = cfg_of(top)
    for n in top.own_nodes():
        if isinstance(n, ast.Assign) and isinstance(n.value, ast.Call) and isinstance(n.value.func, ast.Attribute) and n.value.func.attr == "_replace" \
                and any(k.arg == "store_path" for k in n.value.keywords) and isinstance(n.value.func.value, ast.Name):
            n10 += 1
            x = n.value.func.value.id
            free = [b for b in tcfg.nodes if b.kind == "branch" and isinstance(b.ast, ast.Compare) and len(b.ast.ops) == 1 and isinstance(b.ast.left, ast.Attribute)
                    and b.ast.left.attr == "store_path" and isinstance(b.ast.left.value, ast.Name) and b.ast.left.value.id == x
                    and isinstance(b.ast.comparators[0], ast.Constant) and b.ast.comparators[0].value is None
                    and ((isinstance(b.ast.ops[0], ast.Is) and b.label == "T") or (isinstance(b.ast.ops[0], ast.IsNot) and b.label == "F"))]
            desc = f"`{unparse(n, 50)}` replaces the root's path only when it has none of its own"
            w = dominated(ctx, top, n, free) if free else [f"{top.loc(n)}: no test of `{x}.store_path is None` precedes the replacement"]
            if w is None:
                rep.ok("C01.R10", top.qname, desc, top.loc(n))
            else:
                rep.bad("C01.R10", top.qname, desc, top.loc(n), w + [
                    "`@dds.data_function('/acc') def acc(): ...` kept under another path, `dds.keep('/snap', acc)`: the analysis records '/snap' in place of '/acc', "
                    "then the decorator calls keep('/acc', ..) inside the evaluation and the lookup of '/acc' in the evaluation's path map raises KeyError "
                    "(plain execution returns the value)"], "root-path-replaced", what="keeping a data function under another path drops its own path from the path map (KeyError at run time)")
    rep.floor("C01.R10", n10, 1)

    # ---- R9: the text that is hashed is the text that was read -----------------------------------------------------
    rep.rule("C01.R9", "source text obtained with getsource reaches the analysis (body lines that are hashed) through lossless steps only "
                       "(split / join / slicing): no regex substitution, strip, replace or case folding on the way")
    LOSSY_ATTR = {"sub", "subn", "strip", "rstrip", "lstrip", "replace", "lower", "upper", "casefold", "expandtabs", "translate", "removeprefix", "removesuffix"}
    n9 = 0
    for g in list(prog.funcs.values()):
        if g.module.name not in ("dds.introspect", "dds._introspect_indirect"):
            continue
        srcs_ = [n for n in g.own_nodes() if isinstance(n, ast.Call) and unparse(n.func).split(".")[-1] in ("getsource", "getsource_class")]
        if not srcs_:
            continue
        for call in [n for n in g.own_nodes() if isinstance(n, ast.Call)]:
            fs_, _d = prog.callees(g, call, ctx._types)
            if not any(x.module.name in ("dds.introspect", "dds._introspect_indirect") and x.name.startswith(("inspect_", "_inspect")) for x in fs_):
                continue
            for a in list(call.args) + [k.value for k in call.keywords]:
                sl = ctx.slicer(follow_calls=True).slice(g, a)
                if sl.find(lambda f_, x: any(x is s_ for s_ in srcs_)) is None:
                    continue
                n9 += 1
                desc = f"`{unparse(a, 30)}` (source text handed to {unparse(call.func, 40)}) is the text returned by getsource, split into lines"
                lossy = sl.find(lambda f_, x: isinstance(x, ast.Call) and ((isinstance(x.func, ast.Attribute) and x.func.attr in LOSSY_ATTR)
                                                                        or (prog.dotted(f_, x.func) or "") in ("re.sub", "re.subn", "textwrap.shorten")))
                if lossy is None:
                    rep.ok("C01.R9", g.qname, desc, g.loc(call))
                else:
                    rep.bad("C01.R9", g.qname, desc, g.loc(call), lossy.chain() + [
                        f"{lossy.func.loc(lossy.node)}: `{unparse(lossy.node, 70)}` rewrites the source text before it is hashed: two function bodies that differ only in what "
                        "the rewrite removes (text after ' #' inside a string literal, trailing blanks inside a multi-line string) share one signature and the stale blob is served"],
                        stmt_key(call) + unparse(a, 20), what="the function source is normalised by a lossy text rewrite before hashing")
    rep.floor("C01.R9", n9, 2)

    dismiss_rule(ctx, "C01.R6")
    if ctx.report.prop == "C01":
        from .common import share_rules as _share8
        _share8(ctx, "C09", "C01.R25", ['C09.R2'], 'a path produced by a keep is registered for the loads that follow under the RETURN signature of its producer: a reader keyed on the body text of the producer only is served a stale blob when a variable or callee of the producer changes (plain execution recomputes)')


def context_extent(ctx: Ctx):
    """(method, dds_hash call, kind, function of the bound, bound expression) for every hash of the body lines taken as
    call-site context in IntroVisitor: kind = 'end' (bounded by the call's end line), 'start-only', or 'whole' (no bound)"""
    prog = ctx.prog
    iv = prog.cls("dds.introspect.IntroVisitor")
    if iv is None:
        raise AnchorError("dds.introspect.IntroVisitor not found")
    vc = iv.methods.get("visit_Call")
    if vc is None:
        raise AnchorError("IntroVisitor.visit_Call not found")

    def _has_end(fn: Func, e: Optional[ast.AST]) -> bool:
        if e is None:
            return False
        s3 = ctx.slicer(follow_calls=False).slice(fn, e)
        return s3.find(lambda f_, x: (isinstance(x, ast.Attribute) and x.attr == "end_lineno") or (isinstance(x, ast.Constant) and x.value == "end_lineno")) is not None

    out = []
    for m_ in iv.methods.values():
        for n in m_.own_nodes():
            if not (isinstance(n, ast.Call) and (prog.dotted(m_, n.func) or "").endswith("dds_hash") and n.args):
                continue
            a0 = n.args[0]
            if isinstance(a0, ast.Attribute) and "lines" in a0.attr:
                out.append((m_, n, "whole", m_, None))
                continue
            if not (isinstance(a0, ast.Subscript) and isinstance(a0.slice, ast.Slice)):
                continue
            up = a0.slice.upper
            sites: List[Tuple[Func, Optional[ast.AST]]] = []
            if m_ is vc:
                sites.append((vc, up))
            else:
                # the context is computed in a helper: the bound comes from the caller in visit_Call
                s4 = ctx.slicer(follow_calls=False).slice(m_, up) if up is not None else None
                params = [p_ for p_ in m_.params if s4 is not None and s4.has_param(m_, p_) is not None and p_ != "self"]
                from ..flow import bind_arg
                for c_ in [x for x in vc.own_nodes() if isinstance(x, ast.Call) and isinstance(x.func, ast.Attribute) and x.func.attr == m_.name]:
                    for p_ in params:
                        for a_ in bind_arg(m_, c_, p_):
                            sites.append((vc, a_))
                if not params and _has_end(m_, up):
                    sites.append((m_, up))
            for fn_, e_ in sites:
                out.append((m_, n, "end" if _has_end(fn_, e_) else "start-only", fn_, e_))
    return out


def dismiss_rule(ctx: Ctx, rule: str) -> None:
    """every `return None` of the name resolver is dominated by the outcome `name not in module.__dict__`"""
    rep = ctx.report
    prog = ctx.prog
    # ---- R6 -------------------------------------------------------------------------------
    ro = prog.func("dds._retrieve_objects.ObjectRetrieval.retrieve_object")
    if ro is None:
        raise AnchorError("dds._retrieve_objects.ObjectRetrieval.retrieve_object not found")
    cfg = cfg_of(ro)
    absent = [b for b in cfg.nodes if b.kind == "branch" and b.label == "T" and b.ast is not None and "__dict__" in unparse(b.ast) and isinstance(b.ast, ast.Compare)
              and isinstance(b.ast.ops[0], ast.NotIn)]
    absent += [b for b in cfg.nodes if b.kind == "branch" and b.label == "F" and b.ast is not None and "__dict__" in unparse(b.ast) and isinstance(b.ast, ast.Compare)
               and isinstance(b.ast.ops[0], ast.In)]
    n6 = 0
    for r in [x for x in ro.own_nodes() if isinstance(x, ast.Return) and (x.value is None or (isinstance(x.value, ast.Constant) and x.value.value is None))]:
        n6 += 1
        desc = "a name is dismissed (`return None`) only after it was not found in the module's namespace"
        w = dominated(ctx, ro, r, absent)
        if w is None:
            rep.ok(rule, ro.qname, desc, ro.loc(r))
        else:
            rep.bad(rule, ro.qname, desc, ro.loc(r), w + ["an object of an accepted module whose name is dismissed before the lookup (e.g. a name that shadows a builtin) is never tracked: "
                    "editing it leaves every signature unchanged"], stmt_key(r), what="names are dismissed without consulting the module namespace")
    rep.floor(rule, n6, 2)


def tracked_type_table(ctx: Ctx, rule: str = "C01.R4") -> None:
    rep = ctx.report
    prog = ctx.prog
    from .roles import type_classifier
    cls = type_classifier(ctx)
    outer, _h = hasher(ctx)
    tags: List[Tuple[str, type]] = []
    for names, _br, h in all_branches(ctx):
        for nm in names:
            d = prog.dotted(h, ast.parse(nm, mode="eval").body) if nm not in ("None", "<dataclass>") else None
            py = PYTYPES.get(d or nm)
            if nm == "None":
                py = type(None)
            if py is not None and (nm, py) not in tags and py.__name__ not in ("tzinfo",):
                tags.append((nm, py))
    if (("bool", bool)) not in tags and any(py is int for _, py in tags):
        tags.append(("bool", bool))  # bool is hashed by the int branch
    internal = {"CanonicalPath"}
    n = 0
    bad, und, info = [], [], []
    for nm, py in tags:
        n += 1

        def oracle(name, args, kwargs, node):
            if name.endswith("get_option"):
                return Const(True)
            if name.endswith("is_authorized_path"):
                return Const(False)
            if name.endswith("inspect.getmodule"):
                return Obj("module", [], {})
            if name.endswith("_mod_path"):
                return Obj("path", [], {})
            return NOT_HANDLED

        ev = Evaluator(prog, oracle=oracle)
        outs = ev.run(cls, [TypeV(py, py.__name__), Obj("gctx", [], {})])
        res = set()
        for o in outs:
            if o.kind == "raise":
                res.add("loud")
            elif isinstance(o.value, Const) and o.value.v is True:
                res.add("tracked")
            elif isinstance(o.value, Const) and o.value.v is False:
                res.add("silent")
            else:
                res.add("?")
        if res == {"tracked"} or res == {"loud"}:
            continue
        if "?" in res or not res:
            und.append(f"{nm}: outcomes {sorted(res)}")
        else:
            bad.append(f"{py.__module__}.{py.__name__} (hashed by the `{nm}` branch of the value hasher): classified as external -> only the variable's *name* enters the signature")
    desc = f"every plain type the value hasher supports ({[t[0] for t in tags]}) is tracked by value (or refused loudly) when it is the type of a module variable"
    if bad:
        rep.bad(rule, cls.qname, desc, cls.loc(), bad + ["changing the value of such a variable (FLAG = True -> False, a tuple, None, a date) leaves every signature unchanged: stale results are served"],
                "tracked-types", what="module variables of some hashable plain types are not tracked by value")
    elif und:
        rep.unknown(rule, cls.qname, "type classifier uses syntax outside the abstract evaluator", cls.loc(), und)
    else:
        rep.ok(rule, cls.qname, desc, cls.loc())
    rep.floor(rule, n, 8)
    # each structural option switches its own types and nothing else
    kinds = {"list": ("list", "tuple"), "dict": ("dict", "OrderedDict")}
    wrong = []
    und2 = []
    for off in ("list", "dict"):
        def oracle2(name, args, kwargs, node, _off=off):
            if name.endswith("get_option"):
                a = unparse(node.args[0]) if getattr(node, "args", None) else ""
                # the option that is read: by the text of the argument, and by its value (an `Option(...)` object bound to a
                # module-level name, reached through a loop variable in a table-driven classifier)
                if args and isinstance(args[0], Obj):
                    a += " " + " ".join(repr(x.v) for x in list(args[0].args) + list(args[0].kwargs.values()) if isinstance(x, Const) and isinstance(x.v, str) and " " not in x.v)
                if _off in a:
                    return Const(False)
                if ("list" in a) or ("dict" in a):
                    return Const(True)
                return Const(True)
            if name.endswith("is_authorized_path"):
                return Const(False)
            if name.endswith("inspect.getmodule"):
                return Obj("module", [], {})
            if name.endswith("_mod_path"):
                return Obj("path", [], {})
            return NOT_HANDLED
        for nm, py in tags:
            if py.__name__ not in ("list", "tuple", "dict", "OrderedDict"):
                continue
            outs = Evaluator(prog, oracle=oracle2).run(cls, [TypeV(py, py.__name__), Obj("gctx", [], {})])
            vals = {("tracked" if isinstance(o.value, Const) and o.value.v is True else "silent" if isinstance(o.value, Const) and o.value.v is False else "?") if o.kind != "raise" else "loud" for o in outs}
            expect_tracked = py.__name__ not in kinds[off]
            if "?" in vals or not vals:
                und2.append(f"{py.__name__} with the {off} option off: {sorted(vals)}")
            elif expect_tracked and vals != {"tracked"}:
                wrong.append(f"with only the accept-{off} option switched off, {py.__name__} variables are no longer tracked by value ({sorted(vals)}): the option of another kind of container governs them")
            elif not expect_tracked and "tracked" in vals:
                wrong.append(f"with the accept-{off} option switched off, {py.__name__} variables are still tracked")
    desc2 = "the accept-list option governs list / tuple variables and the accept-dict option dict / OrderedDict variables, independently"
    if wrong:
        rep.bad(rule, cls.qname, desc2, cls.loc(), wrong + ["a dict module variable read by a tracked function becomes a name-only dependency: changing its content serves the stale result"],
                "tracked-types-options", what="a structural option of the type classifier governs the wrong types")
    elif und2:
        rep.unknown(rule, cls.qname, "option sensitivity of the type classifier not evaluated", cls.loc(), und2)
    else:
        rep.ok(rule, cls.qname, desc2, cls.loc())


def context_covers_own_line(ctx: Ctx, rule: str) -> int:
    """Every slice of the body lines that IntroVisitor hashes as the context of a node (a call, a reference by name) reaches at least the node's own line: the upper bound
    is `<node>.lineno` / `<node>.end_lineno` plus a constant that is not negative (`lines[: lineno]` ends with the line numbered `lineno`)."""
    rep = ctx.report
    prog = ctx.prog
    iv = prog.cls("dds.introspect.IntroVisitor")
    if iv is None:
        raise AnchorError("dds.introspect.IntroVisitor not found")
    n = 0
    for m_ in iv.methods.values():
        fl = flow_of(prog, m_)
        for c in m_.own_nodes():
            if not (isinstance(c, ast.Call) and (prog.dotted(m_, c.func) or "").endswith("dds_hash") and c.args):
                continue
            a0 = c.args[0]
            if not (isinstance(a0, ast.Subscript) and isinstance(a0.slice, ast.Slice) and a0.slice.upper is not None):
                continue
            up = a0.slice.upper
            if isinstance(up, ast.Name):
                ds = fl.defs_of_use(up)
                if len(ds) == 1 and ds[0].value is not None:
                    up = ds[0].value
            # <expr mentioning lineno> (+|-) <constant>
            off: Optional[int] = None
            base = up
            if isinstance(up, ast.BinOp) and isinstance(up.op, (ast.Add, ast.Sub)) and isinstance(up.right, ast.Constant) and isinstance(up.right.value, int):
                off = up.right.value if isinstance(up.op, ast.Add) else -up.right.value
                base = up.left
            elif any(isinstance(y, ast.Attribute) and y.attr in ("lineno", "end_lineno") for y in ast.walk(up)):
                off = 0
            if off is None or not any(isinstance(y, ast.Attribute) and y.attr in ("lineno", "end_lineno") for y in ast.walk(base)) and not isinstance(base, ast.Name):
                continue
            n += 1
            desc = f"{m_.name}: the context `{unparse(a0, 50)}` includes the line of the node it describes"
            if off >= 0:
                rep.ok(rule, m_.qname, desc, m_.loc(c))
            else:
                rep.bad(rule, m_.qname, desc, m_.loc(c), [f"{m_.loc(c)}: the slice stops {-off} line(s) before the node's own line",
                        "`return apply(step, 3)` where `step` keeps a value computed from its run-time argument: editing the literal 3 -> 4 on that line re-runs the enclosing function, but the "
                        "key of the keep inside `step` is unchanged: dds returns 300 where plain execution returns 400"], stmt_key(c),
                        what="the call-site context of a reference stops before the line of the reference")
    return n
