"""
C17 - results are read back with the codec that wrote them, text and bytes verbatim.

R1  the codec reference persisted next to a blob is X.ref() of the same X that serialised the blob.
R2  the codec used to read a blob is looked up by the persisted reference only (get_codec(None, ref from metadata)).
R3  within each registry construction the references of the registered codecs are pairwise distinct.
R4  serialize_into / deserialize_from of every codec class are duals (open modes, encodings, pickle / parquet pairs).
R5  text and bytes codecs write exactly blob.encode("utf-8") / blob, in binary mode.
R6  registration keeps the two lookup tables of a registry consistent: the table used on write (type -> codec) and
    the table used on read (reference -> codec) are updated under the same condition.
"""
from __future__ import annotations

import ast
from typing import Dict, List, Optional, Set, Tuple

from ..flow import flow_of
from ..model import unparse, stmt_key, Func, Class, AnchorError, const_str, f_cls
from .common import Ctx, STORE_IFACE

PROP = "C17"
CODEC_BASES = ("dds.structures.CodecProtocol", "dds.structures.FileCodecProtocol")


def codec_classes(ctx: Ctx) -> List[Class]:
    out = []
    for b in CODEC_BASES:
        for cq in sorted(ctx.prog.subclasses(b)):
            c = ctx.prog.classes[cq]
            if c not in out:
                out.append(c)
    return out


def ref_literal(ctx: Ctx, c: Class) -> Optional[str]:
    m = ctx.prog.find_method(c.qname, "ref")
    if m is None:
        return None
    for n in m.own_nodes():
        if isinstance(n, ast.Return) and n.value is not None:
            v = n.value
            if isinstance(v, ast.Call) and v.args:
                v = v.args[0]
            s = const_str(v)
            if s is not None:
                return s
            # `return _REF` with `_REF = Ref("dbfs.x")` (or the bare string) bound once at module level
            if isinstance(v, ast.Name):
                sts = m.module.assigns.get(v.id, [])
                if len(sts) == 1:
                    v2 = getattr(sts[0], "value", None)
                    if isinstance(v2, ast.Call) and v2.args:
                        v2 = v2.args[0]
                    s = const_str(v2) if v2 is not None else None
                    if s is not None:
                        return s
            # `return Ref(self._ref)`: the reference is a class-level constant of the codec class (template-method codecs)
            if isinstance(v, ast.Attribute) and isinstance(v.value, ast.Name) and v.value.id in ("self", "cls"):
                s = class_attr_const(ctx, c, v.attr)
                if s is not None:
                    return s
    return None


def class_attr_const(ctx: Ctx, c: Class, attr: str) -> Optional[str]:
    """string constant bound to `attr` in the body of the class (or of the nearest base that binds it), or assigned once to
    `self.attr` by its constructor"""
    for cq in [c.qname] + ctx.prog.all_bases(c.qname):
        k = ctx.prog.classes.get(cq)
        if k is None:
            continue
        for st in k.node.body:
            tgt, val = None, None
            if isinstance(st, ast.Assign) and len(st.targets) == 1 and isinstance(st.targets[0], ast.Name):
                tgt, val = st.targets[0].id, st.value
            elif isinstance(st, ast.AnnAssign) and isinstance(st.target, ast.Name) and st.value is not None:
                tgt, val = st.target.id, st.value
            if tgt == attr:
                if isinstance(val, ast.Call) and len(val.args) == 1 and not val.keywords:
                    val = val.args[0]   # `_ref = ProtocolRef("local.string")`
                return const_str(val)
        init = k.methods.get("__init__")
        if init is not None:
            vals = [n.value for n in init.own_nodes() if isinstance(n, ast.Assign) and any(
                isinstance(t, ast.Attribute) and t.attr == attr and isinstance(t.value, ast.Name) and t.value.id == "self" for t in n.targets)]
            if len(vals) == 1:
                return const_str(vals[0])
            if vals:
                return None
    return None


def run(ctx: Ctx) -> None:
    rep = ctx.report
    prog = ctx.prog
    ctx.types
    rep.rule("C17.R1", "persisted ref == ref() of the variable serialize_into was called on (same reaching definitions)")
    rep.rule("C17.R2", "fetch_blob: codec = get_codec(None, ref) with ref read from the blob's metadata")
    rep.rule("C17.R3", "pairwise distinct ref() literals per registry construction")
    rep.rule("C17.R4", "dual operations in serialize_into / deserialize_from")
    rep.rule("C17.R5", "text / bytes written verbatim in binary mode")
    rep.rule("C17.R6", "registration updates type->codec and ref->codec tables under the same condition")

    # ---- R1 / R2 per store ----------------------------------------------------------------------
    n1 = n2 = 0
    for cq in sorted(prog.subclasses(STORE_IFACE)):
        c = prog.classes[cq]
        sb = c.methods.get("store_blob")
        if sb is not None:
            sers = [n for n in sb.own_nodes() if isinstance(n, ast.Call) and isinstance(n.func, ast.Attribute) and n.func.attr == "serialize_into"]
            if sers:
                n1 += 1
                # functions that can write the metadata: store_blob and the same-class / same-module helpers it calls
                fam = [sb]
                for call in [x for x in sb.own_nodes() if isinstance(x, ast.Call)]:
                    fs_, _d = prog.callees(sb, call, ctx._types)
                    for g in fs_:
                        if g.module is sb.module and g not in fam and (f_cls(g) is c or g.cls is None):
                            fam.append(g)
                refs = [(g, n) for g in fam for n in g.own_nodes() if isinstance(n, ast.Call) and isinstance(n.func, ast.Attribute) and n.func.attr == "ref" and not n.args]
                desc = "the reference written to the metadata is ref() of the codec that serialised the blob"
                wit = []
                if not refs:
                    wit.append("no <codec>.ref() call feeds the metadata")
                fl = flow_of(prog, sb)
                ser_defs = set()
                for s_ in sers:
                    sv = s_.func.value  # type: ignore
                    if isinstance(sv, ast.Name):
                        for d_ in fl.defs_of_use(sv):
                            if d_.value is not None:
                                ser_defs.add(id(d_.value))
                for g, r in refs:
                    rv = r.func.value  # type: ignore
                    sl = ctx.slicer(follow_calls=False, follow_callers=True).slice(g, rv)
                    reached = {id(x) for _, x in sl.nodes()}
                    if not (ser_defs and ser_defs & reached):
                        wit.append(f"{g.loc(r)}: `{unparse(r)}` is not taken from the codec value that serialised the blob")
                    dumped = any(isinstance(n, ast.Call) and (prog.dotted(g, n.func) or "").endswith(("json.dumps", "json.dump")) and any(x is r for x in ast.walk(n))
                                 for n in g.own_nodes())
                    if not dumped:
                        # through a local: meta = {...ref()...}; json.dumps(meta)
                        st = prog.enclosing_stmt(g.module, r)
                        tgt = st.targets[0].id if isinstance(st, ast.Assign) and isinstance(st.targets[0], ast.Name) else None
                        dumped = tgt is not None and any(isinstance(n, ast.Call) and (prog.dotted(g, n.func) or "").endswith(("json.dumps", "json.dump"))
                                                         and any(isinstance(x, ast.Name) and x.id == tgt for x in ast.walk(n)) for n in g.own_nodes())
                    if not dumped:
                        # the record is filled entry by entry: `rec = {}; rec["protocol"] = codec.ref(); ...; json.dumps(rec)`
                        st = prog.enclosing_stmt(g.module, r)
                        if isinstance(st, ast.Assign) and len(st.targets) == 1 and isinstance(st.targets[0], ast.Subscript) and isinstance(st.targets[0].value, ast.Name):
                            tgt = st.targets[0].value.id
                            dumped = any(isinstance(n, ast.Call) and (prog.dotted(g, n.func) or "").endswith(("json.dumps", "json.dump"))
                                         and any(isinstance(x, ast.Name) and x.id == tgt for x in ast.walk(n)) for n in g.own_nodes())
                    if not dumped:
                        wit.append(f"{g.loc(r)}: the ref() value does not reach json.dumps(...)")
                if wit:
                    rep.bad("C17.R1", sb.qname, desc, sb.loc(), wit, "ref-writer", what="the persisted codec reference is not the one of the codec that wrote the blob")
                else:
                    rep.ok("C17.R1", sb.qname, desc, refs[0][0].loc(refs[0][1]))
                # the reference is persisted only for a blob that this very call serialised
                from ..cfg import cfg_of
                from .common import dominated, done_nodes
                scfg = cfg_of(sb)
                ser_done = [d for s_ in sers for d in done_nodes(scfg, s_)]
                for g, r in refs:
                    if g is sb:
                        tgt: Optional[ast.AST] = r
                    else:
                        tgt = None
                        for call in [x for x in sb.own_nodes() if isinstance(x, ast.Call)]:
                            fs_, _d = prog.callees(sb, call, ctx._types)
                            if g in fs_:
                                tgt = call
                    if tgt is None:
                        continue
                    desc2 = f"`{unparse(r, 30)}` is persisted only after this call serialised the blob with that codec"
                    w = dominated(ctx, sb, tgt, ser_done)
                    if w is None:
                        rep.ok("C17.R1", sb.qname, desc2, sb.loc(tgt))
                    else:
                        rep.bad("C17.R1", sb.qname, desc2, sb.loc(tgt), ["path on which the metadata names the codec although the blob file was not written by this call "
                                "(a file already present under the key - written earlier by another codec, or left without metadata by a crash - is paired with this reference):"] + w,
                                "ref-without-write", what="metadata can name a codec that did not write the blob it describes")
        n2 += check_reader(ctx, c, "C17.R2")
    rep.floor("C17.R1", n1, 2)
    rep.floor("C17.R2", n2, 2)

    # ---- R3 registries -----------------------------------------------------------------------------
    n3 = 0
    for f in prog.funcs.values():
        for n in f.own_nodes():
            if isinstance(n, ast.Call) and prog.dotted(f, n.func) == "dds.codec.CodecRegistry":
                n3 += 1
                fl = flow_of(prog, f)
                lits: List[Tuple[str, str]] = []
                unknown = []
                for lst0 in n.args:
                    res_ = _list_literal(ctx, f, lst0, 0)
                    if res_ is None:
                        unknown.append(unparse(lst0))
                        continue
                    lf, lst = res_
                    lfl = flow_of(prog, lf)
                    for e in lst.elts:
                        cls = _class_of_expr(ctx, lf, lfl, e)
                        if cls is None:
                            unknown.append(unparse(e))
                        else:
                            r = ref_literal(ctx, cls)
                            if r is None:
                                unknown.append(cls.qname)
                            else:
                                lits.append((r, cls.qname))
                desc = f"registry built at {f.loc(n)} holds codecs with pairwise distinct references"
                dup = {r for r, _ in lits if sum(1 for x, _ in lits if x == r) > 1}
                if dup:
                    rep.bad("C17.R3", f.qname, desc, f.loc(n), [f"{r}: {[c for x, c in lits if x == r]}" for r in sorted(dup)], "dup-ref",
                            what="two registered codecs share one reference: one of them is read back with the other")
                elif unknown:
                    rep.unknown("C17.R3", f.qname, f"cannot resolve registered codecs {unknown}", f.loc(n))
                else:
                    rep.ok("C17.R3", f.qname, desc + f" ({sorted(r for r, _ in lits)})", f.loc(n))
    rep.floor("C17.R3", n3, 2)
    all_refs: Dict[str, List[str]] = {}
    for c in codec_classes(ctx):
        r = ref_literal(ctx, c)
        if r is not None:
            all_refs.setdefault(r, []).append(c.qname)
    for r, cs in sorted(all_refs.items()):
        if len(cs) > 1:
            rep.bad("C17.R3", "dds", "codec classes have distinct references", cs[0], [f"{r}: {cs}"], f"dup-class-ref:{r}", what="two codec classes return the same reference")

    n4 = codec_duals(ctx, "C17.R4", "C17.R5")
    rep.floor("C17.R4", n4, 4)

    # ---- R6 registration consistency --------------------------------------------------------------
    reg = prog.cls("dds.codec.CodecRegistry")
    if reg is None:
        raise AnchorError("dds.codec.CodecRegistry not found")
    n6 = 0
    for name, m in reg.methods.items():
        if not name.startswith("add_"):
            continue
        stores = _table_stores(ctx, reg, m, [], 0)
        tables = {t for t, _, _ in stores}
        if len(tables) == 1:
            # a registration method that files the codec in one table only: written by type and not found by reference (or the reverse)
            n6 += 1
            rep.bad("C17.R6", m.qname, f"{name}: the codec is filed both by its types and by its reference", m.loc(), [f"{m.loc()}: only `{sorted(tables)[0]}` is updated",
                    "a value written by this codec records its reference in the metadata; fetch_blob then asks the registry for that reference: PROTOCOL_NOT_FOUND for a blob that was just stored"],
                    "one-table", what=f"{name} files a codec in one of the two tables only: what it writes cannot be read back")
            continue
        if len(tables) < 2:
            continue
        n6 += 1
        by: Dict[str, Set[str]] = {}
        for t, guard, where in stores:
            by.setdefault(t, set()).add(guard)
        desc = f"{name}: the type table and the reference table are updated under the same condition"
        kinds = {t: ("unconditional" if "unconditional" in g else "only-if-absent") for t, g in by.items()}
        if len(set(kinds.values())) == 1:
            rep.ok("C17.R6", m.qname, desc + f" ({list(kinds.values())[0]})", m.loc())
        else:
            rep.bad("C17.R6", m.qname, desc, m.loc(), [f"{t}: {k}" for t, k in sorted(kinds.items())] + [
                "after registering a second codec instance under an existing reference, writes pick the new instance (by type) while reads resolve the "
                "persisted reference to the old one"], "tables", what=f"{name} updates the write-side and read-side codec tables inconsistently")
    rep.floor("C17.R6", n6, 2)
    # ... and "the same condition" means the same KEY: where a registration method tests whether the reference is taken, it files the codec's types only when it
    # is not (a codec whose reference is held by another one writes blobs that the other one reads back)
    from ..propdom import excluding_branches as _exb
    for name, m in reg.methods.items():
        if not name.startswith("add_"):
            continue
        mcfg = cfg_of(m)
        ref_calls = {unparse(x) for x in m.own_nodes() if isinstance(x, ast.Call) and isinstance(x.func, ast.Attribute) and x.func.attr == "ref" and not x.args}
        ref_tests = [x for x in m.own_nodes() if isinstance(x, ast.Compare) and len(x.ops) == 1 and isinstance(x.ops[0], (ast.In, ast.NotIn)) and unparse(x.left) in ref_calls]
        # ... and a reference that a codec holds is never given to another one: blobs written by the first codec (their metadata names the reference) would be
        # read back by the second.  Every store `<reference table>[<codec>.ref()] = <codec>` of a registration method is unreachable when the reference is taken.
        ref_stores = [x for x in m.own_nodes() if isinstance(x, ast.Subscript) and isinstance(x.ctx, ast.Store) and isinstance(x.slice, ast.Call)
                      and isinstance(x.slice.func, ast.Attribute) and x.slice.func.attr == "ref" and not x.slice.args]
        for rs in ref_stores:
            n6 += 1
            st_ = prog.enclosing_stmt(m.module, rs)
            desc = f"{name}: `{unparse(st_, 50)}` never replaces the codec that holds the reference"
            tbl_ = unparse(rs.value)
            tests_ = [x for x in ref_tests if unparse(x.comparators[0]) == tbl_]
            reach = True
            if tests_:
                def _atom0(e: ast.AST, tbl_=tbl_) -> Optional[str]:
                    if isinstance(e, ast.Compare) and len(e.ops) == 1 and isinstance(e.ops[0], (ast.In, ast.NotIn)) and unparse(e.left) in ref_calls and unparse(e.comparators[0]) == tbl_:
                        return "ref-taken" if isinstance(e.ops[0], ast.In) else "!ref-taken"
                    return None
                from ..propdom import feasible_path as _fp6
                reach = _fp6(prog, m, mcfg, mcfg.nodes_of(st_), {"ref-taken": True}, _atom0) is not None
            if not reach:
                rep.ok("C17.R6", m.qname, desc, m.loc(rs))
            else:
                rep.bad("C17.R6", m.qname, desc, m.loc(rs), [f"{m.loc(rs)}: the store is reached " + ("although" if tests_ else "and nothing asks whether") + f" `{unparse(rs.slice, 30)} in {tbl_}`",
                        "a user codec whose ref() is 'local.string', registered after a text result was kept: the metadata of that blob names 'local.string', which now designates the user's "
                        "codec - dds.load returns what that codec makes of the file, not the text (demo: /verif/findings/F46_add_codec_takes_reference.py)"],
                        "reference-taken-over", what=f"{name} hands a reference that a codec holds to another codec: earlier blobs are read back by the wrong codec")
        if not ref_tests:
            continue
        ref_tbl = unparse(ref_tests[0].comparators[0])

        def _atom(e: ast.AST) -> Optional[str]:
            if isinstance(e, ast.Compare) and len(e.ops) == 1 and isinstance(e.ops[0], (ast.In, ast.NotIn)) and unparse(e.left) in ref_calls and unparse(e.comparators[0]) == ref_tbl:
                return "ref-taken" if isinstance(e.ops[0], ast.In) else "!ref-taken"
            return None
        avoid = _exb(prog, m, mcfg, {"ref-taken": True}, _atom)
        type_stores = [x for x in m.own_nodes() if isinstance(x, ast.Subscript) and isinstance(x.ctx, ast.Store) and isinstance(x.value, ast.Attribute)
                       and isinstance(x.value.value, ast.Name) and x.value.value.id == "self" and "self." + x.value.attr != ref_tbl]
        for ts in type_stores:
            n6 += 1
            st_ = prog.enclosing_stmt(m.module, ts)
            desc = f"{name}: `{unparse(st_, 50)}` is not reached when the codec's reference is held by another codec"
            pth = mcfg.find_path([mcfg.entry], mcfg.nodes_of(st_), avoid=avoid)
            if pth is None:
                rep.ok("C17.R6", m.qname, desc, m.loc(ts))
            else:
                rep.bad("C17.R6", m.qname, desc, m.loc(ts), [f"{m.loc(ts)}: the codec is filed for its types although `{unparse(ref_tests[0], 50)}` holds: the reference keeps naming the other codec",
                        "a user file codec whose ref() is 'local.pickle' and that handles MyT: store_blob(MyT(..)) writes with it and records 'local.pickle'; fetch_blob reads the blob with "
                        "the pickle codec: UnpicklingError"], "types-without-reference", what=f"{name} files the types of a codec whose reference is held by another codec")

    # ---- R9 presence of empty results -------------------------------------------------------------------
    from . import storerules as S_
    rep.rule("C17.R9", "the local store reports a blob present whatever its size (text and bytes are stored verbatim: '' and b'' are zero-length files)")
    n9 = S_.presence_ignores_size(ctx, S_.LocalView(ctx), "C17.R9")
    rep.floor("C17.R9", n9, 2)

    # ---- R7 exact lookup by reference ---------------------------------------------------------------
    rep.rule("C17.R7", "the reference table is read with the requested reference itself as key (no derived / fallback key): a reference that is not "
                       "registered is an error, never another codec")
    ref_table = None
    for m in reg.methods.values():
        lt = _local_tables(m, None)
        for n in m.own_nodes():
            if isinstance(n, ast.Subscript) and isinstance(n.ctx, ast.Store) and isinstance(n.slice, ast.Call) \
                    and isinstance(n.slice.func, ast.Attribute) and n.slice.func.attr == "ref":
                if isinstance(n.value, ast.Attribute):
                    ref_table = n.value.attr
                elif isinstance(n.value, ast.Name) and n.value.id in lt:
                    ref_table = lt[n.value.id]
    if ref_table is None:
        raise AnchorError("role reference table (registry attribute stored under <codec>.ref()) not found")
    n7 = 0
    for m in reg.methods.values():
        fl = flow_of(prog, m)
        for n in m.own_nodes():
            key = None
            if isinstance(n, ast.Subscript) and isinstance(n.ctx, ast.Load) and isinstance(n.value, ast.Attribute) and n.value.attr == ref_table:
                key = n.slice
            elif isinstance(n, ast.Call) and isinstance(n.func, ast.Attribute) and n.func.attr in ("get", "pop") and isinstance(n.func.value, ast.Attribute) \
                    and n.func.value.attr == ref_table and n.args:
                key = n.args[0]
            if key is None:
                continue
            n7 += 1
            desc = f"`{unparse(n, 50)}` looks the codec up under the requested reference itself"
            exact = False
            if isinstance(key, ast.Name) and key.id in m.params:
                exact = all(d.kind == "param" for d in fl.root_defs(key))
            elif isinstance(key, ast.Call) and isinstance(key.func, ast.Attribute) and key.func.attr == "ref":
                exact = True
            if exact:
                rep.ok("C17.R7", m.qname, desc, m.loc(n))
            else:
                defs = [unparse(d.stmt, 70) for d in fl.root_defs(key)] if isinstance(key, ast.Name) else []
                rep.bad("C17.R7", m.qname, desc, m.loc(n), [f"{m.loc(n)}: key `{unparse(key, 50)}` is not the reference that was asked for" + (f" (defined by {defs})" if defs else ""),
                        "a blob whose metadata names an unregistered reference (a user codec absent from this process) is decoded by another codec"],
                        stmt_key(n), what="an unregistered codec reference falls back to a different codec")
    rep.floor("C17.R7", n7, 1)

    # ---- R8 registered references stay registered -----------------------------------------------------------
    rep.rule("C17.R8", "no registry method removes an entry from the reference table (pop / del / clear / a filtered copy): a blob written through a "
                       "codec stays readable after newer codecs are registered")
    n8 = 0
    for m in reg.methods.values():
        if m.name == "__init__":
            continue
        for n in m.own_nodes():
            what8 = None
            if isinstance(n, ast.Call) and isinstance(n.func, ast.Attribute) and n.func.attr in ("pop", "popitem", "clear") and isinstance(n.func.value, ast.Attribute) \
                    and n.func.value.attr == ref_table:
                what8 = f"`{unparse(n, 50)}` removes entries"
            elif isinstance(n, ast.Delete) and any(isinstance(x, ast.Attribute) and x.attr == ref_table for t_ in n.targets for x in ast.walk(t_)):
                what8 = f"`{unparse(n, 50)}` removes entries"
            elif isinstance(n, (ast.Assign, ast.AnnAssign)) and n.value is not None and any(
                    isinstance(t, ast.Attribute) and t.attr == ref_table and isinstance(t.value, ast.Name) and t.value.id == "self"
                    for t in (n.targets if isinstance(n, ast.Assign) else [n.target])):
                filt = [c for c in ast.walk(n.value) if isinstance(c, (ast.DictComp, ast.GeneratorExp, ast.ListComp)) and any(g.ifs for g in c.generators)]
                if filt and any(isinstance(x, ast.Attribute) and x.attr == ref_table for x in ast.walk(n.value)):
                    what8 = f"`{unparse(n, 70)}` keeps a filtered copy of the table"
            if what8:
                n8 += 1
                rep.bad("C17.R8", m.qname, "registered references stay registered", m.loc(n), [f"{m.loc(n)}: {what8}",
                        "write with codec X (reference in the blob's metadata), register a newer codec Y that takes over X's types, read the old blob: "
                        "'Requested protocol <X.ref>, which is not registered'"], stmt_key(n), what="registering a codec can unregister the reference of an older one")
    if n8 == 0:
        rep.ok("C17.R8", reg.qname, "registered references stay registered (no removal from the reference table)", reg.module.relpath)
    rep.rule("C17.R12", "codec_registry() hands out the process-wide registry object: every return gives the module global it (lazily) initialises - a codec registered through "
                        "`store.codec_registry()` must be the one the next store_blob consults")
    cr = prog.func("dds.codec.codec_registry")
    if cr is None:
        raise AnchorError("dds.codec.codec_registry not found")
    globs12 = {nm for x in cr.own_nodes() if isinstance(x, ast.Global) for nm in x.names} | {nm for nm in cr.module.assigns if nm.startswith("_")}
    n12 = 0
    for r in cr.own_nodes():
        if isinstance(r, ast.Return) and r.value is not None:
            n12 += 1
            desc = f"`{unparse(r, 50)}` returns the shared registry"
            if isinstance(r.value, ast.Name) and r.value.id in globs12:
                rep.ok("C17.R12", cr.qname, desc, cr.loc(r))
            else:
                rep.bad("C17.R12", cr.qname, desc, cr.loc(r), [f"{cr.loc(r)}: `{unparse(r.value, 50)}` is a registry built for this call only",
                        "a user codec registered through store.codec_registry().add_file_codec(..) lands in a throw-away registry: values of that type are written and read with the "
                        "pickle codec instead of the registered one"], stmt_key(r), what="codec_registry() returns a fresh registry: registrations are lost")
    rep.floor("C17.R12", n12, 1)
    rep.rule("C17.R11", "the types a codec announces are the types its serialize_into accepts, each announced once")
    n11 = announced_types_accepted(ctx, "C17.R11")
    rep.floor("C17.R11", n11, 2)
    rep.rule("C17.R13", "the key under which the codec of a result type is looked up names that type (its own __name__, not its metaclass's): results are written by the codec of "
                        "their own type")
    n13 = type_key_names_the_type(ctx, "C17.R13")
    rep.floor("C17.R13", n13, 1)
    from .common import kinds_not_confused
    rep.rule("C17.R14", "codec references and type names are different kinds of key (ProtocolRef / SupportedType): the read-side table is indexed by references, the write-side table by "
                        "type names (mypy): a legacy reference filed in the table of the type names is not a registered protocol, and the blobs that name it cannot be read")
    n14 = kinds_not_confused(ctx, "C17.R14", ("dds.codec", "dds.codecs.builtins", "dds.codecs.databricks", "dds.store", "dds.structures_utils"),
                             "blobs written by an older release under the reference `default.pandas_local` fail with 'Requested protocol ... is not registered' although has_blob answers True")
    rep.floor("C17.R14", n14, 3)
    from . import storerules as _S17
    rep.rule("C17.R16", "results are read back from the file the codec wrote: every deserialize_from of the local store's fetch_blob is handed the blob location, whatever the kind of codec")
    n16 = _S17.decode_reads_blob(ctx, _S17.LocalView(ctx), "C17.R16")
    rep.floor("C17.R16", n16, 1)
    if rep.prop == "C17":
        from .c09 import load_checks_presence as _lcp
        rep.rule("C17.R15", "as C09.R18: load decides that a blob is absent by asking has_blob, never by looking at the decoded value: a result that is None is read back as None")
        n15 = _lcp(ctx, "C17.R15")
        rep.floor("C17.R15", n15, 1)
    if rep.prop == "C17":
        from . import c12 as _c12
        rep.rule("C17.R10", "as C12.R1-R4: every storable result is read back equal through the object cache too (the wrapper tests fetched values against None, not for truth: a pandas frame / numpy array has no truth value; it hands the codec it was given to the wrapped store)")
        before_ = len(rep.obligations)
        _c12.run(ctx)
        for o_ in rep.obligations[before_:]:
            o_.rule = "C17.R10/" + o_.rule
        for k_ in [k_ for k_ in rep.floors if k_.startswith("C12.")]:
            rep.floors["C17.R10/" + k_] = rep.floors.pop(k_)
    if ctx.report.prop == "C17":
        from .common import share_rules as _share8
        _share8(ctx, "C06", "C17.R17", ['C06.R3'], 'whatever the kind of codec that wrote it, the blob is renamed into place before its metadata is published: a result written by a user-registered location codec is present and read back')


def type_key_names_the_type(ctx: Ctx, rule: str) -> int:
    """`SupportedTypeUtils.from_type(t)` - the key under which the codec of a result type is looked up - is built from the type's own name
    (`t.__name__` / `t.__qualname__`) on every return: the name of `t.__class__` / `type(t)` is the metaclass ('type' for every ordinary class), which
    gives all the classes of a module one key - the codec registered for one of them then writes (and reads back) the values of the others"""
    rep = ctx.report
    prog = ctx.prog
    f = prog.func("dds.structures_utils.SupportedTypeUtils.from_type")
    if f is None:
        raise AnchorError("dds.structures_utils.SupportedTypeUtils.from_type not found")
    ps = [p_ for p_ in f.positional_params() if p_ not in ("self", "cls")]
    if not ps:
        raise AnchorError("from_type has no parameter")
    t = ps[0]
    # the parameter and its plain aliases (`tpe = type(None) if t is None else t`: None as a shorthand of its type)
    names_t = {t}
    fl_ = flow_of(prog, f)
    for st_ in f.own_nodes():
        if isinstance(st_, (ast.Assign, ast.AnnAssign)) and st_.value is not None:
            tg_ = st_.targets[0] if isinstance(st_, ast.Assign) else st_.target
            v_ = st_.value
            alts = [v_.body, v_.orelse] if isinstance(v_, ast.IfExp) else [v_]
            if isinstance(tg_, ast.Name) and all((isinstance(a_, ast.Name) and a_.id == t) or unparse(a_) == "type(None)" for a_ in alts) and any(isinstance(a_, ast.Name) and a_.id == t for a_ in alts):
                names_t.add(tg_.id)
    n = 0
    for r in f.own_nodes():
        if not isinstance(r, ast.Return) or r.value is None:
            continue
        # the recursive normalisation `from_type(type(None))` is not a key
        if isinstance(r.value, ast.Call) and unparse(r.value.func).split(".")[-1] == f.name:
            continue
        n += 1
        own = [y for y in ast.walk(r.value) if isinstance(y, ast.Attribute) and y.attr in ("__name__", "__qualname__") and isinstance(y.value, ast.Name) and y.value.id in names_t]
        meta = [y for y in ast.walk(r.value) if isinstance(y, ast.Attribute) and y.attr in ("__name__", "__qualname__") and not (isinstance(y.value, ast.Name) and y.value.id in names_t)]
        desc = f"the type key `{unparse(r.value, 50)}` names the type itself"
        if own and not meta:
            rep.ok(rule, f.qname, desc, f.loc(r))
        else:
            rep.bad(rule, f.qname, desc, f.loc(r), [f"{f.loc(r)}: " + (f"`{unparse(meta[0], 40)}` is not the name of `{t}`" if meta else f"the key does not use `{t}.__name__`"),
                    "a user codec registered for Point (handled type computed with from_type) is found for every class of the module: a Vector result is written by the Point codec and read "
                    "back as a Point"], stmt_key(r), what="the codec lookup key of a type does not name the type: results are written by the codec of another type")
    return n


def codec_duals(ctx: Ctx, rule4: str, rule5: str) -> int:
    """serialize_into / deserialize_from of every codec class are duals; text and bytes are written verbatim"""
    rep = ctx.report
    prog = ctx.prog
    # ---- R4 / R5 duals ---------------------------------------------------------------------------
    n4 = 0
    for c in codec_classes(ctx):
        # the operations a codec object of this class runs (inherited template methods resolved on the class itself);
        # a class with an unimplemented hook (`raise NotImplementedError()`) is a base, not a codec
        s, d = prog.find_method(c.qname, "serialize_into"), prog.find_method(c.qname, "deserialize_from")
        if s is None or d is None or s.cls is None or s.cls.qname in CODEC_BASES or d.cls is None or d.cls.qname in CODEC_BASES:
            continue
        if any(_unimplemented(mm) for mm in c.methods.values()):
            continue
        n4 += 1
        ws, wd = _io_profile(ctx, s, c), _io_profile(ctx, d, c)
        desc = f"{c.name}: serialize_into and deserialize_from are dual"
        wit = []
        if ws["open"] or wd["open"]:
            if sorted(m.replace("w", "r") for m in ws["open"]) != sorted(wd["open"]):
                wit.append(f"open modes {ws['open']} (write) vs {wd['open']} (read)")
            for m in ws["open"] + wd["open"]:
                if "b" not in m:
                    wit.append(f"file opened in text mode {m!r}: newline translation changes '\\r\\n' / '\\r' (the value is not read back equal, the file is not verbatim)")
        if (ws["encode"] or wd["decode"]) and ws["encode"] != wd["decode"]:
            wit.append(f"encodings differ: encode{ws['encode']} vs decode{wd['decode']}")
        pairs = {"pickle.dump": "pickle.load", "to_parquet": "read_parquet", "write.parquet": "read.parquet", "write": "read"}
        for a, b in pairs.items():
            if (a in ws["ops"]) != (b in wd["ops"]):
                wit.append(f"{a} on write but {'no ' if b not in wd['ops'] else ''}{b} on read" if a in ws["ops"] else f"{b} on read without {a} on write")
        # keyword arguments of the serialisation call that drop part of the value
        for n_ in s.own_nodes():
            if isinstance(n_, ast.Call) and isinstance(n_.func, ast.Attribute) and n_.func.attr in ("to_parquet", "to_csv", "to_pickle", "to_feather", "to_json"):
                for k_ in n_.keywords:
                    if k_.arg == "index" and isinstance(k_.value, ast.Constant) and k_.value.value is False:
                        wit.append(f"{s.loc(n_)}: `{unparse(n_, 60)}` drops the index of the frame: a frame with a named / datetime / filtered index is read back with a fresh RangeIndex")
                    if k_.arg in ("columns", "usecols", "nrows"):
                        wit.append(f"{s.loc(n_)}: `{unparse(n_, 60)}` writes a projection of the frame ({k_.arg}=)")
        locs = (s.positional_params()[-1:], d.positional_params()[-1:])
        if not ws["uses_loc"] or not wd["uses_loc"]:
            wit.append("the location parameter is not the file that is opened")
        if wit:
            rep.bad(rule4, c.qname, desc, s.loc(), wit, "duals", what=f"{c.name} does not read back what it writes")
        else:
            rep.ok(rule4, c.qname, desc, s.loc())
        # R5 verbatim for the text and bytes codecs
        handled = _handled(ctx, c)
        if handled & {"str", "bytes"}:
            desc5 = f"{c.name}: the file holds exactly the value (utf-8 text / the bytes)"
            w5 = []
            written = ws["written"]
            if len(written) != 1:
                w5.append(f"{len(written)} write() calls")
            else:
                w, blob = written[0]
                if "str" in handled:
                    ok = (isinstance(w, ast.Call) and isinstance(w.func, ast.Attribute) and w.func.attr == "encode" and isinstance(w.func.value, ast.Name)
                          and w.func.value.id == blob and ws["encode"] in (["utf-8"], ["utf8"], ["UTF-8"]))
                else:
                    ok = isinstance(w, ast.Name) and w.id == blob
                if not ok:
                    w5.append(f"written expression `{unparse(w, 60)}` is not the value itself")
            if any("b" not in m for m in ws["open"]):
                w5.append("written in text mode")
            if w5:
                rep.bad(rule5, c.qname, desc5, s.loc(), w5, "verbatim", what=f"{c.name} does not store the value verbatim")
            else:
                rep.ok(rule5, c.qname, desc5, s.loc())
    return n4



def check_reader(ctx: Ctx, c: Class, rule: str) -> int:
    rep = ctx.report
    prog = ctx.prog
    n2 = 0
    fb = c.methods.get("fetch_blob")
    if fb is not None:
        des = [n for n in fb.own_nodes() if isinstance(n, ast.Call) and isinstance(n.func, ast.Attribute) and n.func.attr == "deserialize_from"]
        if des:
            n2 = 1
            fl = flow_of(prog, fb)
            desc = "the codec that deserialises is get_codec(None, <reference read from the metadata>)"
            wit = []
            for d in des:
                cv = d.func.value  # type: ignore
                if not isinstance(cv, ast.Name):
                    wit.append(f"{fb.loc(d)}: codec expression `{unparse(cv)}` not understood")
                    continue
                for df in fl.defs_of_use(cv):
                    v = df.value
                    if not (isinstance(v, ast.Call) and isinstance(v.func, ast.Attribute) and v.func.attr == "get_codec"):
                        wit.append(f"{fb.loc(df.stmt)}: codec defined by `{unparse(df.stmt, 70)}`, not by get_codec")
                        continue
                    a0 = v.args[0] if v.args else None
                    if not (isinstance(a0, ast.Constant) and a0.value is None):
                        wit.append(f"{fb.loc(v)}: get_codec is given a type ({unparse(a0)}): the read codec may be chosen by type")
                    a1 = v.args[1] if len(v.args) > 1 else None
                    sl = ctx.slicer(follow_calls=True).slice(fb, a1) if a1 is not None else None
                    from_meta = sl is not None and sl.find(lambda f_, n_: isinstance(n_, ast.Subscript) and const_str(n_.slice) == "protocol") is not None
                    if not from_meta:
                        wit.append(f"{fb.loc(v)}: reference `{unparse(a1)}` does not derive from the metadata's 'protocol' entry")
                # the way the blob is read is decided by the class of the resolved codec, not by the spelling of the reference
                guarded = False
                for a in _anc(fb, d):
                    if isinstance(a, ast.If) and any(isinstance(x, ast.Call) and unparse(x.func) == "isinstance" and x.args and isinstance(x.args[0], ast.Name)
                                                     and x.args[0].id == cv.id for x in ast.walk(a.test)):
                        guarded = True
                others = [a for a in _anc(fb, d) if isinstance(a, ast.If)]
                if others and not guarded:
                    wit.append(f"{fb.loc(d)}: the branch that decides how `{cv.id}` reads the blob is not an isinstance test of the resolved codec "
                               f"(`{unparse(others[0].test, 50)}`): aliases of a codec take the wrong branch")
            if wit:
                rep.bad(rule, fb.qname, desc, fb.loc(), wit, "ref-reader", what="the codec used to read a blob is not determined by the persisted reference alone")
            else:
                rep.ok(rule, fb.qname, desc, fb.loc(des[0]))
    return n2


def _anc(f: Func, n: ast.AST):
    cur = n
    while cur in f.module.parent:
        cur = f.module.parent[cur]
        if isinstance(cur, (ast.FunctionDef, ast.AsyncFunctionDef)):
            return
        yield cur


def _list_literal(ctx: Ctx, f: Func, e: ast.AST, depth: int):
    """(function, list / tuple literal) an expression evaluates to: the literal itself, a local bound once to one, or
    the single return value of a package function"""
    if isinstance(e, (ast.List, ast.Tuple)):
        return f, e
    if depth > 3:
        return None
    if isinstance(e, ast.Name):
        defs = flow_of(ctx.prog, f).defs_of_use(e) if cfg_of_(f).nodes_of(e) else []
        if len(defs) == 1 and defs[0].value is not None and defs[0].kind == "assign":
            return _list_literal(ctx, f, defs[0].value, depth + 1)
        return None
    if isinstance(e, ast.Call):
        if unparse(e.func) in ("list", "tuple") and len(e.args) == 1:
            return _list_literal(ctx, f, e.args[0], depth + 1)
        fs, _ = ctx.prog.callees(f, e, ctx._types)
        if len(fs) == 1:
            rets = [r for r in fs[0].own_nodes() if isinstance(r, ast.Return) and r.value is not None]
            if len(rets) == 1:
                return _list_literal(ctx, fs[0], rets[0].value, depth + 1)
    return None


def cfg_of_(f: Func):
    from ..cfg import cfg_of
    return cfg_of(f)


def _class_of_expr(ctx: Ctx, f: Func, fl, e: ast.AST) -> Optional[Class]:
    prog = ctx.prog
    if isinstance(e, ast.Call):
        d = prog.dotted(f, e.func)
        return prog.classes.get(d) if d else None
    if isinstance(e, ast.Name):
        defs = fl.defs_of_use(e)
        if len(defs) == 1 and defs[0].value is not None:
            return _class_of_expr(ctx, f, fl, defs[0].value)
    return None


def announced_types_accepted(ctx: Ctx, rule: str) -> int:
    """the types a codec announces (handled_types) are the types its serialize_into accepts (the isinstance assertion on the blob, in the method or
    in the hook it calls first), each announced once: a type announced but refused makes keep fail, a type accepted but not announced is written by
    another codec (a bytearray pickled instead of stored verbatim)"""
    rep = ctx.report
    prog = ctx.prog
    n = 0
    for c in codec_classes(ctx):
        ht = prog.find_method(c.qname, "handled_types")
        ser = prog.find_method(c.qname, "serialize_into")
        if ht is None or ser is None or ht.cls is None or ht.cls.qname in CODEC_BASES or any(_unimplemented(mm) for mm in c.methods.values()):
            continue
        ann: List[str] = []
        for x in ht.own_nodes():
            if isinstance(x, ast.Call) and isinstance(x.func, ast.Attribute) and x.func.attr == "from_type" and x.args:
                ann.append(unparse(x.args[0]))
        # assertion on the blob: in serialize_into or in the methods of the class it calls on self with the blob
        scopes = [ser]
        for call in [y for y in ser.own_nodes() if isinstance(y, ast.Call) and isinstance(y.func, ast.Attribute) and isinstance(y.func.value, ast.Name) and y.func.value.id == "self"]:
            h = prog.find_method(c.qname, call.func.attr)
            if h is not None and h not in scopes:
                scopes.append(h)
        asserted: Optional[List[str]] = None
        where = None
        for g in scopes:
            ps = g.positional_params()
            for x in g.own_nodes():
                if isinstance(x, ast.Assert) and isinstance(x.test, ast.Call) and unparse(x.test.func) == "isinstance" and len(x.test.args) == 2 \
                        and isinstance(x.test.args[0], ast.Name) and ps and x.test.args[0].id == ps[0]:
                    t = x.test.args[1]
                    asserted = [unparse(e) for e in (t.elts if isinstance(t, ast.Tuple) else [t])]
                    where = (g, x)
        if asserted is None or not ann:
            continue
        n += 1
        desc = f"{c.name}: the announced types {ann} are the asserted ones {asserted}, each once"
        wit = []
        if len(set(ann)) != len(ann):
            wit.append(f"{ht.loc()}: {sorted(x for x in set(ann) if ann.count(x) > 1)} announced twice (another type is missing)")
        if set(ann) - set(asserted):
            wit.append(f"{where[0].loc(where[1])}: {sorted(set(ann) - set(asserted))} announced but refused by the assertion: keeping such a value raises AssertionError")
        if set(asserted) - set(ann):
            wit.append(f"{ht.loc()}: {sorted(set(asserted) - set(ann))} accepted but not announced: such a value is written by the fallback (pickle) codec, the stored file is not the value verbatim")
        if wit:
            rep.bad(rule, c.qname, desc, ht.loc(), wit, "announced", what=f"{c.name} announces other types than it accepts")
        else:
            rep.ok(rule, c.qname, desc, ht.loc())
    return n


def _handled(ctx: Ctx, c: Class) -> Set[str]:
    m = c.methods.get("handled_types")
    out: Set[str] = set()
    if m is None:
        return out
    for n in m.own_nodes():
        if isinstance(n, ast.Call) and isinstance(n.func, ast.Attribute) and n.func.attr == "from_type" and n.args and isinstance(n.args[0], ast.Name):
            out.add(n.args[0].id)
    return out


def _unimplemented(m: Func) -> bool:
    body = [st for st in m.node.body if not (isinstance(st, ast.Expr) and isinstance(st.value, ast.Constant))]
    return len(body) == 1 and isinstance(body[0], ast.Raise) and "NotImplementedError" in unparse(body[0])


def _io_profile(ctx: Ctx, m: Func, c: Optional[Class] = None) -> Dict[str, list]:
    """open modes (from the effect model: helpers inlined, mode parameters bound), encodings and read / write operations of a codec method
    (of the codec class `c`: `self.hook(..)` calls are resolved on it)"""
    from ..fsmodel import StoreModel
    prog = ctx.prog
    prof: Dict[str, list] = {"open": [], "encode": [], "decode": [], "ops": [], "written": [], "uses_loc": []}
    # effects with the location parameter bound to a symbol
    sm = StoreModel.__new__(StoreModel)
    sm.prog, sm.cls, sm.types, sm.attr_defs, sm.attr_def_exprs, sm.ctor_params = prog, (c or m.cls), ctx._types, {}, {}, []
    sm.join_sites = []
    ps = m.positional_params()
    env = {p: ("sym", "BLOB") for p in ps}
    if ps:
        env[ps[-1]] = ("sym", "LOC")
    effs: list = []
    sm._walk(m.node.body, m, env, [], effs, [], 0)
    for e in effs:
        if e.kind in ("WRITE_INPLACE", "READ"):
            how = str(e.extra.get("how", ""))
            if how.startswith("open(mode="):
                prof["open"].append(how[len("open(mode='"):-2])
            if e.term == ("sym", "LOC"):
                prof["uses_loc"].append(True)
    # operations: the method and the module-level helpers it calls
    funcs = [m]
    # name of the blob in each function: the parameter that receives the blob parameter of the codec method
    blob_of: Dict[str, Optional[str]] = {m.qname: (ps[0] if len(ps) > 1 else None)}
    for g in funcs:
        for n in g.own_nodes():
            if isinstance(n, ast.Call):
                d = prog.dotted(g, n.func) or ""
                h: Optional[Func] = None
                if d in prog.funcs and prog.funcs[d].module is m.module:
                    h = prog.funcs[d]
                elif isinstance(n.func, ast.Attribute) and isinstance(n.func.value, ast.Name) and n.func.value.id == "self" and (c or m.cls) is not None:
                    h = prog.find_method((c or m.cls).qname, n.func.attr)  # type: ignore
                if h is not None and h not in funcs and len(funcs) < 8:
                    funcs.append(h)
                    hp = h.positional_params()
                    blob_of[h.qname] = None
                    for i, a in enumerate(n.args):
                        if isinstance(a, ast.Name) and a.id == blob_of.get(g.qname) and i < len(hp):
                            blob_of[h.qname] = hp[i]
    for g in funcs:
        for n in g.own_nodes():
            if not isinstance(n, ast.Call):
                continue
            d = prog.dotted(g, n.func) or ""
            if d in ("pickle.dump", "pickle.load"):
                prof["ops"].append(d)
            elif isinstance(n.func, ast.Attribute):
                a = n.func.attr
                chain = unparse(n.func, 100)
                if a in ("encode", "decode"):
                    enc = "utf-8"
                    if n.args and isinstance(n.args[0], ast.Constant):
                        enc = n.args[0].value
                    for k in n.keywords:
                        if k.arg == "encoding" and isinstance(k.value, ast.Constant):
                            enc = k.value.value
                    prof[a].append(enc)
                elif a in ("to_parquet", "read_parquet"):
                    prof["ops"].append(a)
                    prof["uses_loc"].append(True)
                elif a == "parquet":
                    prof["ops"].append("write.parquet" if ".write." in chain else "read.parquet")
                    prof["uses_loc"].append(True)
                elif a == "write" and n.args:
                    prof["ops"].append("write")
                    if blob_of.get(g.qname) is not None:
                        prof["written"].append((n.args[0], blob_of[g.qname]))
                elif a == "read":
                    prof["ops"].append("read")
    return prof


def _local_tables(m: Func, tables) -> Dict[str, str]:
    out: Dict[str, str] = {}
    for n in m.own_nodes():
        if isinstance(n, ast.Assign) and isinstance(n.value, ast.Name):
            for t in n.targets:
                if isinstance(t, ast.Attribute) and isinstance(t.value, ast.Name) and t.value.id == "self" and (tables is None or t.attr in tables):
                    out[n.value.id] = t.attr
    return out


def _dict_attrs(reg: Class) -> Tuple[str, ...]:
    """the lookup tables of the registry: the attributes its constructor binds to a dictionary (type table, reference table)"""
    init = reg.methods.get("__init__")
    out: List[str] = []
    for n in (init.own_nodes() if init is not None else []):
        if isinstance(n, (ast.Assign, ast.AnnAssign)) and n.value is not None:
            t = n.targets[0] if isinstance(n, ast.Assign) else n.target
            if isinstance(t, ast.Attribute) and isinstance(t.value, ast.Name) and t.value.id == "self":
                v = n.value
                ann = unparse(n.annotation) if isinstance(n, ast.AnnAssign) else ""
                is_dict = isinstance(v, (ast.Dict, ast.DictComp)) or (isinstance(v, ast.Call) and unparse(v.func).split(".")[-1] in ("dict", "OrderedDict")) or ann.startswith(("Dict", "dict", "typing.Dict", "OrderedDict"))
                if isinstance(v, ast.Name):
                    is_dict = is_dict or any(isinstance(x, (ast.Assign, ast.AnnAssign)) and isinstance(getattr(x, "value", None), (ast.Dict, ast.DictComp)) and any(
                        isinstance(tt, ast.Name) and tt.id == v.id for tt in (x.targets if isinstance(x, ast.Assign) else [x.target])) for x in init.own_nodes())
                if is_dict and t.attr not in out:
                    out.append(t.attr)
    return tuple(out)


def _dominated_by_table_test(m: Func, n: ast.AST, tables, consts: Optional[Dict[str, Any]] = None) -> bool:
    """the store is reached only through an outcome of a membership test on one of the tables (also the early-return form: `if key in table: return` before it)"""
    from ..cfg import cfg_of as _cfg_of
    cfg = _cfg_of(m)
    st = m.module.parent.get(n)
    while st is not None and not isinstance(st, ast.stmt):
        st = m.module.parent.get(st)
    tg = cfg.nodes_of(st) if st is not None else []
    # when a constant flag of the caller decides an `or` / `and` (short-circuit), the membership test behind it is not evaluated: the outcomes of the flag's own
    # branch node that cannot happen are left out, and so is everything they alone lead to
    impossible = [b for b in cfg.nodes if b.kind == "branch" and isinstance(b.ast, ast.Name) and consts and b.ast.id in consts and (b.label == "T") != bool(consts[b.ast.id])]
    for b in cfg.nodes:
        if b.kind == "branch" and b.ast is not None and isinstance(b.ast, ast.expr) and any(
                isinstance(x, ast.Compare) and len(x.ops) == 1 and isinstance(x.ops[0], (ast.In, ast.NotIn)) and isinstance(x.comparators[0], ast.Attribute) and x.comparators[0].attr in tables
                for x in ast.walk(b.ast)):
            if consts and cfg.find_path([cfg.entry], [b], avoid=impossible) is None:
                continue
            if tg and all(cfg.find_path([cfg.entry], [t_], avoid=[b] + impossible) is None and cfg.find_path([cfg.entry], [t_], avoid=impossible) is not None for t_ in tg) \
                    and all(cfg.dominated_by(t_, [b]) is None for t_ in tg) or (consts and tg and all(
                        cfg.find_path([cfg.entry], [t_], avoid=impossible) is not None and cfg.find_path([cfg.entry], [t_], avoid=impossible + [b]) is None for t_ in tg)):
                return True
    return False


def _truth_under(test: ast.AST, consts: Dict[str, Any]) -> Optional[bool]:
    """three-valued truth of a test when some parameters are known constants (a helper shared by two registration methods that pass a flag)"""
    if isinstance(test, ast.Name) and test.id in consts:
        return bool(consts[test.id])
    if isinstance(test, ast.Constant):
        return bool(test.value)
    if isinstance(test, ast.UnaryOp) and isinstance(test.op, ast.Not):
        v = _truth_under(test.operand, consts)
        return None if v is None else (not v)
    if isinstance(test, ast.BoolOp):
        vs = [_truth_under(v, consts) for v in test.values]
        if isinstance(test.op, ast.Or):
            return True if any(v is True for v in vs) else (False if all(v is False for v in vs) else None)
        return False if any(v is False for v in vs) else (True if all(v is True for v in vs) else None)
    return None


def _through_bool_locals(m: Func, test: ast.AST, once: Dict[str, List[ast.AST]]) -> List[ast.AST]:
    """the test and the definitions of the boolean locals it names (`ref_is_free = codec.ref() not in self._protocols`, `if ref_is_free:`)"""
    out = [test]
    for x in ast.walk(test):
        if isinstance(x, ast.Name) and isinstance(x.ctx, ast.Load):
            vs = once.get(x.id, [])
            if len(vs) == 1 and isinstance(vs[0], (ast.Compare, ast.BoolOp, ast.UnaryOp)):
                out.append(vs[0])
    return out


def _table_stores(ctx: Ctx, reg: Class, m: Func, guards: List[str], depth: int, consts: Optional[Dict[str, Any]] = None) -> List[Tuple[str, str, str]]:
    """(table attribute, 'unconditional' | 'guarded', where) for stores self.<table>[...] = codec reachable from m"""
    out: List[Tuple[str, str, str]] = []
    consts = dict(consts or {})
    # locals bound once, to a constant (the parameter bindings of an expanded helper: `takes_precedence = True`)
    _once: Dict[str, List[ast.AST]] = {}
    for st_ in m.own_nodes():
        if isinstance(st_, (ast.Assign, ast.AnnAssign)) and st_.value is not None:
            tg_ = st_.targets[0] if isinstance(st_, ast.Assign) and len(st_.targets) == 1 else (st_.target if isinstance(st_, ast.AnnAssign) else None)
            if isinstance(tg_, ast.Name):
                _once.setdefault(tg_.id, []).append(st_.value)
    for nm_, vs_ in _once.items():
        if len(vs_) == 1 and isinstance(vs_[0], ast.Constant) and nm_ not in m.params:
            consts.setdefault(nm_, vs_[0].value)
    tables = _dict_attrs(reg)
    # a local dictionary that becomes the table (`protocols = {}; ...; self._protocols = protocols`)
    local_tables = _local_tables(m, tables)
    for n in m.own_nodes():
        if isinstance(n, ast.Subscript) and isinstance(n.ctx, ast.Store) and isinstance(n.value, ast.Name) and n.value.id in local_tables:
            t = local_tables[n.value.id]
            guarded = bool(guards)
            for a in _anc(m, n):
                if isinstance(a, ast.If) and any(isinstance(x, ast.Name) and x.id == n.value.id for x in ast.walk(a.test)):
                    guarded = True
            out.append((t, "guarded" if guarded else "unconditional", m.loc(n)))
        elif isinstance(n, ast.Subscript) and isinstance(n.ctx, ast.Store) and isinstance(n.value, ast.Attribute) and n.value.attr in tables:
            t = n.value.attr
            guarded = bool(guards) or _dominated_by_table_test(m, n, tables, consts)
            for a in _anc(m, n):
                if isinstance(a, ast.If) and any(isinstance(x, ast.Attribute) and x.attr in tables for e_ in _through_bool_locals(m, a.test, _once) for x in ast.walk(e_)):
                    if _truth_under(a.test, consts) is None:   # a test decided by a constant flag of the caller guards nothing
                        guarded = True
            out.append((t, "guarded" if guarded else "unconditional", m.loc(n)))
        elif isinstance(n, ast.Call) and isinstance(n.func, ast.Attribute) and n.func.attr == "setdefault" and isinstance(n.func.value, ast.Attribute) and n.func.value.attr in tables:
            out.append((n.func.value.attr, "guarded", m.loc(n)))
        elif isinstance(n, ast.Call) and isinstance(n.func, ast.Attribute) and isinstance(n.func.value, ast.Name) and n.func.value.id == "self" and depth < 3:
            g = reg.methods.get(n.func.attr)
            if g is not None and g is not m:
                sub_guards = list(guards)
                for a in _anc(m, n):
                    if isinstance(a, ast.If) and any(isinstance(x, ast.Attribute) and x.attr in tables for e_ in _through_bool_locals(m, a.test, _once) for x in ast.walk(e_)):
                        sub_guards.append(unparse(a.test, 40))
                # constants handed to the helper (`self._register(codec, takes_precedence=True)`)
                sub_consts: Dict[str, Any] = {}
                gps = [p_ for p_ in g.positional_params() if p_ != "self"]
                for i_, a_ in enumerate(n.args):
                    if isinstance(a_, ast.Constant) and i_ < len(gps):
                        sub_consts[gps[i_]] = a_.value
                for k_ in n.keywords:
                    if k_.arg and isinstance(k_.value, ast.Constant):
                        sub_consts[k_.arg] = k_.value.value
                out += _table_stores(ctx, reg, g, sub_guards, depth + 1, sub_consts)
    return out
