"""
C14 - exactly the accepted modules are tracked.

R1  the authorisation test enumerates every non-empty prefix of the path: an index that slices sequence S inside
    `for i in range(..)` ranges over len(S) (not over another collection) and reaches the full length.
R2  prefixes are compared component-wise (join of a parts prefix / startswith(p + ".") with equality); a bare
    startswith or substring test on dotted names is a violation (package 'ab' would match 'a').
R3  registration adds exactly the module's name; nothing ever removes or replaces accepted entries.
R4  external objects carry no value (only the resolved path).
R5  both call inspectors return before any descent when the callee is unresolved or external.
R6  the authorisation of a re-exported function / class is decided on its defining module: no authorisation test of the
    importing module dominates the redirection to the defining module.
"""
from __future__ import annotations

import ast
from typing import List, Optional, Tuple

from ..cfg import cfg_of, Node
from ..flow import flow_of
from ..model import unparse, stmt_key, Func, AnchorError, f_cls
from .common import Ctx, dominated, pass_outcomes, witness_path, done_nodes
from .c11 import inspectors, descents

PROP = "C14"


def auth_function(ctx: Ctx) -> Func:
    c = ctx.prog.cls("dds._eval_ctx.EvalMainContext")
    if c is None:
        raise AnchorError("dds._eval_ctx.EvalMainContext not found")
    from .roles import accepted_attr
    _acc = accepted_attr(ctx)
    for m in c.methods.values():
        src = ast.unparse(m.node)
        if _acc in src and m.name != "__init__" and any(isinstance(n, ast.Return) for n in m.own_nodes()):
            return m
    raise AnchorError("role authorisation-test (method of EvalMainContext reading the accepted set) not found")


def _access_path(e: ast.AST) -> str:
    return unparse(e, 200)


def check_accumulate(ctx: Ctx, f: Func, rule: str) -> int:
    """`itertools.accumulate(S, lambda prefix, part: prefix + "." + part)`: every non-empty prefix of S, by construction -
    provided S is the whole sequence of parts (not a slice) and the function appends the next part after a dot"""
    rep = ctx.report
    n = 0
    for c in f.own_nodes():
        if not (isinstance(c, ast.Call) and (ctx.prog.dotted(f, c.func) or unparse(c.func)).endswith("accumulate") and len(c.args) >= 2):
            continue
        n += 1
        S, fn = c.args[0], c.args[1]
        desc = f"`{unparse(c, 60)}` enumerates every non-empty prefix of {unparse(S)}"
        wit = []
        if isinstance(S, ast.Subscript):
            wit.append(f"{f.loc(c)}: only the slice `{unparse(S)}` of the parts is accumulated")
        ok_fn = False
        if isinstance(fn, ast.Lambda) and len(fn.args.args) == 2:
            a, b = fn.args.args[0].arg, fn.args.args[1].arg
            body = fn.body
            # a + "." + b   /   ".".join((a, b))   /   f"{a}.{b}"
            txt = unparse(body, 100).replace('"', "'")
            ok_fn = txt in (f"{a} + '.' + {b}", f"'.'.join(({a}, {b}))", f"'.'.join([{a}, {b}])", f"f'{{{a}}}.{{{b}}}'")
        if not ok_fn:
            wit.append(f"{f.loc(c)}: the accumulating function `{unparse(fn, 60)}` is not `prefix + '.' + part`")
        if len(c.args) > 2 or any(k.arg == "initial" for k in c.keywords):
            wit.append(f"{f.loc(c)}: an initial value is accumulated first")
        if wit:
            rep.bad(rule, f.qname, desc, f.loc(c), wit, "prefix-accumulate", what="the prefixes compared with the accepted packages are not the dotted prefixes of the path")
        else:
            rep.ok(rule, f.qname, desc, f.loc(c))
    return n


def resolver_cache_key_complete(ctx: Ctx, rule: str) -> int:
    """The per-evaluation cache of the resolver (`cached_objects`) is keyed by the name looked up AND the whole path of the module it is looked up in: a key that keeps only a
    projection of the module path (its head - the package -, its last segment) makes two modules of one package share an entry: the name of the second one resolves to the object of
    the first, and edits of the second one's variable change no signature."""
    from ..flow import flow_of
    rep = ctx.report
    prog = ctx.prog
    n = 0
    LOSSY = ("head", "last", "tail", "stem", "name")
    for f in prog.funcs.values():
        if f.module.name != "dds._retrieve_objects":
            continue
        a = f.node.args
        ann = {x.arg: (unparse(x.annotation, 100) if x.annotation is not None else "") for x in a.posonlyargs + a.args + a.kwonlyargs}
        if not any("ModuleType" in t for t in ann.values()):
            continue  # keyed by a canonical path that already names the module
        fl = flow_of(prog, f)
        # the cache is whatever table is indexed / probed with a pair whose first component is the local path being looked up (the field may be renamed, or held in a local)
        path_params = {p_ for p_, t in ann.items() if "LocalDepPath" in t}
        keys = []

        def _is_pair_key(k_: ast.AST) -> bool:
            es_ = [k_]
            if isinstance(k_, ast.Name):
                try:
                    es_ = [d.value for d in fl.defs_of_use(k_) if d.value is not None]
                except Exception:
                    es_ = []
            return any(isinstance(e_, ast.Tuple) and e_.elts and isinstance(e_.elts[0], ast.Name) and e_.elts[0].id in path_params for e_ in es_)
        for x in f.own_nodes():
            if isinstance(x, ast.Subscript) and isinstance(x.value, (ast.Attribute, ast.Name)) and _is_pair_key(x.slice):
                keys.append(x.slice)
            elif isinstance(x, ast.Compare) and len(x.ops) == 1 and isinstance(x.ops[0], (ast.In, ast.NotIn)) and isinstance(x.comparators[0], (ast.Attribute, ast.Name)) \
                    and _is_pair_key(x.left):
                keys.append(x.left)
        seen_defs = set()
        for k in keys:
            exprs = [k]
            if isinstance(k, ast.Name):
                try:
                    exprs = [d.value for d in fl.defs_of_use(k) if d.value is not None]
                except Exception:
                    exprs = []
            for e in exprs:
                if id(e) in seen_defs or not isinstance(e, ast.Tuple):
                    continue
                seen_defs.add(id(e))
                n += 1
                desc = f"{f.name}: the cache key `{unparse(e, 60)}` holds the whole path of the module"
                whole, lossy = False, []
                for el in e.elts:
                    roots = [el]
                    if isinstance(el, ast.Name):
                        try:
                            roots = [d.value for d in fl.root_defs(el) if d.value is not None] or [el]
                        except Exception:
                            roots = [el]
                    for r_ in roots + [el]:
                        calls = [c for c in ast.walk(r_) if isinstance(c, ast.Call)]
                        mod_params = {p_ for p_, t in ann.items() if "ModuleType" in t}
                        # the path of the module: a package function applied to the module being looked into (whatever the function is called)
                        is_mod_path = any((prog.dotted(f, c.func) or unparse(c.func)).split(".")[-1] in ("_mod_path", "function_path") for c in calls) or any(
                            len(c.args) == 1 and isinstance(c.args[0], ast.Name) and c.args[0].id in mod_params and any(g_.module.name.startswith("dds") for g_ in prog.callees(f, c, ctx._types)[0])
                            for c in calls)
                        proj = [c for c in calls if isinstance(c.func, ast.Attribute) and c.func.attr in LOSSY] + [y for y in ast.walk(r_) if isinstance(y, ast.Subscript) and "parts" in unparse(y.value, 60)]
                        if is_mod_path and not proj and r_ is not el or (is_mod_path and not proj and isinstance(el, ast.Call)):
                            whole = True
                        if is_mod_path and proj or (proj and any("mod" in unparse(c, 60) for c in proj)):
                            lossy.append(unparse(r_ if r_ is not el else el, 60))
                if whole and not lossy:
                    rep.ok(rule, f.qname, desc, f.loc(e))
                else:
                    rep.bad(rule, f.qname, desc, f.loc(e), [f"{f.loc(e)}: " + (f"the module enters the key through `{lossy[0]}` only" if lossy else "no component of the key is the path of the module"),
                            "`pkg.top` and `pkg.bb.cc.leaf` - both accepted - each define SCALE: within one evaluation the second module's SCALE resolves to the first one's object; editing "
                            "the second one changes no signature and the stale result is served"], "cache-key-lossy", what="the resolver's cache confuses the modules of one package")
    return n


def check_growing_prefix(ctx: Ctx, f: Func, rule: str) -> int:
    """`acc = []`, `for part in S: acc.append(part); ... ".".join(acc) ...`: every non-empty prefix of S, by construction - provided S is the whole
    sequence of parts (not a slice), the list starts empty and the loop variable is appended once, first thing in the body, at every iteration"""
    rep = ctx.report
    n = 0
    for loop in [x for x in f.own_nodes() if isinstance(x, ast.For) and isinstance(x.target, ast.Name)]:
        part = loop.target.id
        appends = [c for st in loop.body for c in ast.walk(st) if isinstance(c, ast.Call) and isinstance(c.func, ast.Attribute) and c.func.attr == "append"
                   and isinstance(c.func.value, ast.Name) and len(c.args) == 1 and isinstance(c.args[0], ast.Name) and c.args[0].id == part]
        if not appends:
            continue
        acc = appends[0].func.value.id  # type: ignore
        joins = [c for st in loop.body for c in ast.walk(st) if isinstance(c, ast.Call) and isinstance(c.func, ast.Attribute) and c.func.attr == "join" and c.args
                 and isinstance(c.args[0], ast.Name) and c.args[0].id == acc]
        if not joins:
            continue
        n += 1
        S = loop.iter
        desc = f"`{unparse(joins[0], 50)}` over the growing list `{acc}` enumerates every non-empty prefix of {unparse(S, 40)}"
        wit = []
        if isinstance(S, ast.Subscript):
            wit.append(f"{f.loc(loop)}: only the slice `{unparse(S)}` of the parts is enumerated")
        first = loop.body[0]
        if not (isinstance(first, ast.Expr) and first.value is appends[0]):
            wit.append(f"{f.loc(appends[0])}: the part is not appended first thing at every iteration")
        others = [x for x in f.own_nodes() if isinstance(x, ast.Call) and isinstance(x.func, ast.Attribute) and isinstance(x.func.value, ast.Name) and x.func.value.id == acc
                  and x.func.attr in ("append", "extend", "insert", "pop", "remove", "clear", "reverse", "sort") and x is not appends[0]]
        stores = [x for x in f.own_nodes() if isinstance(x, (ast.Assign, ast.AnnAssign, ast.AugAssign)) and any(
            isinstance(t, ast.Name) and t.id == acc for t in (x.targets if isinstance(x, ast.Assign) else [x.target]))]
        if others or len(stores) != 1 or any(st is x for st in ast.walk(loop) for x in stores):
            wit.append(f"{f.loc(loop)}: `{acc}` is changed elsewhere than by the one append of the loop")
        else:
            v0 = stores[0].value
            empty = (isinstance(v0, ast.List) and not v0.elts) or (isinstance(v0, ast.Call) and unparse(v0.func) == "list" and not v0.args)
            if not empty:
                wit.append(f"{f.loc(stores[0])}: `{acc}` does not start empty")
        if wit:
            rep.bad(rule, f.qname, desc, f.loc(loop), wit + ["the prefixes compared with the accepted packages are not all the dotted prefixes of the module path: an object of an accepted "
                    "module is tracked by name only and its edits are not seen"], "prefix-growing", what="the prefixes compared with the accepted packages are not the dotted prefixes of the path")
        else:
            rep.ok(rule, f.qname, desc, f.loc(loop))
    return n


def check_prefix_loop(ctx: Ctx, f: Func, loop: ast.For, rule: str, required: bool) -> int:
    """index-domain lint for `for i in range(...)`: slices S[:i(+k)] inside the body must range over len(S)"""
    rep = ctx.report
    it = loop.iter
    if not (isinstance(it, ast.Call) and unparse(it.func) == "range" and isinstance(loop.target, ast.Name)):
        return 0
    i = loop.target.id
    # range(b) / range(a, b)
    lo: Optional[ast.AST] = None
    hi = it.args[0] if len(it.args) == 1 else (it.args[1] if len(it.args) >= 2 else None)
    if len(it.args) >= 2:
        lo = it.args[0]
    n = 0
    for node in ast.walk(loop):
        if isinstance(node, ast.Subscript) and isinstance(node.slice, ast.Slice) and node.slice.lower is None and node.slice.upper is not None:
            up = node.slice.upper
            k = None
            if isinstance(up, ast.Name) and up.id == i:
                k = 0
            elif isinstance(up, ast.BinOp) and isinstance(up.op, ast.Add) and isinstance(up.left, ast.Name) and up.left.id == i and isinstance(up.right, ast.Constant):
                k = up.right.value
            if k is None:
                continue
            n += 1
            S = _access_path(node.value)
            desc = f"`{unparse(node, 50)}` enumerates every non-empty prefix of {S}"
            where = f.loc(loop)
            # hi must be len(S) + c
            base, c = hi, 0
            if isinstance(hi, ast.BinOp) and isinstance(hi.op, (ast.Add, ast.Sub)) and isinstance(hi.right, ast.Constant):
                base, c = hi.left, (hi.right.value if isinstance(hi.op, ast.Add) else -hi.right.value)
            if not (isinstance(base, ast.Call) and unparse(base.func) == "len" and base.args):
                rep.unknown(rule, f.qname, f"range bound `{unparse(hi)}` not understood", where)
                continue
            T = _access_path(base.args[0])
            if T != S:
                rep.bad(rule, f.qname, desc, where,
                        [f"{where}: the index ranges over len({T}) but slices {S}",
                         f"counterexample: with one accepted package only the empty prefix is tried (nothing is authorised); a module nested deeper than "
                         f"len({T}) is never matched"], "prefix-domain", what=f"prefix index ranges over {T} instead of the path")
                continue
            max_prefix = c - 1 + k  # relative to len(S)
            if max_prefix < 0:
                rep.bad(rule, f.qname, desc, where, [f"{where}: largest prefix tried has length len({S}){max_prefix:+d}: the full path / longest package name is never tested"],
                        "prefix-short", what="the longest prefix of the path is never compared")
            elif max_prefix > 0:
                rep.ok(rule, f.qname, desc + " (and beyond: harmless)", where)
            else:
                rep.ok(rule, f.qname, desc, where)
    return n


def run(ctx: Ctx) -> None:
    rep = ctx.report
    prog = ctx.prog
    ctx.types
    rep.rule("C14.R1", "index used to slice S in `for i in range(f(len(T)))` requires T == S and max slice bound == len(S)")
    rep.rule("C14.R2", "membership operand is a join of a parts prefix; no bare startswith / substring on dotted names")
    rep.rule("C14.R3", "accept_module adds module.__name__ / the string; the accepted set has no other writer and no remover")
    rep.rule("C14.R4", "ExternalObject has no field but the resolved path")
    rep.rule("C14.R5", "descents dominated by the 'resolved and authorised' outcome")
    rep.rule("C14.R6", "no authorisation test on the importing module dominates the redirection to the defining module")
    auth = auth_function(ctx)

    # ---- R1 -------------------------------------------------------------------------------
    n1 = 0
    for n in auth.own_nodes():
        if isinstance(n, ast.For):
            n1 += check_prefix_loop(ctx, auth, n, "C14.R1", True)
    if n1 == 0:
        # other recognised idiom: any(".".join(parts[:i]) in accepted for i in range(1, len(parts)+1))
        for n in auth.own_nodes():
            if isinstance(n, (ast.GeneratorExp, ast.ListComp)):
                for g in n.generators:
                    fake = ast.For(target=g.target, iter=g.iter, body=[ast.Expr(value=n.elt)], orelse=[], lineno=getattr(n, "lineno", 0), col_offset=0)
                    n1 += check_prefix_loop(ctx, auth, fake, "C14.R1", True)
    if n1 == 0:
        # the enumeration lives in a helper (a generator of the prefixes) that the test iterates over
        for call in [n for n in auth.own_nodes() if isinstance(n, ast.Call)]:
            fs_, _ = prog.callees(auth, call, ctx._types)
            for g_ in fs_:
                if g_ is auth or not g_.module.name.startswith("dds"):
                    continue
                for n in g_.own_nodes():
                    if isinstance(n, ast.For):
                        n1 += check_prefix_loop(ctx, g_, n, "C14.R1", True)
                    elif isinstance(n, (ast.GeneratorExp, ast.ListComp)):
                        for g in n.generators:
                            fake = ast.For(target=g.target, iter=g.iter, body=[ast.Expr(value=n.elt)], orelse=[], lineno=getattr(n, "lineno", 0), col_offset=0)
                            n1 += check_prefix_loop(ctx, g_, fake, "C14.R1", True)
    if n1 == 0:
        n1 += check_accumulate(ctx, auth, "C14.R1")
    if n1 == 0:
        n1 += check_growing_prefix(ctx, auth, "C14.R1")
    if n1 == 0:
        rep.unknown("C14.R1", auth.qname, "prefix enumeration idiom not recognised in the authorisation test", auth.loc())
    if ctx.tier == "thorough":
        for f in prog.funcs.values():
            if f is auth:
                continue
            for n in f.own_nodes():
                if isinstance(n, ast.For):
                    check_prefix_loop(ctx, f, n, "C14.R1", False)
    rep.floor("C14.R1", n1, 1)

    # ---- R2 -------------------------------------------------------------------------------
    acc_mod = prog.module("dds.introspect")
    accept = acc_mod.funcs.get("accept_module")
    if accept is None:
        raise AnchorError("dds.introspect.accept_module not found")
    n2 = 0
    for f in (auth, accept):
        for n in f.own_nodes():
            if isinstance(n, ast.Call) and isinstance(n.func, ast.Attribute) and n.func.attr in ("startswith", "endswith", "find", "index"):
                n2 += 1
                arg = n.args[0] if n.args else None
                sep_ok = arg is not None and any(isinstance(x, ast.Constant) and x.value == "." for x in ast.walk(arg))
                desc = f"`{unparse(n, 60)}` compares package names component-wise"
                if sep_ok:
                    rep.ok("C14.R2", f.qname, desc, f.loc(n))
                else:
                    rep.bad("C14.R2", f.qname, desc, f.loc(n), [f"{f.loc(n)}: a raw string prefix: package 'proj.etl' matches 'proj.etl_legacy', 'a' matches 'ab'"],
                            stmt_key(n), what="package names compared by raw string prefix")
            if isinstance(n, ast.Compare) and any(isinstance(o, (ast.In, ast.NotIn)) for o in n.ops) and f is auth:
                n2 += 1
                left = n.left
                desc = f"`{unparse(n, 60)}` tests a whole dotted prefix for membership in the accepted set"
                is_join = isinstance(left, ast.Call) and isinstance(left.func, ast.Attribute) and left.func.attr == "join" and isinstance(left.func.value, ast.Constant) and left.func.value.value == "."
                if is_join or isinstance(left, ast.Name):
                    rep.ok("C14.R2", f.qname, desc, f.loc(n))
                else:
                    rep.unknown("C14.R2", f.qname, f"membership operand `{unparse(left, 40)}` not understood", f.loc(n))
    rep.floor("C14.R2", n2, 1)

    # ---- R3 -------------------------------------------------------------------------------
    gname = None
    for name, sts in acc_mod.assigns.items():
        for st in sts:
            if isinstance(st, ast.AnnAssign) and "Package" in unparse(st.annotation) and "Set" in unparse(st.annotation):
                gname = name
    if gname is None:
        gname = "_accepted_packages" if "_accepted_packages" in acc_mod.assigns else None
    if gname is None:
        raise AnchorError("role accepted-set (module-level Set[Package] in dds.introspect) not found")
    writers: List[Tuple[Func, ast.AST, str]] = []
    for f in prog.funcs.values():
        for n in f.own_nodes():
            if isinstance(n, ast.Call) and isinstance(n.func, ast.Attribute) and isinstance(n.func.value, ast.Name) and n.func.value.id == gname:
                d = prog.resolve_name(f, gname)
                if d == f"{acc_mod.name}.{gname}" or f.module is acc_mod:
                    if n.func.attr not in ("copy", "__contains__", "issubset", "issuperset", "union", "intersection"):
                        writers.append((f, n, n.func.attr))
            if isinstance(n, (ast.Assign, ast.AugAssign)) and f.module is acc_mod:
                ts = n.targets if isinstance(n, ast.Assign) else [n.target]
                if any(isinstance(t, ast.Name) and t.id == gname for t in ts) and any(isinstance(g, ast.Global) and gname in g.names for g in f.own_nodes()):
                    writers.append((f, n, "assign"))
    bad_w = [(f, n, k) for (f, n, k) in writers if not (f is accept and k == "add")]
    if bad_w:
        rep.bad("C14.R3", acc_mod.name, "the accepted set only ever grows, by accept_module", bad_w[0][0].loc(bad_w[0][1]),
                [f"{f.loc(n)}: `{unparse(n, 70)}` ({k}) in {f.qname}" for f, n, k in bad_w] + ["an accepted module can silently stop being tracked: its edits no longer change signatures"],
                "acc-writers", what="accepted modules can be removed or replaced")
    else:
        rep.ok("C14.R3", acc_mod.name, f"{gname} is only written by accept_module(...).add", accept.loc())
    adds = [(f, n) for (f, n, k) in writers if f is accept and k == "add"]
    fl = flow_of(prog, accept)
    for f, n in adds:
        arg = n.args[0] if n.args else None
        inner = arg.args[0] if isinstance(arg, ast.Call) and arg.args else arg
        desc = "accept_module registers exactly the given name / module.__name__"
        def _names_module(e_: Optional[ast.AST], depth: int = 0) -> bool:
            """the given name itself or `<the given module>.__name__` (possibly chosen by a test, possibly through a local)"""
            if e_ is None or depth > 3:
                return False
            if isinstance(e_, ast.Attribute) and e_.attr == "__name__":
                return isinstance(e_.value, ast.Name) and _names_module(e_.value, depth + 1)
            if isinstance(e_, ast.IfExp):
                return _names_module(e_.body, depth + 1) and _names_module(e_.orelse, depth + 1)
            if isinstance(e_, ast.Name):
                try:
                    ds_ = fl.defs_of_use(e_)
                except Exception:
                    return e_.id in accept.params
                return bool(ds_) and all(d.kind == "param" or _names_module(d.value, depth + 1) for d in ds_)
            return False
        ok = False
        if isinstance(inner, ast.Name):
            ok = _names_module(inner)
        cond = [a for a in f.module.parent and _ancestors_if(f, n)]
        if ok and not cond:
            rep.ok("C14.R3", accept.qname, desc, accept.loc(n))
        elif ok and cond:
            rep.bad("C14.R3", accept.qname, "every accept_module call registers its module", accept.loc(n),
                    [f"{accept.loc(cond[0])}: registration is conditional on `{unparse(cond[0].test, 60)}`"], "acc-conditional", what="accept_module may skip the registration")
        else:
            rep.bad("C14.R3", accept.qname, desc, accept.loc(n), [f"registered value `{unparse(arg, 60)}`"], "acc-value", what="accept_module registers something else than the module's name")
    rep.floor("C14.R3", len(adds), 1)

    # ---- R4 -------------------------------------------------------------------------------
    ext = prog.cls("dds._eval_ctx.ExternalObject")
    if ext is None:
        raise AnchorError("dds._eval_ctx.ExternalObject not found")
    fields = [st.target.id for st in ext.node.body if isinstance(st, ast.AnnAssign) and isinstance(st.target, ast.Name)]
    if fields == ["resolved_path"] or (len(fields) == 1 and "path" in fields[0]):
        rep.ok("C14.R4", ext.qname, "an external object carries its resolved path and nothing else", ext.module.relpath, nontrivial=False)
    else:
        rep.bad("C14.R4", ext.qname, "an external object carries its resolved path and nothing else", ext.module.relpath, [f"fields: {fields}"], "ext-fields",
                what="external objects carry a value that can leak into signatures")
    # wherever a dependency record is built: a value signature is never given on a path where the resolver's answer
    # was found to be an ExternalObject, and such a path does build a name-only record
    n_name_only = 0
    for m in prog.funcs.values():
        if m.module.name != "dds.introspect":
            continue
        cons = [n for n in m.own_nodes() if isinstance(n, ast.Call) and unparse(n.func).split(".")[-1] == "ExternalDep"]
        if not cons:
            continue
        cfg = cfg_of(m)
        tb = [x for x in cfg.nodes if x.kind == "branch" and x.label == "T" and isinstance(x.ast, ast.Call) and unparse(x.ast.func) == "isinstance"
              and len(x.ast.args) == 2 and unparse(x.ast.args[1]).split(".")[-1] == "ExternalObject"]
        for c in cons:
            sig = [k.value for k in c.keywords if k.arg == "sig"] or (list(c.args[2:3]))
            name_only = bool(sig) and isinstance(sig[0], ast.Constant) and sig[0].value is None
            if name_only:
                if tb and dominated(ctx, m, c, tb) is None:
                    n_name_only += 1
                    rep.ok("C14.R4", m.qname, "an external variable enters the signature by name only (sig=None)", m.loc(c))
                continue
            reach = None
            for t in tb:
                for cn in cfg.nodes_of(c):
                    p_ = cfg.find_path([t], [cn])
                    if p_ is not None:
                        reach = p_
            if reach is not None:
                from .common import witness_path
                rep.bad("C14.R4", m.qname, "an external variable enters the signature by name only (sig=None)", m.loc(c),
                        ["a dependency record with a value signature is built after the object was found to be external:"] + witness_path(cfg, m, reach),
                        "ext-sig", what="the value of a variable from a non-accepted module is hashed into signatures")
    if n_name_only == 0:
        vis = prog.cls("dds.introspect.ExternalVarsVisitor")
        where = vis.methods["visit_Name"] if vis is not None and "visit_Name" in vis.methods else None
        rep.bad("C14.R4", where.qname if where else "dds.introspect", "an external variable enters the signature by name only (sig=None)",
                where.loc() if where else "dds/introspect.py", ["no ExternalDep(sig=None) is built under `isinstance(.., ExternalObject)`"],
                "ext-sig", what="the value of a variable from a non-accepted module is hashed into signatures")

    # ---- R5 -------------------------------------------------------------------------------
    n5 = 0
    from .c11 import families
    for fam in families(ctx):
        f = fam.holder
        cfg = cfg_of(f)
        outs: List[Node] = []
        for r in [x for x in f.own_nodes() if isinstance(x, ast.Return) and (x.value is None or (isinstance(x.value, ast.Constant) and x.value.value is None))]:
            o, atoms = pass_outcomes(cfg, f.module, r)
            if any("ExternalObject" in unparse(a) for a in atoms):
                outs += o
        sites = [(f, c) for c in descents(ctx, f)]
        # handler methods are entered through the dispatch call of the holder only
        for hq, (hm, kp) in fam.handlers.items():
            for c in descents(ctx, hm):
                for dc in fam.entry_calls.get(hq, fam.dispatch_calls):
                    sites.append((hm, c, dc))  # type: ignore
        for site_ in sites:
            n5 += 1
            g, call = site_[0], site_[1]
            anchor = site_[2] if len(site_) > 2 else call
            desc = f"descent `{unparse(call, 50)}` happens only for a resolved, authorised callee"
            w = dominated(ctx, f, anchor, outs)
            if w is None:
                rep.ok("C14.R5", g.qname, desc, g.loc(call))
            else:
                rep.bad("C14.R5", g.qname, desc, g.loc(call), w, stmt_key(call), what="the analysis can descend into code of a non-accepted module")
    rep.floor("C14.R5", n5, 4)

    # ---- R6 -------------------------------------------------------------------------------
    from .roles import resolver_rec as _resolver_rec
    rec = _resolver_rec(ctx)
    if rec is None:
        raise AnchorError("dds._retrieve_objects.ObjectRetrieval._retrieve_object_rec not found")
    cfg = cfg_of(rec)
    fl = flow_of(prog, rec)
    redirects = []
    for n in rec.own_nodes():
        if isinstance(n, ast.Call) and isinstance(n.func, ast.Attribute) and n.func.attr == rec.name and len(n.args) >= 2 and isinstance(n.args[1], ast.Name):
            defs = fl.defs_of_use(n.args[1])
            if any(d.value is not None and isinstance(d.value, ast.Call) and (prog.dotted(rec, d.value.func) or "").endswith("inspect.getmodule") for d in defs):
                redirects.append(n)
    n6 = 0
    for r in redirects:
        n6 += 1
        desc = "the redirection to the defining module is not preceded by an authorisation test of the importing module"
        bad = None
        for t in cfg.nodes:
            if t.kind == "branch" and t.ast is not None and "is_authorized_path" in unparse(t.ast):
                for rn in cfg.nodes_of(r):
                    if cfg.dominated_by(rn, [t]) is None:
                        bad = t
        if bad is None:
            rep.ok("C14.R6", rec.qname, desc, rec.loc(r))
        else:
            rep.bad("C14.R6", rec.qname, desc, rec.loc(r),
                    [f"{rec.loc(bad.ast)}: `{unparse(bad.ast, 60)}` [{bad.label}] dominates the redirection at {rec.loc(r)}",
                     "an accepted function re-exported by a non-accepted package (import pkg; pkg.f()) is classified by the facade: it becomes external and its edits are never seen"],
                    stmt_key(r), what="authorisation is decided on the importing module instead of the defining one")
    rep.floor("C14.R6", n6, 1)

    # ---- R9: acceptance is decided on the final path, not on a package passed through on the way ----------------------
    rep.rule("C14.R9", "while walking a dotted name the resolver never answers 'external' because a MODULE met on the way is not accepted: an accepted "
                       "module may sit below non-accepted parents (only `proj.core.etl` accepted, reached as proj.core.etl.step())")
    rec9 = _resolver_rec(ctx)
    if rec9 is None:
        raise AnchorError("dds._retrieve_objects.ObjectRetrieval._retrieve_object_rec not found")
    cfg9 = cfg_of(rec9)
    mod_T = [b for b in cfg9.nodes if b.kind == "branch" and b.label == "T" and isinstance(b.ast, ast.Call) and unparse(b.ast.func) == "isinstance"
             and len(b.ast.args) == 2 and unparse(b.ast.args[1]).split(".")[-1] == "ModuleType"]
    n9 = 0
    for r in [x for x in rec9.own_nodes() if isinstance(x, ast.Return) and isinstance(x.value, ast.Call) and unparse(x.value.func).endswith("ExternalObject")]:
        n9 += 1
        desc = "`return ExternalObject(..)` is not decided on an intermediate module of the dotted name"
        under = mod_T and dominated(ctx, rec9, r, mod_T) is None
        if under:
            rep.bad("C14.R9", rec9.qname, desc, rec9.loc(r), [f"{rec9.loc(r)}: `{unparse(r, 70)}` is reached only when the object found at this level is a module (more of the name remains)",
                    "with only `proj.core.etl` accepted, `import proj.core.etl; proj.core.etl.step()` is dropped at `proj`: step is never introspected and editing it leaves "
                    "the caller's signature unchanged (a stale blob is served)"], stmt_key(r), what="a non-accepted parent package hides the accepted modules below it")
        else:
            rep.ok("C14.R9", rec9.qname, desc, rec9.loc(r))
    rep.floor("C14.R9", n9, 3)

    # ---- R10 / R11 ------------------------------------------------------------------------------------------------------
    from .common import no_missing_return
    rep.rule("C14.R10", "the resolver and the inspectors never fall off their end where a resolution is expected (mypy: no `Missing return statement`): a "
                        "name that was resolved must be returned, not dropped")
    n10 = no_missing_return(ctx, "C14.R10", ("dds._retrieve_objects", "dds.introspect", "dds._introspect_indirect", "dds._eval_ctx"),
                            "an accepted function reached through this path is answered None: it is silently untracked, and editing it leaves every signature unchanged")
    rep.floor("C14.R10", n10, 3)
    rep.rule("C14.R11", "collectors accumulate: the set / list / dict a function returns is never re-assigned inside the loop that fills it")
    n11 = accumulators_not_overwritten(ctx, "C14.R11", ("dds.introspect", "dds._introspect_indirect", "dds._retrieve_objects"))
    rep.floor("C14.R11", n11, 1)
    from .common import kinds_not_confused
    rep.rule("C14.R12", "the analysis does not confuse a name as written in a function with the canonical path of the object it resolves to (mypy: no argument / "
                        "assignment of another kind than declared): the per-evaluation memo of variable hashes is keyed by the canonical path, so that the variables "
                        "of two accepted modules that share a local name are hashed separately")
    n12 = kinds_not_confused(ctx, "C14.R12", ("dds.introspect", "dds._introspect_indirect", "dds._retrieve_objects", "dds._eval_ctx"),
                             "two accepted modules that both read a variable named alike (LIMIT): the second one reuses the hash of the first, editing it changes no signature and the stale result is served")
    rep.floor("C14.R12", n12, 3)
    # ---- R14: a kept function the analysis did not register is not evaluated untracked ----
    from .common import find_api_functions, user_calls, dominated as _dom14
    rep.rule("C14.R14", "inside an evaluation, a keep / data function whose path the analysis did not register (it lives in a module that is not accepted) is refused: the "
                        "lookup of its signature in the evaluation's path map fails (subscript), or a lookup that can answer None is followed by a refusal before the user's function runs")
    _top14, nested14 = find_api_functions(ctx)
    from .roles import path_map_field as _pmf_role
    _pmf14 = _pmf_role(ctx)
    n14 = 0
    ncfg = cfg_of(nested14)
    for x in nested14.own_nodes():
        if isinstance(x, ast.Attribute) and x.attr == _pmf14 and isinstance(x.ctx, ast.Load):
            par = nested14.module.parent.get(x)
            if isinstance(par, ast.Subscript) and par.value is x and isinstance(par.ctx, ast.Load):
                n14 += 1
                rep.ok("C14.R14", nested14.qname, f"`{unparse(par, 50)}` fails for a path the analysis did not register", nested14.loc(par))
            elif isinstance(par, ast.Attribute) and par.attr == "get":
                n14 += 1
                call = nested14.module.parent.get(par)
                asg = nested14.module.parent.get(call)
                while asg is not None and not isinstance(asg, (ast.Assign, ast.AnnAssign, ast.FunctionDef)):
                    asg = nested14.module.parent.get(asg)
                var = None
                if isinstance(asg, ast.Assign) and isinstance(asg.targets[0], ast.Name):
                    var = asg.targets[0].id
                guards = [b for b in ncfg.nodes if b.kind == "branch" and isinstance(b.ast, ast.Compare) and isinstance(b.ast.left, ast.Name) and b.ast.left.id == var
                          and isinstance(b.ast.comparators[0], ast.Constant) and b.ast.comparators[0].value is None
                          and ((isinstance(b.ast.ops[0], ast.IsNot) and b.label == "T") or (isinstance(b.ast.ops[0], ast.Is) and b.label == "F"))]
                # `key = None if path is None else ...get(path)`: only the paths with a path matter; approximated by requiring the guard for the user call
                bad14 = None
                for uc in user_calls(nested14):
                    w = _dom14(ctx, nested14, uc, guards) if guards else [f"{nested14.loc(uc)}: no test of `{var}` against None precedes the call of the user's function"]
                    if w is not None:
                        bad14 = (uc, w)
                desc = f"`{unparse(call, 50)}` can answer None: the user's function is called only after `{var} is not None` held"
                if bad14 is None:
                    rep.ok("C14.R14", nested14.qname, desc, nested14.loc(call))
                else:
                    rep.bad("C14.R14", nested14.qname, desc, nested14.loc(call), bad14[1] + ["a data function of a module that is not accepted, called from an accepted pipeline, is run untracked: "
                            "nothing is stored for it and the pipeline's signature ignores its code (no error names the module)"], "untracked-nested",
                            what="a nested keep that the analysis did not register is evaluated untracked instead of refused")
    rep.floor("C14.R14", n14, 1)
    if rep.prop == "C14":
        rep.rule("C14.R17", "every reachable tracked variable of an accepted module influences the signature, however it is referred to: the variable visitor handles attribute "
                            "references (a variable read through its module)")
        attribute_refs_tracked(ctx, "C14.R17")
        rep.rule("C14.R18", "every reachable function of an accepted module influences the signature: the class inspectors follow the base classes")
        n18 = base_classes_tracked(ctx, "C14.R18")
        rep.floor("C14.R18", n18, 1)
    if rep.prop == "C14":
        from .c13 import pair_keys_rule as _pkr
        rep.rule("C14.R19", "as C13.R8: every tracked variable of an accepted module has an entry of its own in the signature (the key of the entry is built from the variable's name): "
                            "two variables that swap their values change the signature")
        n19 = _pkr(ctx, "C14.R19")
        rep.floor("C14.R19", n19, 3)
    rep.rule("C14.R20", "exactly the accepted modules are tracked, also those accepted while the evaluation runs: the analysis context holds the live set of accepted packages")
    n20 = accepted_set_is_live(ctx, "C14.R20")
    rep.floor("C14.R20", n20, 2)
    rep.rule("C14.R21", "however deeply a module is nested, its canonical path has one segment per component of its dotted name (so that every accepted ancestor is a prefix)")
    n21 = module_path_complete(ctx, "C14.R21")
    rep.floor("C14.R21", n21, 1)
    from .common import refusal_live
    rep.rule("C14.R15", "a callable of a non-accepted module handed to dds.keep / dds.eval is refused whether it is a function or a class: in both entry functions of the analysis "
                        "the resolution of the call tree's paths (the step that raises 'module not accepted') is live code")
    n15 = refusal_live(ctx, "C14.R15", "dds.keep('/model', Model) with the class Model defined in a module that was never accepted is introspected, evaluated and committed (its source is "
                                       "hashed into the signature: edits of a non-accepted module move a signature) where a function of the same module is refused")
    rep.floor("C14.R15", n15, 3)
    from .c02 import exempt_rule
    rep.rule("C14.R16", "as C02.R1(ext_dep): the objects of non-accepted modules that an accepted function uses are recorded by the canonical path the name is bound to - exactly the "
                        "dependencies without a value signature reach the `ext_dep_` entries: re-pointing an import of the accepted module (`from ext.v1 import scale` -> `ext.v2`) "
                        "changes the signature, the content of the external object does not")
    exempt_rule(ctx, "C14.R16", sites_only=True)
    from .c01 import tracked_type_table
    rep.rule("C14.R13", "as C01.R4: every plain type the value hasher supports is tracked by value when it is the type of a variable of an accepted module, and each "
                        "structural option (accept_list / accept_dict) governs its own types only")
    tracked_type_table(ctx, "C14.R13")

    # ---- R7 / R8: the boundary is decided from the accepted set and the program alone -----------------------------
    from .c02 import process_reads, RESOLVER_MODULES
    from .c03 import global_cache_rule
    rep.rule("C14.R7", "as C02.R1(process reads): interpreter state (which modules happen to be loaded, ...) read by the resolver stays inside lookups: "
                       "whether a reachable name of an accepted module resolves must not depend on it")
    n7 = process_reads(ctx, "C14.R7", RESOLVER_MODULES)
    rep.floor("C14.R7", n7, 1)
    rep.rule("C14.R8", "as C03.R3(i): no process-wide cache of resolutions / authorisation answers is written and served to later evaluations "
                       "(the accepted set can change between two evaluations of one process)")
    global_cache_rule(ctx, "C14.R8")
    from .common import public_aliases_call as _pac
    rep.rule("C14.R22", "every public spelling of `accept_module` (the deprecated `whitelist_module` included) CALLS the internal function: a package accepted through an alias is accepted")
    rep.floor("C14.R22", _pac(ctx, "C14.R22"), 4)
    rep.rule("C14.R23", "the resolver's cache is keyed by the name and the WHOLE module path: two accepted modules of one package never share an entry")
    rep.floor("C14.R23", resolver_cache_key_complete(ctx, "C14.R23"), 1)


def accumulators_not_overwritten(ctx: Ctx, rule: str, modules) -> int:
    """A function that returns a container it fills in a loop never re-binds that container inside the loop to a value that
    does not contain it (`res = f(x)` for `res.update(f(x))`): the elements collected so far - typically the function's own
    entry, added before the loop - would be lost."""
    rep = ctx.report
    n = 0
    for f in ctx.prog.funcs.values():
        if f.module.name not in modules:
            continue
        rets = {r.value.id for r in f.own_nodes() if isinstance(r, ast.Return) and isinstance(r.value, ast.Name)}
        if not rets:
            continue
        for loop in [x for x in f.own_nodes() if isinstance(x, (ast.For, ast.While))]:
            for acc in rets:
                fills = [y for y in ast.walk(loop) if isinstance(y, ast.Call) and isinstance(y.func, ast.Attribute) and y.func.attr in ("update", "add", "append", "extend")
                         and isinstance(y.func.value, ast.Name) and y.func.value.id == acc]
                inits = [st for st in f.own_nodes() if isinstance(st, (ast.Assign, ast.AnnAssign)) and st.lineno < loop.lineno
                         and any(isinstance(t, ast.Name) and t.id == acc for t in (st.targets if isinstance(st, ast.Assign) else [st.target]))]
                over = [st for st in ast.walk(loop) if isinstance(st, ast.Assign) and any(isinstance(t, ast.Name) and t.id == acc for t in st.targets)
                        and not any(isinstance(y, ast.Name) and y.id == acc for y in ast.walk(st.value))]
                if not inits or (not fills and not over):
                    continue
                n += 1
                desc = f"{f.name}: the collection `{acc}` returned by the function is only extended inside its loop"
                if over:
                    rep.bad(rule, f.qname, desc, f.loc(over[0]), [f"{f.loc(over[0])}: `{unparse(over[0], 60)}` re-binds `{acc}` inside the loop: what was collected before (the entry added at "
                            f"{f.loc(inits[0])}) is lost"], stmt_key(over[0]), what="a collector overwrites its accumulator: the function's own entry drops out of the result")
                else:
                    rep.ok(rule, f.qname, desc, f.loc(loop))
    return n


def _ancestors_if(f: Func, n: ast.AST) -> List[ast.If]:
    out = []
    cur = n
    while cur in f.module.parent:
        cur = f.module.parent[cur]
        if isinstance(cur, (ast.FunctionDef, ast.AsyncFunctionDef)):
            break
        if isinstance(cur, ast.If):
            # `if isinstance(module, ModuleType): module = module.__name__` style conversions precede; only ifs that CONTAIN the add count
            out.append(cur)
    return out


def attribute_refs_tracked(ctx: Ctx, rule: str) -> int:
    """The visitor that collects the tracked variables of a function (`ExternalVarsVisitor`) has a handler for attribute references: a variable of an accepted
    module read through the module (`import pkg.cfg as cfg` ... `cfg.THRESH`) is code of an accepted module like `from pkg.cfg import THRESH`."""
    rep = ctx.report
    c = ctx.prog.cls("dds.introspect.ExternalVarsVisitor")
    if c is None:
        raise AnchorError("dds.introspect.ExternalVarsVisitor not found")
    handled = "visit_Attribute" in c.methods or any(isinstance(y, ast.Attribute) and y.attr == "Attribute" and isinstance(y.value, ast.Name) and y.value.id == "ast"
                                                    for m_ in c.methods.values() for y in m_.own_nodes())
    desc = "ExternalVarsVisitor tracks the variables of accepted modules that are read through an attribute (`cfg.THRESH`)"
    if handled:
        rep.ok(rule, c.qname, desc, c.module.relpath)
    else:
        rep.bad(rule, c.qname, desc, f"{c.module.relpath}:{c.node.lineno}", [f"{c.module.relpath}:{c.node.lineno}: the visitor handles {sorted(k for k in c.methods if k.startswith('visit_'))} only: an "
                "ast.Attribute whose root is a module is visited as the bare name of the module, which is not a variable", "`import xacc.cfg as cfg` and `def f(): return cfg.THRESH` in an accepted "
                "module: editing THRESH in the accepted module xacc.cfg changes no signature and the stale result is served"], "attr-variable",
                what="a variable of an accepted module read through a module attribute (cfg.THRESH) is not tracked")
    return 1


def base_classes_tracked(ctx: Ctx, rule: str) -> int:
    """The class inspectors look at the base classes of the class they analyse (`node.bases`): the methods a class inherits from a class of an accepted module
    are code of an accepted module."""
    rep = ctx.report
    prog = ctx.prog
    n = 0
    for q in ("dds.introspect.InspectFunction.inspect_class",):
        f = prog.func(q)
        if f is None:
            continue
        n += 1
        uses = [y for y in f.own_nodes() if isinstance(y, ast.Attribute) and y.attr in ("bases", "__bases__", "__mro__", "mro")]
        desc = f"{f.qname.split('.')[-2]}.inspect_class takes the base classes into account"
        if uses:
            rep.ok(rule, f.qname, desc, f.loc(uses[0]))
        else:
            rep.bad(rule, f.qname, desc, f.loc(), [f"{f.loc()}: the class is analysed from the methods of its own body; `node.bases` is never read",
                    "`class Child(Base)` with Base in another accepted module: editing Base.get changes no signature of a function that calls Child().get(): the stale result is served"],
                    "base-classes", what="methods inherited from a base class of an accepted module are not tracked")
    return n


def accepted_set_is_live(ctx: Ctx, rule: str) -> int:
    """The per-evaluation analysis context looks the accepted packages up in the very set that dds.accept_module fills - handed over and stored without a copy - so that a
    package accepted while the evaluation runs (a package that accepts itself when it is first imported, by the analysis) is seen by that evaluation."""
    from .roles import accepted_attr
    rep = ctx.report
    prog = ctx.prog
    k = prog.cls("dds._eval_ctx.EvalMainContext")
    init = k.methods.get("__init__") if k is not None else None
    if init is None:
        raise AnchorError("dds._eval_ctx.EvalMainContext.__init__ not found")
    attr = accepted_attr(ctx)
    n = 0
    for st in init.own_nodes():
        if isinstance(st, (ast.Assign, ast.AnnAssign)) and st.value is not None:
            t = st.targets[0] if isinstance(st, ast.Assign) else st.target
            if isinstance(t, ast.Attribute) and isinstance(t.value, ast.Name) and t.value.id == "self" and t.attr == attr:
                n += 1
                desc = f"the analysis context keeps the set of accepted packages itself in self.{attr}"
                if isinstance(st.value, ast.Name) and st.value.id in init.params:
                    rep.ok(rule, init.qname, desc, init.loc(st))
                else:
                    rep.bad(rule, init.qname, desc, init.loc(st), [f"{init.loc(st)}: `{unparse(st, 60)}` stores a copy / a derived value",
                            "a package that calls dds.accept_module for itself in its __init__.py and is first imported by the analysis (function-local import) is not seen by that "
                            "evaluation: edits of its functions change no signature in the first evaluation of the process, and the second evaluation of the same code gets another signature"],
                            "accepted-copy", what="the evaluation works on a snapshot of the accepted packages: a package accepted during the analysis is not tracked")
    # construction sites hand over the module-level set that accept_module mutates
    acc = prog.func("dds.introspect.accept_module")
    mut = set()
    if acc is not None:
        for y in acc.own_nodes():
            if isinstance(y, ast.Call) and isinstance(y.func, ast.Attribute) and y.func.attr in ("add", "update") and isinstance(y.func.value, ast.Name):
                mut.add(y.func.value.id)
    for f in prog.funcs.values():
        if not f.module.name.startswith("dds"):
            continue
        for c in f.own_nodes():
            if isinstance(c, ast.Call) and (prog.dotted(f, c.func) or "").endswith("EvalMainContext"):
                init_params = [p_ for p_ in init.positional_params() if p_ != "self"]
                # the parameter that feeds the accepted attribute
                ps = [p_ for p_ in init_params for st in init.own_nodes() if isinstance(st, (ast.Assign, ast.AnnAssign)) and st.value is not None
                      and any(isinstance(y, ast.Name) and y.id == p_ for y in ast.walk(st.value))
                      and isinstance((st.targets[0] if isinstance(st, ast.Assign) else st.target), ast.Attribute) and (st.targets[0] if isinstance(st, ast.Assign) else st.target).attr == attr]
                if not ps:
                    continue
                val = None
                for kw in c.keywords:
                    if kw.arg == ps[0]:
                        val = kw.value
                if val is None and ps[0] in init_params and init_params.index(ps[0]) < len(c.args):
                    val = c.args[init_params.index(ps[0])]
                if val is None:
                    continue
                n += 1
                desc = "the evaluation is given the set that accept_module fills (not a copy of it)"
                if isinstance(val, ast.Name) and (not mut or val.id in mut):
                    rep.ok(rule, f.qname, desc, f.loc(c))
                else:
                    rep.bad(rule, f.qname, desc, f.loc(c), [f"{f.loc(c)}: `{ps[0]}={unparse(val, 50)}`"], stmt_key(c), what="the evaluation is given a copy of the accepted packages")
    return n


def module_path_complete(ctx: Ctx, rule: str) -> int:
    """The canonical path of a module has one segment per component of its dotted name (abstract evaluation of `_mod_path` on a module named 'a.b.c.d'): the
    authorisation test tries every prefix of that path, so a path that folds the leading components into one segment ('a.b.c', 'd') can only match the module itself
    and its direct parent - a function of a deep module accepted through an ancestor two levels up is silently not tracked."""
    from ..absint import Evaluator, Const, Obj, NOT_HANDLED
    rep = ctx.report
    prog = ctx.prog
    cands = [f for f in prog.funcs.values() if f.module.name.startswith("dds") and not f.module.name.startswith("dds_tests") and f.cls is None and len(f.positional_params()) == 1
             and any(isinstance(y, ast.Attribute) and y.attr == "__name__" for y in f.own_nodes())
             and any(isinstance(y, ast.Call) and unparse(y.func).endswith("from_list") for y in f.own_nodes())]
    n = 0
    for f in cands:
        n += 1
        got = []

        def oracle(name, args, kwargs, node):
            if name.endswith("from_list") and args:
                got.append(args[0])
                return Obj("canonical-path", args, {})
            return NOT_HANDLED
        desc = f"{f.name}: the path of the module 'a.b.c.d' has the four segments a, b, c, d"
        try:
            Evaluator(prog, oracle=oracle).run(f, [Obj("module", [], {"__name__": Const("a.b.c.d")})])
        except Exception as e:
            rep.unknown(rule, f.qname, desc, f.loc(), [f"not evaluated: {type(e).__name__}: {e}"])
            continue
        segs = None
        if got:
            v = got[0]
            segs = list(v.v) if isinstance(v, Const) and isinstance(v.v, (list, tuple)) else ([getattr(x, "v", None) for x in v] if isinstance(v, (list, tuple)) else None)
        if segs == ["a", "b", "c", "d"]:
            rep.ok(rule, f.qname, desc, f.loc())
        elif segs is None:
            rep.unknown(rule, f.qname, desc, f.loc(), [f"segments not constant: {got!r}"])
        else:
            rep.bad(rule, f.qname, desc, f.loc(), [f"{f.loc()}: the segments are {segs}",
                    "accept_module('lib') and a function lib.s2.s3.f: its path <lib.s2/s3/f> has no prefix 'lib': f is an external dependency, editing it changes no signature"],
                    "module-path-segments", what="the canonical path of a module folds components of its dotted name into one segment: deep modules accepted through an ancestor are not tracked")
    return n
