"""
C06 - a process killed at any instant never leaves a store that serves wrong data (local store).

R1  atomic publication: every mutating effect of store_blob / sync_paths on a name that has_blob, fetch_blob
    or fetch_paths look at is a rename of a private temporary.
R2  commit marker last, presence = marker.
R3  no publication before serialisation completed; blob published before its marker.
"""
from .common import Ctx
from . import storerules as S

PROP = "C06"


def run(ctx: Ctx) -> None:
    rep = ctx.report
    ctx.types
    v = S.LocalView(ctx)
    rep.analysed["store_class"] = v.cls.qname
    rep.analysed["fs_effects_summarised"] = v.n_effects
    rep.analysed["reader_visible_names"] = [S.show(t) for t in v.visible]
    rep.rule("C06.R1", "effects on reader-visible names are RENAME_INTO(private unique temporary -> name)")
    rep.rule("C06.R2", "last publication of store_blob is a name has_blob requires; every name fetch_blob reads is published")
    rep.rule("C06.R3", "publications are dominated by the normal completion of the codec call; blob before marker")
    n1 = S.atomic_publication(ctx, v, "C06.R1")
    rep.floor("C06.R1", n1, 3)
    S.marker_last(ctx, v, "C06.R2")
    n3 = S.marker_after_codec(ctx, v, "C06.R3")
    rep.floor("C06.R3", n3, 2)
    rep.rule("C06.R4", "temporaries are writer-unique (a leftover of a killed process must not block a later one); store_blob always publishes the marker")
    S.unique_temporaries(ctx, v, "C06.R4")
    S.store_always_publishes(ctx, v, "C06.R4")
    S.rename_after_close(ctx, v, "C06.R3")
    rep.rule("C06.R5", "as C04.R1: every evaluation that returns commits its complete path map, so a re-run repairs a path commit interrupted by a crash")
    from .common import find_api_functions
    from .c04 import commit_rules
    top, _n = find_api_functions(ctx)
    commit_rules(ctx, top, "C06.R5")
    rep.rule("C06.R6", "typestate exploration: the writer is killed after every atomic step of the extracted effect sequences (both halves of in-place writes), then observed and re-run")
    n6 = S.crash_sweep(ctx, v, "C06.R6")
    rep.analysed["crash_points_explored"] = n6
    rep.floor("C06.R6", n6, 15)
    rep.rule("C06.R7", "the reading methods (has_blob, fetch_blob, fetch_paths) modify no entry of the store: a kill inside a reader cannot tear a committed entry")
    n7 = S.readers_read_only(ctx, v, "C06.R7")
    rep.floor("C06.R7", n7, 3)
    rep.rule("C06.R8", "every directory of the store is created by the constructor whatever the state of the other ones: a process killed between two "
                       "mkdir calls must not leave a store that no later process completes")
    n8 = S.dirs_created_unconditionally(ctx, v, "C06.R8")
    rep.floor("C06.R8", n8, 2)
    rep.rule("C06.R9", "fetch_paths takes a path for committed only when os.path.exists() holds for the path's own entry (a commit killed after its mkdir leaves the directory, "
                       "not the link; a link whose blob was never written dangles)")
    n9 = S.path_entry_presence(ctx, v, "C06.R9")
    rep.floor("C06.R9", n9, 1)
    rep.floor("C06.effects", v.n_effects, 9)
